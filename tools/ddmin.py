#!/usr/bin/env python3
"""Line-based delta debugging of a roto script against the `verif compile` debug command.
usage: ddmin.py file.roto <mode>   mode: crash (process dies by signal after 'compiled ok')
                                          panic:<substr> (output contains substr)"""
import subprocess, sys, os
BIN='/verif/harness/target/release/roto-verif'
def run(src):
    open('/root/scratch/_dd.roto','w').write(src)
    p=subprocess.run([BIN,'compile','/root/scratch/_dd.roto'],capture_output=True,text=True,timeout=60,errors='replace')
    return p.returncode, p.stdout+p.stderr
def bad(src, mode):
    try:
        rc,out=run(src)
    except subprocess.TimeoutExpired:
        return False
    if mode=='crash':
        return rc<0 and 'compiled ok' in out
    if mode.startswith('panic:'):
        return mode[6:] in out
    if mode.startswith('out:'):
        return mode[4:] in out
    return False
def main():
    f=sys.argv[1]; mode=sys.argv[2]
    lines=open(f).read().split('\n')
    assert bad('\n'.join(lines),mode), 'initial does not fail'
    changed=True
    while changed:
        changed=False
        n=len(lines)
        for size in (16,8,6,5,4,3,2,1):
            i=0
            while i+size<=len(lines):
                cand=lines[:i]+lines[i+size:]
                if bad('\n'.join(cand),mode):
                    lines=cand; changed=True
                else:
                    i+=1
    print('\n'.join(lines))
main()
