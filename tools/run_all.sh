#!/bin/bash
# run every registered quick (or thorough) check on /repo's current tree
ROOT=$(cd "$(dirname "$0")/.." && pwd); cd "$ROOT"
TIER=${1:-quick}
rc=0
for i in $(seq -w 1 20); do
  out=$(./check C$i $TIER 2>&1); c=$?
  echo "$out" | grep -E '^(VIOLATION|KNOWN-FINDING|INCONCLUSIVE)' | cut -c1-200
  echo "$out" | tail -1
  [ $c -ne 0 ] && rc=1
done
exit $rc
