#!/bin/bash
# Coverage-guided stage of `./check C06 thorough` (libFuzzer through cargo-fuzz).
#   tools/fuzz_stage.sh <harness-binary>
# Builds fuzz/ against /repo's working tree (--cfg roto_verif), runs 16 libFuzzer
# processes on a fresh corpus seeded from the repository's .roto files for a fixed
# number of runs each, converts every crash artifact into a harness replay file and
# lets the harness classify it (known finding / violation).  Timeouts and OOMs of
# the fuzzer are inconclusive (exit 2), never violations.
set -u
BIN="$1"
ROOT=$(cd "$(dirname "$0")/.." && pwd)
SEED=${VERIF_SEED:-0}
RUNS=${VERIF_FUZZ_RUNS:-60000}
JOBS=${VERIF_FUZZ_JOBS:-16}
WORK="$ROOT/fuzz/work"
rm -rf "$WORK"; mkdir -p "$WORK/corpus" "$WORK/artifacts" "$WORK/logs"
export CARGO_NET_OFFLINE=true
t0=$(date +%s)
if ! (cd "$ROOT/fuzz" && RUSTFLAGS="--cfg roto_verif" cargo +nightly fuzz build --sanitizer none --fuzz-dir "$ROOT/fuzz" compile_total >"$WORK/logs/build.log" 2>&1); then
    echo "INCONCLUSIVE fuzz target build failed (see $WORK/logs/build.log)"; tail -5 "$WORK/logs/build.log"; exit 2
fi
FZ="$ROOT/fuzz/target/x86_64-unknown-linux-gnu/release/compile_total"
[ -x "$FZ" ] || { echo "INCONCLUSIVE fuzz binary missing"; exit 2; }
# seed corpus: every .roto file of the repository + committed seeds
n=0
for f in $(find /repo -name '*.roto' -not -path '*/target/*' | sort) "$ROOT"/fuzz/seeds/*; do
    [ -f "$f" ] && cp "$f" "$WORK/corpus/seed-$n" && n=$((n+1))
done
export ROTO_FUZZ_ALLOW=$(python3 - "$ROOT/known_findings.json" <<'PY'
import json,sys
k=json.load(open(sys.argv[1]))
for f in k['findings']:
    if f['status']=='known' and (f['property']=='C06' or 'C06' in (f.get('affects') or [])):
        print('&&'.join(f['sig_contains']))
PY
)
pids=""
for i in $(seq 0 $((JOBS-1))); do
    s=$((SEED*64+i+1))
    "$FZ" -runs=$RUNS -seed=$s -max_len=1500 -len_control=0 -timeout=60 -rss_limit_mb=4096 \
        -dict="$ROOT/fuzz/roto.dict" -artifact_prefix="$WORK/artifacts/j$i-" -print_final_stats=1 \
        "$WORK/corpus" >"$WORK/logs/j$i.log" 2>&1 &
    pids="$pids $!"
done
fail=0
for p in $pids; do wait $p || fail=1; done
t1=$(date +%s)
execs=$(grep -h 'stat::number_of_executed_units' "$WORK"/logs/j*.log | awk '{s+=$2} END {print s+0}')
cov=$(grep -h -o 'cov: [0-9]*' "$WORK"/logs/j*.log | awk '{if ($2>m) m=$2} END {print m+0}')
corpus=$(ls "$WORK/corpus" | wc -l)
crashes=$(ls "$WORK/artifacts" 2>/dev/null | grep -c '^j[0-9]*-crash-' || true)
others=$(ls "$WORK/artifacts" 2>/dev/null | grep -c -E '^j[0-9]*-(timeout|oom|slow-unit)-' || true)
rc=0
known=0
for a in "$WORK"/artifacts/j*-crash-*; do
    [ -f "$a" ] || continue
    r="$ROOT/replays/C06-fuzz-$(basename "$a").json"
    python3 - "$a" "$r" <<'PY'
import sys,json
data=open(sys.argv[1],'rb').read()
h=lambda b: b.hex()
json.dump({"property":"C06","origin":"libfuzzer","case":[h(b"#!files"),h(b"fuzz.roto"),h(data)],"text":data.decode('utf-8','replace')},open(sys.argv[2],'w'),indent=1)
PY
    out=$("$BIN" replay C06 "$r" 2>&1); c=$?
    if [ $c -eq 1 ]; then echo "$out" | grep -E '^(VIOLATION|signature)'; rc=1
    elif echo "$out" | grep -q '^KNOWN-FINDING'; then known=$((known+1)); rm -f "$r"
    elif [ $c -eq 0 ]; then echo "INCONCLUSIVE fuzz artifact $a fails in the fuzz target but passes in the harness (kept: $r)"; [ $rc -eq 0 ] && rc=2
    else [ $rc -eq 0 ] && rc=2; fi
done
if [ $rc -eq 0 ] && [ "$others" -gt 0 ]; then echo "INCONCLUSIVE libFuzzer reported $others timeout/oom artifacts in $WORK/artifacts"; rc=2; fi
python3 - "$ROOT/evidence/C06.json" "$execs" "$cov" "$corpus" "$crashes" "$known" "$((t1-t0))" "$RUNS" "$JOBS" "$n" <<'PY'
import json,sys
p=sys.argv[1]; e=json.load(open(p))
execs,cov,corpus,crashes,known,wall,runs,jobs,seeds=map(int,sys.argv[2:])
e['coverage']['fuzz']={"engine":"libFuzzer (cargo-fuzz), target fuzz/fuzz_targets/compile_total.rs","processes":jobs,"runs_per_process":runs,"executions":execs,"edge_coverage_max":cov,"corpus_files_at_end":corpus,"seed_files":seeds,"crash_artifacts":crashes,"crash_artifacts_matching_known_findings":known,"wall_s":wall}
e['coverage']['evaluations']+=execs
e['wall_s']+=wall
json.dump(e,open(p,'w'),indent=1)
PY
echo "C06 thorough fuzz stage: processes=$JOBS executions=$execs cov=$cov corpus=$corpus crash_artifacts=$crashes known=$known wall=$((t1-t0))s => exit $rc"
exit $rc
