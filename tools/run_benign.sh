#!/bin/bash
# usage: tools/run_benign.sh <benign-dir> [tier]
# Applies <benign-dir>/patch.diff (a change that keeps the property) to /repo, runs the check of
# its own property and the checks anchored in the files it touches, restores /repo.
# Every check must exit 0 without a VIOLATION line.  Results go to <benign-dir>/result.txt.
set -u
D=$(cd "$1" && pwd); shift
TIER=${1:-quick}
ROOT=$(cd "$(dirname "$0")/.." && pwd)
OWN=$(basename "$D" | cut -d- -f1)
IDS=$(python3 - "$D/patch.diff" "$OWN" <<'P'
import sys,re
files=re.findall(r'^\+\+\+ b/(\S+)',open(sys.argv[1]).read(),re.M)
m=[('src/typechecker/',['C06','C07','C13','C14','C01']),('src/parser/',['C06','C09']),
   ('src/mir/',['C01','C02','C03','C08','C20']),('src/lir/lower',['C01','C02','C03','C05','C20']),
   ('src/lir/eval',['C20']),('src/lir/value',['C20']),('src/codegen/testing',['C19']),
   ('src/codegen/',['C01','C04','C05','C11','C12']),('src/value/list',['C15','C16','C10','C12']),
   ('src/value/string',['C17','C10']),('src/value/',['C05','C04']),('src/runtime/',['C18','C17','C10','C05']),
   ('src/file_tree',['C13','C06']),('src/cli',['C19']),('src/pipeline',['C06','C14','C11']),('src/ast',['C19','C06'])]
ids=[sys.argv[2]]
for f in files:
    for pre,ps in m:
        if f.startswith(pre):
            for p in ps:
                if p not in ids: ids.append(p)
            break
print(' '.join(ids))
P
)
if [ -n "$(git -C /repo status --porcelain --untracked-files=no)" ]; then echo "/repo not clean"; exit 3; fi
git -C /repo apply "$D/patch.diff" || { echo "patch does not apply"; exit 3; }
: > "$D/result.txt"
for id in $IDS; do
  start=$(date +%s)
  out=$(cd "$ROOT" && VERIF_SEED=${VERIF_SEED:-0} timeout 3600 ./check $id $TIER 2>&1)
  code=$?
  end=$(date +%s)
  viol=$(echo "$out" | grep -m1 '^VIOLATION' || true)
  sig=$(echo "$out" | grep -m1 'signature:' || true)
  last=$(echo "$out" | tail -1)
  echo "$id $TIER exit=$code wall=$((end-start))s | $viol | $sig | $last" | tee -a "$D/result.txt"
done
git -C /repo checkout -- .
