#!/bin/bash
# usage: tools/seeded_batch.sh <dir> ...   (runs each seeded change against its own property's quick check)
cd "$(dirname "$0")/.."
for d in "$@"; do
  echo "== $d"
  tools/run_seeded.sh "$d" quick
done
