#!/bin/bash
# Coverage-guided stage of `./check <ID> thorough` (libFuzzer through cargo-fuzz).
#   tools/cg_stage.sh <harness-binary> <ID>
# Builds fuzz/ (target prop_cg) against the repository's working tree (--cfg roto_verif), writes
# a seed corpus of proptest-generated cases, runs VERIF_FUZZ_JOBS libFuzzer processes for
# VERIF_FUZZ_RUNS runs each.  The target executes the property's own check in-process (same
# generator, same oracle, same known-finding matchers) and aborts on the first failure nobody
# listed; every crash artifact is converted into a replay file and classified by the harness in an
# isolated worker, which prints the VIOLATION line.  libFuzzer timeouts / OOMs are exit 2.
set -u
BIN="$1"; ID="$2"
ROOT=$(cd "$(dirname "$0")/.." && pwd)
REPO="${VERIF_REPO:-/repo}"
SEED=${VERIF_SEED:-0}
RUNS=${VERIF_FUZZ_RUNS:-25000}
JOBS=${VERIF_FUZZ_JOBS:-16}
WORK="$ROOT/fuzz/work-$ID"
rm -rf "$WORK"; mkdir -p "$WORK/corpus" "$WORK/artifacts" "$WORK/logs" "$WORK/stats"
export CARGO_NET_OFFLINE=true VERIF_ROOT="$ROOT"
t0=$(date +%s)
if ! (cd "$ROOT/fuzz" && RUSTFLAGS="--cfg roto_verif" cargo +nightly fuzz build --sanitizer none --fuzz-dir "$ROOT/fuzz" prop_cg >"$WORK/logs/build.log" 2>&1); then
    echo "INCONCLUSIVE coverage-guided target build failed (see $WORK/logs/build.log)"; grep -E '^error' -A6 "$WORK/logs/build.log" | head -20; exit 2
fi
FZ="$ROOT/fuzz/target/x86_64-unknown-linux-gnu/release/prop_cg"
[ -x "$FZ" ] || { echo "INCONCLUSIVE coverage-guided binary missing"; exit 2; }
"$BIN" cg-seeds "$ID" 300 "$WORK/corpus" >"$WORK/logs/seeds.log" 2>&1 || { echo "INCONCLUSIVE cannot write the seed corpus"; exit 2; }
nseeds=$(ls "$WORK/corpus" | wc -l)
MAXLEN=$("$BIN" cg-maxlen "$ID")
pids=""
for i in $(seq 0 $((JOBS-1))); do
    s=$((SEED*64+i+1))
    VERIF_CG_PROP=$ID VERIF_CG_STATS="$WORK/stats/j$i.json" "$FZ" -runs=$RUNS -seed=$s -max_len=$MAXLEN -len_control=0 \
        -timeout=120 -rss_limit_mb=6144 -artifact_prefix="$WORK/artifacts/j$i-" -print_final_stats=1 \
        "$WORK/corpus" >"$WORK/logs/j$i.log" 2>&1 &
    pids="$pids $!"
done
for p in $pids; do wait $p; done
t1=$(date +%s)
execs=$(grep -h 'stat::number_of_executed_units' "$WORK"/logs/j*.log | awk '{s+=$2} END {print s+0}')
cov=$(grep -h -o 'cov: [0-9]*' "$WORK"/logs/j*.log | awk '{if ($2>m) m=$2} END {print m+0}')
corpus=$(ls "$WORK/corpus" | wc -l)
crashes=$(ls "$WORK/artifacts" 2>/dev/null | grep -c '^j[0-9]*-crash-' || true)
others=$(ls "$WORK/artifacts" 2>/dev/null | grep -c -E '^j[0-9]*-(timeout|oom|slow-unit)-' || true)
rc=0; known=0; seen=""
for a in "$WORK"/artifacts/j*-crash-*; do
    [ -f "$a" ] || continue
    r="$ROOT/replays/$ID-cg-$(basename "$a").json"
    "$BIN" cg-convert "$ID" "$a" "$r" || { [ $rc -eq 0 ] && rc=2; continue; }
    out=$("$BIN" replay "$ID" "$r" 2>&1); c=$?
    if [ $c -eq 1 ]; then
        sig=$(echo "$out" | grep -m1 '^signature')
        case "$seen" in *"|$sig|"*) rm -f "$r" ;; *) seen="$seen|$sig|"; echo "$out" | grep -E '^(VIOLATION|signature)'; echo "$out" | tail -n +3 | head -40 | sed 's/^/  | /' ;; esac
        rc=1
    elif echo "$out" | grep -q '^KNOWN-FINDING'; then known=$((known+1)); rm -f "$r"
    elif [ $c -eq 0 ]; then echo "INCONCLUSIVE artifact $a fails in the coverage-guided target but passes in the harness (kept: $r)"; [ $rc -eq 0 ] && rc=2
    else [ $rc -eq 0 ] && rc=2; fi
done
if [ $rc -eq 0 ] && [ "$others" -gt 0 ]; then echo "INCONCLUSIVE libFuzzer reported $others timeout/oom artifacts in $WORK/artifacts"; rc=2; fi
python3 - "$ROOT/evidence/$ID.json" "$WORK/stats" "$execs" "$cov" "$corpus" "$crashes" "$known" "$((t1-t0))" "$RUNS" "$JOBS" "$nseeds" <<'PY'
import json,sys,glob
p=sys.argv[1]; e=json.load(open(p))
execs,cov,corpus,crashes,known,wall,runs,jobs,seeds=map(int,sys.argv[3:])
tot={"cases":0,"evaluations":0,"nontrivial":0,"distinct_nontrivial":0,"discards":0}
classes={}; excl={}; samples=[]
for f in sorted(glob.glob(sys.argv[2]+"/j*.json")):
    try: j=json.load(open(f))
    except Exception: continue
    for k in tot: tot[k]+=j.get(k,0)
    for k,v in j.get("classes",{}).items(): classes[k]=classes.get(k,0)+v
    for k,v in j.get("excluded",{}).items(): excl[k]=excl.get(k,0)+v
    samples+=j.get("samples",[])[:1]
cv=e.setdefault('coverage',{})
cv['coverage_guided']={"engine":"libFuzzer (cargo-fuzz), target fuzz/fuzz_targets/prop_cg.rs: the property's own generator and oracle run in-process on libFuzzer's inputs","processes":jobs,"runs_per_process":runs,"executions":execs,"edge_coverage_max":cov,"corpus_files_at_end":corpus,"seed_files":seeds,"crash_artifacts":crashes,"crash_artifacts_matching_known_findings":known,"wall_s":wall,
  "cases_counted":tot["cases"],"nontrivial_cases":tot["nontrivial"],"distinct_nontrivial_sum_over_processes":tot["distinct_nontrivial"],"discards":tot["discards"],"class_histogram":classes,"excluded_by_known_finding":excl,"samples":samples[:3],
  "note":"counts are flushed every 2000 cases per process, so up to 2000 cases per process are missing; distinct is per process"}
if isinstance(cv.get('evaluations'),int): cv['evaluations']+=tot["evaluations"]
if isinstance(e.get('wall_s'),(int,float)): e['wall_s']+=wall
json.dump(e,open(p,'w'),indent=1)
PY
echo "$ID thorough coverage-guided stage: processes=$JOBS executions=$execs cov=$cov corpus=$corpus crash_artifacts=$crashes known=$known wall=$((t1-t0))s => exit $rc"
exit $rc
