#!/bin/bash
# usage: tools/par_benign.sh <slot> <tier> <benign-dir>
# par_seeded.sh for a property-preserving change: runs the check of its own property and the checks
# anchored in the files it touches (same table as run_benign.sh); every one must stay silent.
D=$(cd "$3" && pwd)
OWN=$(basename "$D" | cut -d- -f1)
IDS=$(python3 - "$D/patch.diff" "$OWN" <<'P'
import sys,re
files=re.findall(r'^\+\+\+ b/(\S+)',open(sys.argv[1]).read(),re.M)
m=[('src/typechecker/',['C06','C07','C13','C14','C01']),('src/parser/',['C06','C09']),
   ('src/mir/',['C01','C02','C03','C08','C20']),('src/lir/lower',['C01','C02','C03','C05','C20']),
   ('src/lir/eval',['C20']),('src/lir/value',['C20']),('src/codegen/testing',['C19']),
   ('src/codegen/',['C01','C04','C05','C11','C12']),('src/value/list',['C15','C16','C10','C12']),
   ('src/value/string',['C17','C10']),('src/value/',['C05','C04']),('src/runtime/',['C18','C17','C10','C05']),
   ('src/file_tree',['C13','C06']),('src/cli',['C19']),('src/pipeline',['C06','C14','C11']),('src/ast',['C19','C06'])]
ids=[sys.argv[2]]
for f in files:
    for pre,ps in m:
        if f.startswith(pre):
            for p in ps:
                if p not in ids: ids.append(p)
            break
print(' '.join(ids))
P
)
exec "$(dirname "$0")/par_seeded.sh" "$1" "$2" "$3" $IDS
