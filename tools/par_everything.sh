#!/bin/bash
# usage: tools/par_everything.sh <nslots> [dir ...]
# Re-runs seeded changes (own check + also.txt) and benign changes (own check + checks anchored in the
# touched files) on scratch copies, <nslots> at a time, quick tier, seed 0.  Default: all of them.
N=${1:-4}; shift || true
cd "$(dirname "$0")/.."
export PS_BASE=/tmp/ps-$$
if [ $# -eq 0 ]; then set -- seeded/C*-*/ benign/C*-*/; fi
printf '%s\n' "$@" | sed 's#/$##' | xargs -P "$N" --process-slot-var=PSLOT -I{} sh -c 'case {} in benign/*) tools/par_benign.sh $PSLOT quick {} >/dev/null 2>&1 ;; *) tools/par_seeded.sh $PSLOT quick {} >/dev/null 2>&1 ;; esac; echo "{}: $(cut -c1-120 {}/result.txt | tr "\n" ";")"'
rm -rf $PS_BASE
