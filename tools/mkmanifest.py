#!/usr/bin/env python3
"""Regenerates MANIFEST.json from the table below (run after adding a check)."""
import json, os
ROOT = os.path.dirname(os.path.dirname(os.path.abspath(__file__)))

CHECKS = {
 # id: (technique, level text, level note, design_ref)
 "C10": ("exhaustive operator/type/boundary-operand grid + random operands (proptest) in crash-isolated worker processes; survival oracle",
         "Exploration: every arithmetic/comparison/compound operator on all 10 numeric types over all pairs of a 15-value boundary set (exhaustive) plus random pairs, each executed in a worker process whose death by signal/abort is the failure signal.",
         "Trusts the driver's classification of worker exit status; operands outside the boundary set are only sampled.",
         "DESIGN.md §4 C10"),
}
NOT_YET = {}
ALL = ["C%02d" % i for i in range(1, 21)]

def main():
    checks = []
    for pid in ALL:
        if pid not in CHECKS: continue
        tech, text, note, ref = CHECKS[pid]
        checks.append({
            "property_id": pid,
            "quick_cmd": f"./check {pid} quick",
            "thorough_cmd": f"./check {pid} thorough",
            "evidence_file": f"/verif/evidence/{pid}.json",
            "replay_cmd_template": f"./check {pid} --replay {{path}}",
            "engine": "roto-verif",
            "level_claimed": {"category": "exploration", "text": text, "design_ref": ref},
            "level_note": note,
            "technique": tech,
        })
    na = [{"property_id": p, "reason": NOT_YET.get(p, "check not built yet in this round (planned, see DESIGN.md §4); not a claim that the technique cannot apply")}
          for p in ALL if p not in CHECKS]
    hooks_file = os.path.join(ROOT, "hooks.json")
    hooks = json.load(open(hooks_file)) if os.path.exists(hooks_file) else {"source_commits": []}
    m = {
        "version": 1,
        "setup_cmd": "./check --build-only",
        "hooks": {
            "guard": "--cfg roto_verif",
            "enable": "harness/.cargo/config.toml sets rustflags = [\"--cfg\", \"roto_verif\"]; the harness depends on /repo by path, so every ./check rebuilds /repo's working tree with the hooks on",
            "baseline_off_cmd": "cd /repo && cargo nextest run --workspace --no-fail-fast --tool-config-file pb:/w/lib/nextest.toml --profile pb --test-threads 8 --offline || cargo test --workspace --no-fail-fast --offline",
            "source_commits": hooks.get("source_commits", []),
            "add_only": True,
        },
        "engines": [{
            "name": "roto-verif",
            "path": "/verif/harness",
            "serves_properties": [c["property_id"] for c in checks],
            "kind_free_text": "Rust harness: proptest-driven generated cases (byte choice streams decoded into typed programs / histories / argument tuples), 16 shards each with a crash-isolated worker process, shrinking, replay files, known-findings matching, evidence writer",
        }],
        "checks": checks,
        "not_applicable": na,
        "notes": "Exit codes: 0 held, 1 VIOLATION (with replay file), 2 inconclusive/infrastructure (never a VIOLATION line). VERIF_SEED selects the seed. Known findings: /verif/known_findings.json.",
    }
    json.dump(m, open(os.path.join(ROOT, "MANIFEST.json"), "w"), indent=1)
    print("wrote MANIFEST.json with", len(checks), "checks")
main()
