#!/usr/bin/env python3
"""Regenerates MANIFEST.json from the table below (run after adding a check)."""
import json, os
ROOT = os.path.dirname(os.path.dirname(os.path.abspath(__file__)))

CHECKS = {
 # id: (technique, level text, level note, design_ref)
 "C01": ("generated well-typed programs (proptest byte streams -> type-directed generator) x boundary/random inputs; differential against a reference interpreter; plus the exhaustive operator grid with the value oracle",
         "Exploration: tens of thousands of generated programs per run over all 8 integer types, floats, bool, char, every operator, blocks, if/match/while/for, early return and (mutually) recursive functions, each on up to 6 input vectors; return value and host-call log compared with the reference interpreter.",
         "Trusts harness/src/model.rs as the statement of the language semantics; program size bounded; inputs that divide an integer by zero (known finding C10-F1) are not executed; `MIN / -1` wraps (repaired as C10-F2) and is executed.",
         "DESIGN.md §4 C01"),
 "C02": ("generated programs with records/enums/options/lists/strings/host types; copy-then-mutate statements; differential against a reference interpreter with value semantics for aggregates and shared lists",
         "Exploration: generated type declarations (generic, nested, every field size class incl. zero-sized and odd-sized host types) and programs that copy, mutate, compare, match and return them; outputs compared with the reference interpreter.",
         "Trusts the reference interpreter; nesting depth <= 3, <= 6 fields; script constants of generated programs hold no lists; a list holding a NaN compared with itself is treated as unspecified.",
         "DESIGN.md §4 C02"),
 "C03": ("generated programs with owning values in every position; invariants over each call: tracked live-set unchanged, no double drop / drop of garbage / use after drop, zero net heap bytes (counting allocator)",
         "Exploration: ownership-heavy generated programs run on inputs that steer every branch; after each call the drop-tracked host types and the per-thread allocation counter must balance.",
         "Balance is checked per call, not per statement; harness global allocator wrapper (which also poisons freed memory) trusted.",
         "DESIGN.md §4 C03"),
 "C04": ("generated script signatures (exact / one-step near miss / random over the full type grammar) x a macro-built catalogue of ~250 Rust function types; structural-equality predicate as oracle; handles never called",
         "Exploration: every generated function is requested under every catalogue type; get_function must succeed iff the descriptors are structurally equal, incl. filtermaps with accept-only / reject-only / both / neither payloads and unknown or generated names.",
         "Rust side is a finite catalogue (sampled cross product); script side ranges over the full grammar to depth 3 and arity 7.",
         "DESIGN.md §4 C04"),
 "C05": ("round-trip of generated edge/random values of ~70 boundary types over six routes (identity, through a registered function and back, script-constructed from literal text, script-compared with literal text, registered constants, 7-argument position sweep, context structs)",
         "Exploration: every value sent across the boundary must come back structurally equal (harness comparison, NaN tolerant, lists by content); script-side construction/matching of Option/Result/Verdict must agree with Rust's view.",
         "Type catalogue is finite; payloads up to 32 bytes; context fields limited to leaf types.",
         "DESIGN.md §4 C05"),
 "C06": ("generated source texts (random token sequences, token/character-mutated valid programs, untyped syntactically valid programs, single type-breaking edits) as single files and module trees; totality oracle in crash-isolated workers",
         "Exploration: compile() must return a package or a report for every generated text; the report must render with and without colour and every cited location must lie inside its file on char boundaries; panics, aborts and stack overflows are observed through worker isolation.",
         "Inputs <= 16 KiB and bracket depth <= 64; hangs are reported as inconclusive by a watchdog; locations come from hook verif_locations.",
         "DESIGN.md §4 C06"),
 "C07": ("three families: one type-breaking edit (32 kinds) on a well-typed generated program; a generator-driven wrong-typed value at one typed site; a self-contained ill-typed snippet (44 families) planted in a well-typed program; each must be rejected with a type error",
         "Exploration: for each generated well-typed program one edit that is ill-typed by construction is applied at a random applicable site; compile must return a report starting with `Error: Type error`.",
         "Single defects only; soundness of the catalogue argued per edit in DESIGN.md; programs are generated without shadowing so that the scope edits stay ill-typed.",
         "DESIGN.md §4 C07"),
 "C08": ("generated programs with uniquely tagged effect markers at every expression position; ordered host-call log compared with the reference interpreter",
         "Exploration: the ordered sequence of (marker, arguments) host calls of each generated program equals the sequence obtained by left-to-right, short-circuit, guard-order evaluation in the reference interpreter.",
         "Trusts the reference interpreter's evaluation order, written from the property statement.",
         "DESIGN.md §4 C08"),
 "C11": ("model-based stateful testing over the embedding API: histories of build-runtime / compile / get / clone / call / drop (also on another thread) operations vs a liveness model over drop-tracked values stored in script constants (incl. a zero-sized one), registered constants and closure captures (incl. two closures of one Rust type), plus an allocator-level invariant for machine code (page-aligned JIT regions alive = those of the packages still referred to), with owners that die during unwinding",
         "Exploration: after every step of a generated history each call must return the model's value for its script version and runtime, and per tag the tracked values must be alive exactly while something refers to them; at the end everything, machine code included, must have been released exactly once.",
         "Use-after-free of still-mapped JIT memory can go unnoticed (worker isolation catches crashes only); liveness tracked per tag; JIT memory is observed through the global allocator (page-aligned regions).",
         "DESIGN.md §4 C11"),
 "C12": ("multi-threaded stress of generated programs (2-8 threads x 50-200 calls on cloned handles, concurrent compile/drop threads) against the single-threaded results and host-call logs, with tracked-value accounting after join; plus rustc accept/reject probes of small embedding programs that try to share !Sync state (11 hand-written + an exhaustive generated grid of 396: kind of state x where the API lets it live x how two threads reach the compiled code; oracle: rejected for a Send/Sync reason iff the state is not thread-safe)",
         "Exploration: for each generated program every concurrent call returned the single-threaded value and log and the tracked-value balance was zero after join; each of 407 probe programs is accepted or rejected by rustc as the property requires.",
         "The OS owns the schedule (sampled interleavings only); the probe list is finite and hand-written.",
         "DESIGN.md §4 C12"),
 "C13": ("generated module trees with shared name pools and probe functions holding references of every form; independent resolver (model) vs compiled behaviour; in-memory vs on-disk differential; get_function by module path",
         "Exploration: for each generated tree the resolver written from the stated lookup rules predicts the tag every probe returns or that compilation fails; the tree is compiled from FileSpec and from a temp directory and both must agree with the model.",
         "Tree depth <= 3; import aliases distinct per scope; pkg/super only at the start of paths (documented grammar).",
         "DESIGN.md §4 C13"),
 "C14": ("random constant/function reference graphs over 1-3 modules in random declaration order, initialisers tagged through a host effect marker; invariants over the compile-time log (once, dependency order, empty on rejection) + values vs a graph model",
         "Exploration: generated reference graphs (acyclic, with an injected cycle, or with a transitive context use); the host-call log produced during compile must contain each constant's tag exactly once and after its dependencies (closed through functions); cyclic/context graphs must be rejected before anything is evaluated.",
         "Graphs of at most 14 items; function-only recursion discarded.",
         "DESIGN.md §4 C14"),
 "C15": ("model-based stateful testing: operation histories (one chunk per operation, shrunk as a sequence) over aliased list handles, issued through the Rust List API or compiled script functions, compared step by step with a shared-vector model; tracked element accounting",
         "Exploration: random histories of up to 60 operations for 8 element types incl. zero-sized and drop-tracked ones; every result, the operands of concat and the number of live tracked elements are compared with the model after each step.",
         "Single-threaded; capacity only checked as >= len.",
         "DESIGN.md §4 C15"),
 "C16": ("three engines (the third: free-running threads on script-made lists of plain data: stale reads through get, concatenation during two ordered pushes, self-concatenation during pushes): (1) controlled-schedule exploration: real threads run list operations one at a time under a baton scheduler driven by generated choices (hook verif::sched), with a brute-force linearizability check against the shared-vector model; (2) free-running stress: real threads race on fresh lists of drop-tracked elements at capacity boundaries, freed memory is poisoned by the harness allocator so that stale reads are seen as use of garbage",
         "Exploration: generated (configuration, schedule) pairs for 2-3 threads x up to 3 operations on 2 shared lists at capacity boundaries, each observed history must admit a linearization; generated (mutator, readers, list size, comparison cost) configurations raced for 4-15 rounds each, no stale read, consistent results, final contents a permutation of the expected elements.",
         "Scheduler engine: interleavings only at hook granularity. Free-running engine: the OS owns the schedule; a window of a few instructions may be hit only in the thorough tier.",
         "DESIGN.md §4 C16"),
 "C17": ("catalogue of ~85 built-ins x generated semantic arguments; differential against Rust std / inetnum computed in the harness",
         "Exploration: every built-in of the default runtime is applied by a compiled script to generated Unicode strings, boundary indices, counts, float bit patterns, addresses and prefix lengths, and the result is compared with the documented Rust operation.",
         "Oracle shares std with the delegating methods (checks binding + the views' hand-written index arithmetic); contested line-slice corner and StringLines.get not judged.",
         "DESIGN.md §4 C17"),
 "C18": ("generated libraries (programmatic registration API, random item trees and orders, 1-2 add calls, optional injected defect) vs a registry model predicting Ok/Err; reachability script calling every registered item by its declared path and by root-level use aliases",
         "Exploration / model-based: the real Runtime::add outcome must equal the model's for every add call and must never panic; after success every function, constant, method and static method is called from a generated script and must return its identity tag; undeclared paths must not compile.",
         "Closure signatures come from 5 shapes over 6 marker types; uses of missing paths and aliases equal to a declared name are outside the stated property and discarded; uses inside modules excluded while C18-F4 is open.",
         "DESIGN.md §4 C18"),
 "C19": ("generated scripts with test blocks (constant-decided accept/reject, early exits, name collisions with functions, several modules) vs an outcome model: run_tests/get_tests results, exactly-once tag log, order determinism; plus the real roto CLI binary (check/test/run) on generated valid and invalid scripts",
         "Exploration: library-level oracle on thousands of generated scripts per run and exit-status/output predicates on the command-line binary built from /repo for a sample of them.",
         "Outcomes are decided by constant conditions; CLI doc/print sub-commands not driven; CLI sample is ~3% of the cases.",
         "DESIGN.md §4 C19"),
 "C20": ("generated non-recursive programs; differential between the LIR evaluator (hook verif_eval) and the JIT code built from the same lowered IR; evaluator panics accepted as 'stops loudly'",
         "Exploration / differential: evaluator and compiled code start from the same lowered IR; whenever the evaluator completes, return value and host-call log must match the compiled code.",
         "About half of the generated programs make the evaluator stop loudly (unsupported features); reported in evidence classes.",
         "DESIGN.md §4 C20"),
 "C09": ("grammar-generated literal spellings vs an independent decoder; Unicode identifiers from regex-syntax's XID tables; trivia insertion (metamorphic, vs the reference interpreter); operator trees printed with minimal and full parentheses vs the reference interpreter; forbidden chains must be parse errors",
         "Exploration: four generators cover literals of every documented form, identifiers in every naming position, comments/whitespace/shebang, and operator precedence/associativity; each compares the compiled script's output with an independently computed value.",
         "Integer spellings within i64; f32 double-rounding spellings discarded; IPv6 text decoded by std.",
         "DESIGN.md §4 C09"),
 "C10": ("exhaustive operator/type/boundary-operand grid + random operands + the built-in catalogue with its widest argument domain (proptest) in crash-isolated worker processes; survival oracle",
         "Exploration: every arithmetic/comparison/compound operator on all 10 numeric types over all pairs of a 15-value boundary set (exhaustive) plus random pairs, each executed in a worker process whose death by signal/abort is the failure signal.",
         "Trusts the driver's classification of worker exit status; operands outside the boundary set are only sampled.",
         "DESIGN.md §4 C10"),
}
NOT_YET = {}
# in-process properties whose thorough tier also runs tools/cg_stage.sh
CG = {"C01", "C02", "C03", "C05", "C07", "C08", "C09", "C13", "C14", "C15", "C17", "C18", "C20"}
ALL = ["C%02d" % i for i in range(1, 21)]

def main():
    checks = []
    for pid in ALL:
        if pid not in CHECKS: continue
        tech, text, note, ref = CHECKS[pid]
        if pid in CG:
            tech += "; thorough tier adds a coverage-guided stage: the same generator and oracle driven by libFuzzer (cargo-fuzz target prop_cg, 16 processes, seed corpus of proptest-generated cases)"
        checks.append({
            "property_id": pid,
            "quick_cmd": f"./check {pid} quick",
            "thorough_cmd": f"./check {pid} thorough",
            "evidence_file": f"/verif/evidence/{pid}.json",
            "replay_cmd_template": f"./check {pid} --replay {{path}}",
            "engine": "roto-verif",
            "level_claimed": {"category": "exploration", "text": text, "design_ref": ref},
            "level_note": note,
            "technique": tech,
        })
    na = [{"property_id": p, "reason": NOT_YET.get(p, "check not built yet in this round (planned, see DESIGN.md §4); not a claim that the technique cannot apply")}
          for p in ALL if p not in CHECKS]
    hooks_file = os.path.join(ROOT, "hooks.json")
    hooks = json.load(open(hooks_file)) if os.path.exists(hooks_file) else {"source_commits": []}
    m = {
        "version": 1,
        "setup_cmd": "./check --build-only",
        "hooks": {
            "guard": "--cfg roto_verif",
            "enable": "harness/.cargo/config.toml sets rustflags = [\"--cfg\", \"roto_verif\"]; the harness depends on /repo by path, so every ./check rebuilds /repo's working tree with the hooks on",
            "baseline_off_cmd": "cd /repo && cargo nextest run --workspace --no-fail-fast --tool-config-file pb:/w/lib/nextest.toml --profile pb --test-threads 8 --offline || cargo test --workspace --no-fail-fast --offline",
            "source_commits": hooks.get("source_commits", []),
            "add_only": True,
        },
        "engines": [{
            "name": "roto-verif",
            "path": "/verif/harness",
            "serves_properties": [c["property_id"] for c in checks],
            "kind_free_text": "Rust harness (library + binary): proptest-driven generated cases (byte choice streams decoded into typed programs / histories / argument tuples), 16 shards each with a crash-isolated worker process, shrinking, replay files, known-findings matching, evidence writer",
        }],
        "checks": checks,
        "not_applicable": na,
        "notes": "Exit codes: 0 held, 1 VIOLATION (with replay file), 2 inconclusive/infrastructure (never a VIOLATION line). VERIF_SEED selects the seed. Known findings: /verif/known_findings.json.",
    }
    json.dump(m, open(os.path.join(ROOT, "MANIFEST.json"), "w"), indent=1)
    print("wrote MANIFEST.json with", len(checks), "checks")
main()
