#!/bin/bash
# Re-run every seeded change under /verif/seeded against the quick check of its own property
# (plus the extra checks listed in <dir>/also.txt) and write seeded/RESULTS.tsv.
cd "$(dirname "$0")/.."
out=seeded/RESULTS.tsv
echo -e "mutant\tcheck\texit\tsignature" > $out
for d in seeded/C*-*/; do
  d=${d%/}
  id=$(basename $d | cut -d- -f1)
  extra=""
  [ -f $d/also.txt ] && extra=$(cat $d/also.txt)
  if ! git -C /repo apply --check "$PWD/$d/patch.diff" 2>/dev/null; then
    echo -e "$(basename $d)\t-\tpatch-does-not-apply\t" >> $out
    continue
  fi
  tools/run_seeded.sh $d quick $id $extra > /dev/null 2>&1
  while read -r line; do
    chk=$(echo "$line" | awk '{print $1}')
    ex=$(echo "$line" | grep -o 'exit=[0-9]*' | head -1 | cut -d= -f2)
    sig=$(echo "$line" | grep -o 'signature: [^|]*' | head -1 | cut -c12- | cut -c1-90)
    echo -e "$(basename $d)\t$chk\t$ex\t$sig" >> $out
  done < $d/result.txt
done
echo DONE >> $out
