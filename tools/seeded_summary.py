#!/usr/bin/env python3
"""Summarise seeded/RESULTS.tsv: per property, how many seeded changes the final checks catch."""
import collections, sys, os
root = os.path.dirname(os.path.dirname(os.path.abspath(__file__)))
rows = [l.rstrip("\n").split("\t") for l in open(os.path.join(root, "seeded", "RESULTS.tsv")) if "\t" in l][1:]
per = collections.defaultdict(dict)
for m, chk, ex, *rest in rows:
    sig = rest[0] if rest else ""
    per[m][chk] = (ex, sig)
byprop = collections.defaultdict(lambda: collections.Counter())
detail = []
for m, d in sorted(per.items()):
    pid = m.split("-")[0]
    own = d.get(pid)
    status = None
    if "-" in d:
        status = "patch does not apply"
    elif own and own[0] == "1":
        status = "own check: VIOLATION"
    elif own and own[0] == "2":
        status = "own check: exit 2 (hang / unhealthy generator)"
    else:
        others = [c for c, (e, _) in d.items() if c != pid and e == "1"]
        others2 = [c for c, (e, _) in d.items() if c != pid and e == "2"]
        if others:
            status = "caught by " + ",".join(others)
        elif others2:
            status = "exit 2 in " + ",".join(others2)
        else:
            status = "MISSED"
    byprop[pid][status.split(":")[0] if status.startswith("own") else status.split(" ")[0]] += 1
    detail.append((m, status, (own or ("", ""))[1]))
print("| Property | seeded | own check VIOLATION | own check exit 2 | neighbouring check | missed / not applicable |")
print("|---|---|---|---|---|---|")
tot = collections.Counter()
for pid in sorted(byprop):
    ms = [x for x in detail if x[0].startswith(pid + "-")]
    v = sum(1 for x in ms if x[1] == "own check: VIOLATION")
    e2 = sum(1 for x in ms if x[1].startswith("own check: exit 2"))
    nb = sum(1 for x in ms if x[1].startswith("caught by") or x[1].startswith("exit 2 in"))
    rest = len(ms) - v - e2 - nb
    tot.update({"n": len(ms), "v": v, "e2": e2, "nb": nb, "rest": rest})
    print(f"| {pid} | {len(ms)} | {v} | {e2} | {nb} | {rest} |")
print(f"| all | {tot['n']} | {tot['v']} | {tot['e2']} | {tot['nb']} | {tot['rest']} |")
print()
for m, st, sig in detail:
    if not st.startswith("own check: VIOLATION"):
        print(f"- {m}: {st} {sig}")
