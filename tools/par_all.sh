#!/bin/bash
# usage: tools/par_all.sh <nslots> <tier> <dir> ...
# Runs tools/par_seeded.sh for every given seeded/benign directory, <nslots> at a time, on
# scratch copies under /tmp/ps-<pid>, and removes the copies afterwards.
N=$1; TIER=$2; shift 2
cd "$(dirname "$0")/.."
export PS_BASE=/tmp/ps-$$   # one scratch area per invocation, removed at the end
printf '%s\n' "$@" | xargs -P "$N" --process-slot-var=PSLOT -I{} sh -c 'tools/par_seeded.sh $PSLOT '"$TIER"' {} >/dev/null 2>&1; echo "{}: $(cut -c1-150 {}/result.txt | tr "\n" ";")"'
rm -rf $PS_BASE
