#!/bin/bash
# usage: tools/run_seeded.sh <seeded-dir> [tier] [ID ...]
# Applies <seeded-dir>/patch.diff to /repo, runs the given checks (default: the
# property named in meta.json) and restores /repo.  Results go to <seeded-dir>/result.txt.
# The evidence files written by these runs describe the mutated tree: re-run the
# checks on the clean tree afterwards (tools/run_all.sh) before committing evidence.
set -u
D=$(cd "$1" && pwd); shift
TIER=${1:-quick}; shift || true
ROOT=$(cd "$(dirname "$0")/.." && pwd)
IDS="$*"
if [ -z "$IDS" ]; then IDS=$(python3 -c "import json,sys;print(json.load(open('$D/meta.json'))['property'])"); fi
if [ -n "$(git -C /repo status --porcelain --untracked-files=no)" ]; then echo "/repo not clean"; exit 3; fi
git -C /repo apply "$D/patch.diff" || { echo "patch does not apply"; exit 3; }
: > "$D/result.txt"
for id in $IDS; do
  start=$(date +%s)
  out=$(cd "$ROOT" && VERIF_SEED=${VERIF_SEED:-0} timeout 3600 ./check $id $TIER 2>&1)
  code=$?
  end=$(date +%s)
  viol=$(echo "$out" | grep -m1 '^VIOLATION' || true)
  sig=$(echo "$out" | grep -m1 'signature:' || true)
  last=$(echo "$out" | tail -1)
  echo "$id $TIER exit=$code wall=$((end-start))s | $viol | $sig | $last" | tee -a "$D/result.txt"
done
git -C /repo checkout -- .
