#!/bin/bash
# Re-run every property-preserving change under /verif/benign (tools/run_benign.sh) and write
# benign/RESULTS.tsv: change, check, exit status.  Every line must say 0.
cd "$(dirname "$0")/.."
out=benign/RESULTS.tsv
echo -e "change\tcheck\texit" > $out
for d in benign/C*-b*/; do
  d=${d%/}
  if ! git -C /repo apply --check "$PWD/$d/patch.diff" 2>/dev/null; then
    echo -e "$(basename $d)\t-\tpatch-does-not-apply" >> $out
    continue
  fi
  tools/run_benign.sh $d quick > /dev/null 2>&1
  while read -r line; do
    chk=$(echo "$line" | awk '{print $1}')
    ex=$(echo "$line" | grep -o 'exit=[0-9]*' | head -1 | cut -d= -f2)
    echo -e "$(basename $d)\t$chk\t$ex" >> $out
  done < $d/result.txt
done
echo DONE >> $out
