#!/bin/bash
# usage: tools/par_seeded.sh <slot> <tier> <seeded-or-benign-dir> [ID ...]
# Like run_seeded.sh, but never touches /repo: slot <slot> owns a scratch copy of /repo
# (/tmp/ps/<slot>/repo) and of /verif (/tmp/ps/<slot>/verif, with its own build output that is
# kept between runs of the same slot), applies the patch to the copy and runs the checks there
# (VERIF_REPO names the copy).  Several slots can run side by side.  Results go to
# <dir>/result.txt; evidence and replay files of these runs stay in the scratch copy.
# Remove /tmp/ps when done (tools/par_all.sh does).
set -u
SLOT=$1; TIER=$2; D=$(cd "$3" && pwd); shift 3
ROOT=$(cd "$(dirname "$0")/.." && pwd)
IDS="$*"
[ -z "$IDS" ] && IDS=$(basename "$D" | cut -d- -f1)
[ -f "$D/also.txt" ] && [ $# -eq 0 ] && IDS="$IDS $(cat "$D/also.txt")"
S=/tmp/ps/$SLOT
mkdir -p $S/repo $S/verif
rsync -a --delete --exclude target --exclude .git /repo/ $S/repo/
rsync -a --delete --exclude .git --exclude harness/target --exclude fuzz/target --exclude fuzz/work --exclude seeded --exclude benign --exclude 'replays/*-seed*' "$ROOT"/ $S/verif/
if [ ! -d $S/verif/harness/target ]; then cp -r "$ROOT/harness/target" $S/verif/harness/target 2>/dev/null; fi
sed -i "s#path = \"/repo\"#path = \"$S/repo\"#" $S/verif/harness/Cargo.toml
( cd $S/repo && git apply "$D/patch.diff" ) || { echo "patch does not apply" | tee "$D/result.txt"; exit 3; }
: > "$D/result.txt"
for id in $IDS; do
  start=$(date +%s)
  out=$(cd $S/verif && VERIF_REPO=$S/repo VERIF_SEED=${VERIF_SEED:-0} timeout 3600 ./check $id $TIER 2>&1)
  code=$?
  end=$(date +%s)
  viol=$(echo "$out" | grep -m1 '^VIOLATION' | sed "s#$S/verif#/verif#" || true)
  sig=$(echo "$out" | grep -m1 'signature:' || true)
  last=$(echo "$out" | tail -1)
  echo "$id $TIER exit=$code wall=$((end-start))s | $viol | $sig | $last" | tee -a "$D/result.txt"
done
