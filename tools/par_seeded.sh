#!/bin/bash
# usage: tools/par_seeded.sh <slot> <tier> <seeded-or-benign-dir> [ID ...]
# Like run_seeded.sh, but never touches /repo: slot <slot> owns a scratch copy of /repo
# ($PS_BASE/<slot>/repo, HEAD; PS_BASE defaults to /tmp/ps) and of /verif ($PS_BASE/<slot>/verif, with its own build output that is
# kept between runs of the same slot), applies the patch to the copy and runs the checks there
# (VERIF_REPO names the copy).  Several slots can run side by side.  Results go to
# <dir>/result.txt; evidence and replay files of these runs stay in the scratch copy.
# Remove /tmp/ps when done (tools/par_all.sh does).
set -u
SLOT=$1; TIER=$2; D=$(cd "$3" && pwd); shift 3
ROOT=$(cd "$(dirname "$0")/.." && pwd)
IDS="$*"
[ -z "$IDS" ] && IDS=$(basename "$D" | cut -d- -f1)
[ -f "$D/also.txt" ] && [ $# -eq 0 ] && IDS="$IDS $(cat "$D/also.txt")"
S=${PS_BASE:-/tmp/ps}/$SLOT
mkdir -p $S/repo $S/verif
# committed state of both (so that edits in progress do not leak into the runs); files that differ are
# rewritten with the current time, never with an older one: cargo only rebuilds what is newer than its output
rm -rf $S/repo.new $S/verif.new; mkdir -p $S/repo.new $S/verif.new
git -C /repo archive HEAD | tar -x -C $S/repo.new
git -C "$ROOT" archive HEAD -- . ':!seeded' ':!benign' | tar -x -C $S/verif.new
rsync -rlpgoD --delete --checksum --exclude target $S/repo.new/ $S/repo/
rsync -rlpgoD --delete --checksum --exclude harness/target --exclude fuzz/target --exclude 'fuzz/work*' --exclude 'replays/*-seed*' $S/verif.new/ $S/verif/
rm -rf $S/repo.new $S/verif.new
if [ ! -d $S/verif/harness/target ]; then cp -r "$ROOT/harness/target" $S/verif/harness/target 2>/dev/null; fi
sed -i "s#path = \"/repo\"#path = \"$S/repo\"#" $S/verif/harness/Cargo.toml
( cd $S/repo && git apply "$D/patch.diff" ) || { echo "patch does not apply" | tee "$D/result.txt"; exit 3; }
: > "$D/result.txt"
for id in $IDS; do
  start=$(date +%s)
  out=$(cd $S/verif && VERIF_REPO=$S/repo VERIF_SEED=${VERIF_SEED:-0} timeout 3600 ./check $id $TIER 2>&1)
  code=$?
  end=$(date +%s)
  viol=$(echo "$out" | grep -m1 '^VIOLATION' | sed "s#$S/verif#/verif#" || true)
  sig=$(echo "$out" | grep -m1 'signature:' || true)
  last=$(echo "$out" | tail -1)
  echo "$id $TIER exit=$code wall=$((end-start))s | $viol | $sig | $last" | tee -a "$D/result.txt"
done
( cd $S/repo && git apply -R "$D/patch.diff" ) || echo "warning: could not revert the patch in $S/repo"
