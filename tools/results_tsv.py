#!/usr/bin/env python3
"""Builds seeded/RESULTS.tsv and benign/RESULTS.tsv from the result.txt files the runners leave in each directory."""
import glob, os, re
root = os.path.dirname(os.path.dirname(os.path.abspath(__file__)))
for kind in ("seeded", "benign"):
    rows = ["mutant\tcheck\texit\tsignature"]
    for d in sorted(glob.glob(os.path.join(root, kind, "C*-*"))):
        r = os.path.join(d, "result.txt")
        name = os.path.basename(d)
        if not os.path.exists(r):
            continue
        for line in open(r):
            line = line.rstrip("\n")
            if line.startswith("patch does not apply"):
                rows.append(f"{name}\t-\tpatch-does-not-apply\t")
                continue
            m = re.match(r"(C\d\d) \w+ exit=(\d+)", line)
            if not m:
                continue
            sig = re.search(r"signature: ([^|]*)", line)
            rows.append(f"{name}\t{m.group(1)}\t{m.group(2)}\t{(sig.group(1).strip() if sig else '')[:90]}")
    rows.append("DONE")
    open(os.path.join(root, kind, "RESULTS.tsv"), "w").write("\n".join(rows) + "\n")
    print(kind, len(rows) - 2, "rows")
