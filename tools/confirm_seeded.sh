#!/bin/bash
# usage: tools/confirm_seeded.sh <worktree> <out-dir-with-patch.diff-and-demo.rs>
# Confirms a seeded change independently of its author: the patch applies to the pinned commit and
# touches only src/ or macros/, the full suite passes with it, the demonstration fails with it and
# passes without it.  Writes <out-dir>/confirm.txt; last line is CONFIRMED or REJECTED <why>.
WT=$1; O=$(cd "$2" && pwd)
cd "$WT" || exit 2
export CARGO_NET_OFFLINE=true
git checkout -q -- . ; git clean -qfd -e target
log="$O/confirm.txt"; : > "$log"
bad=$(grep -E '^\+\+\+ b/' "$O/patch.diff" | grep -v -E '^\+\+\+ b/(src|macros)/' | grep -v '^$')
[ -n "$bad" ] && { echo "REJECTED touches $bad" | tee -a "$log"; exit 1; }
if grep -E '^\+\+\+ b/' "$O/patch.diff" | grep -q -E 'tests\.rs|/tests/|snap'; then echo "REJECTED touches tests" | tee -a "$log"; exit 1; fi
git apply "$O/patch.diff" || { echo "REJECTED patch does not apply" | tee -a "$log"; exit 1; }
FLAGS=""; TD=""
if grep -q -E 'verif_eval|verif_locations|roto_verif' "$O/demo.rs"; then FLAGS="--cfg roto_verif"; TD="--target-dir target/verif"; fi
suite=$(cargo nextest run --workspace --no-fail-fast --tool-config-file pb:/w/lib/nextest.toml --profile pb --test-threads 8 --offline 2>&1 | grep -E 'Summary|tests run' | tail -1)
echo "suite with change: $suite" >> "$log"
echo "$suite" | grep -q '415 passed' || { echo "REJECTED suite does not pass with the change: $suite" | tee -a "$log"; git checkout -q -- .; exit 1; }
cp "$O/demo.rs" tests/demo_confirm.rs
RUSTFLAGS="$FLAGS" timeout 900 cargo test --offline $TD --test demo_confirm >"$O/confirm.with.log" 2>&1; w=$?
echo "demo with change: exit $w" >> "$log"
git apply -R "$O/patch.diff"
RUSTFLAGS="$FLAGS" timeout 900 cargo test --offline $TD --test demo_confirm >"$O/confirm.without.log" 2>&1; wo=$?
echo "demo without change: exit $wo" >> "$log"
rm -f tests/demo_confirm.rs; git checkout -q -- . ; git clean -qfd -e target
if [ $w -ne 0 ] && [ $wo -eq 0 ]; then echo CONFIRMED | tee -a "$log"; else echo "REJECTED demo with=$w without=$wo" | tee -a "$log"; fi
