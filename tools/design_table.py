#!/usr/bin/env python3
"""Print the rows of DESIGN.md section 5 from the evidence files (quick tier, as last run)."""
import json, os
root = os.path.join(os.path.dirname(os.path.abspath(__file__)), "..", "evidence")
def k(n):
    if n >= 10_000_000: return f"{n/1e6:.0f} M"
    if n >= 1_000_000: return f"{n/1e6:.1f} M"
    if n >= 10_000: return f"{n/1e3:.0f} k"
    return str(n)
for i in range(1, 21):
    pid = f"C{i:02d}"
    d = json.load(open(os.path.join(root, pid + ".json")))
    c = d["coverage"]
    print(f"| {pid} | {k(c['cases'])} / {k(c['evaluations'])} / {k(c['distinct_nontrivial'])} / {d['wall_s']:.0f} s | seed {d['seed']}, {d['tier']} |")
