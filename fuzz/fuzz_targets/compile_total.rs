//! C06 (thorough tier): coverage-guided search for inputs on which compilation is not
//! total.  Oracle inside the target: `compile` returns a package or a report; the
//! report renders without panicking; every cited location lies inside the file and on
//! character boundaries.  Panics whose signature matches an entry of
//! ROTO_FUZZ_ALLOW (known findings, one per line, substrings joined by "&&") are
//! tolerated so that the campaign goes on; without that variable every panic aborts.
#![no_main]
use libfuzzer_sys::fuzz_target;
use roto::{FileTree, Runtime};
use std::cell::RefCell;
use std::panic::{AssertUnwindSafe, catch_unwind};
use std::sync::{Mutex, OnceLock};

static LAST: Mutex<Option<(String, String)>> = Mutex::new(None);
static ALLOW: OnceLock<Vec<Vec<String>>> = OnceLock::new();

thread_local! {
    static RT: RefCell<Option<Runtime<roto::NoCtx>>> = const { RefCell::new(None) };
}

fn short_loc(loc: &str) -> String {
    let l = loc.strip_prefix("/repo/").unwrap_or(loc);
    match l.rfind(':') {
        Some(i) => l[..i].to_string(),
        None => l.to_string(),
    }
}

fn allow() -> &'static Vec<Vec<String>> {
    ALLOW.get_or_init(|| {
        std::env::var("ROTO_FUZZ_ALLOW")
            .unwrap_or_default()
            .lines()
            .filter(|l| !l.trim().is_empty())
            .map(|l| l.split("&&").map(|s| s.to_string()).collect())
            .collect()
    })
}

fn check(src: &str) -> Result<(), String> {
    RT.with(|rt| {
        let mut rt = rt.borrow_mut();
        let rt = rt.get_or_insert_with(|| {
            let mut rt = Runtime::new();
            rt.add_io_functions();
            rt
        });
        match FileTree::test_file("fuzz.roto", src, 0).compile(rt) {
            Ok(pkg) => {
                drop(pkg);
                Ok(())
            }
            Err(report) => {
                let text = report.to_string();
                if text.trim().is_empty() {
                    return Err("empty report".into());
                }
                for l in report.verif_locations() {
                    if l.file != 0 {
                        return Err(format!("report cites file {} of a one-file tree", l.file));
                    }
                    if l.start > l.end || l.end > src.len() {
                        return Err(format!("cited range {}..{} outside the file (len {})", l.start, l.end, src.len()));
                    }
                    if !src.is_char_boundary(l.start) || !src.is_char_boundary(l.end) {
                        return Err(format!("cited range {}..{} is not on character boundaries", l.start, l.end));
                    }
                }
                Ok(())
            }
        }
    })
}

fuzz_target!(init: {
    std::panic::set_hook(Box::new(|info| {
        let loc = info.location().map(|l| format!("{}:{}", l.file(), l.line())).unwrap_or_default();
        let msg = if let Some(s) = info.payload().downcast_ref::<&str>() {
            s.to_string()
        } else if let Some(s) = info.payload().downcast_ref::<String>() {
            s.clone()
        } else {
            String::new()
        };
        *LAST.lock().unwrap_or_else(|e| e.into_inner()) = Some((loc, msg));
    }));
}, |data: &[u8]| {
    let Ok(src) = std::str::from_utf8(data) else { return };
    let src = src.to_string();
    // deep nesting needs stack: same allowance as the harness workers
    let h = std::thread::Builder::new()
        .stack_size(512 << 20)
        .spawn(move || {
            let r = catch_unwind(AssertUnwindSafe(|| check(&src)));
            match r {
                Ok(Ok(())) => None,
                Ok(Err(e)) => Some((format!("oracle:{e}"), src)),
                Err(_) => {
                    RT.with(|rt| *rt.borrow_mut() = None);
                    let (loc, msg) = LAST.lock().unwrap_or_else(|e| e.into_inner()).take().unwrap_or_default();
                    // the same input tag as the harness (known finding C06-F18)
                    let tag = if roto_verif::props::c06::declares_enum_without_variants(&src) { ":input-declares-an-enum-without-variants" } else { "" };
                    let sig = format!("panic:{}:{}{tag}", short_loc(&loc), msg.lines().next().unwrap_or(""));
                    if allow().iter().any(|subs| subs.iter().all(|s| sig.contains(s.as_str()))) {
                        None
                    } else {
                        Some((sig, src))
                    }
                }
            }
        })
        .unwrap();
    if let Ok(Some((sig, _src))) = h.join() {
        eprintln!("FUZZ-FAILURE {sig}");
        std::process::abort();
    }
});
