//! Coverage-guided driver for the harness' property checks (thorough tier).
//! VERIF_CG_PROP selects the property; see harness/src/cg.rs.
#![no_main]

use std::cell::RefCell;

use libfuzzer_sys::fuzz_target;
use roto_verif::cg::Engine;

#[global_allocator]
static ALLOC: roto_verif::host::CountingAlloc = roto_verif::host::CountingAlloc;

thread_local! {
    static ENGINE: RefCell<Option<Engine>> = const { RefCell::new(None) };
}

fuzz_target!(|data: &[u8]| {
    ENGINE.with(|e| {
        let mut e = e.borrow_mut();
        if e.is_none() {
            *e = Some(Engine::from_env());
        }
        e.as_mut().unwrap().one(data);
    });
});
