//! Type-directed program generator: builds well-typed, terminating programs
//! from a choice stream.  Smaller choice values give simpler constructs; an
//! exhausted stream yields the simplest program.

use crate::ast::*;
use crate::core::Choices;
use crate::model::V;

#[derive(Clone, Debug)]
pub struct Profile {
    /// records, enums, options, lists, strings
    pub aggregates: bool,
    /// tracked host types and owning values in every position
    pub owning: bool,
    /// effect markers at every position
    pub effects: bool,
    /// restrict to what the IR evaluator profile wants (no recursion)
    pub no_recursion: bool,
    /// allow floats
    pub floats: bool,
    /// allow lists
    pub lists: bool,
    /// allow strings
    pub strings: bool,
    /// known-finding exclusions
    pub excl_owning_in_while_cond: bool,
    pub excl_owning_in_guard: bool,
    pub excl_nonascii_fstring: bool,
    /// zero-sized clone type values are never dropped (known finding C03-F3): keep Tz out
    pub excl_tz: bool,
    /// records whose fields are all zero-sized crash the compiler when read (known finding C02-F3)
    pub excl_zst_records: bool,
    /// replace out_*() statements (unit-returning host calls) by effect markers
    pub no_out_stmts: bool,
    /// maximum expression depth
    pub max_depth: u32,
    /// node budget for the whole program
    pub budget: u32,
    /// weight (0..=255) of effect markers
    pub effect_weight: u32,
    /// main takes two scalar arguments of its return type
    pub allow_main_args: bool,
    /// script constants read (also field by field) from functions
    pub consts: bool,
    /// `let` in an inner block reusing the name of an enclosing block's variable
    pub shadowing: bool,
    /// a second unguarded arm for a variant that already has one (accepted with a warning; the
    /// first arm is the one that runs)
    pub dup_arms: bool,
}

impl Profile {
    pub fn scalar() -> Self {
        Profile {
            aggregates: false,
            owning: false,
            effects: false,
            no_recursion: false,
            floats: true,
            lists: false,
            strings: false,
            excl_owning_in_while_cond: false,
            excl_owning_in_guard: false,
            excl_nonascii_fstring: false,
            excl_tz: false,
            excl_zst_records: false,
            no_out_stmts: false,
            max_depth: 5,
            budget: 260,
            effect_weight: 0,
            allow_main_args: true,
            consts: true,
            shadowing: true,
            dup_arms: false,
        }
    }
}

#[derive(Clone, Debug)]
struct VarInfo {
    name: String,
    ty: Ty,
    assignable: bool,
    /// false for an un-annotated numeric `let`: its type may still be an unresolved
    /// `{integer}` / `{float}` where it is used, so it cannot be a method receiver
    concrete: bool,
}

/// How much the context tells the type checker about the expected type.
#[derive(Clone, Copy, PartialEq, Eq, Debug)]
pub enum Fix {
    /// expected type fully known while this expression is checked
    Direct,
    /// will be unified with a known type later: literals may stay unsuffixed,
    /// but nothing may *need* the expected type
    Later,
    /// nothing fixes it: the expression must determine its own type
    /// (i32 / f64 literals may rely on the documented defaults)
    No,
    /// nothing fixes it and the type must be concrete while the enclosing
    /// construct is checked (method receivers): no reliance on defaults
    Exact,
}

pub struct Gen<'c> {
    /// the examinee of the match being generated when it is an assignable place: a guard may assign to it
    /// (the match examines the value it had; later arms bind what was there, not what the guard stored)
    guard_mut: Option<(Place, Ty)>,
    c: Choices<'c>,
    l: Choices<'c>,
    pub prog: Program,
    pub prof: Profile,
    scopes: Vec<Vec<VarInfo>>,
    cur_fn: usize,
    cur_ret: Ty,
    cur_kind: FnKind,
    next_var: usize,
    next_tag: i32,
    budget: i64,
    /// loop nesting (limits nested loops)
    loop_depth: u32,
    in_const: bool,
    /// > 0 while a block is generated to which statements made in the enclosing scope are appended
    no_shadow: u32,
    /// script constants: readable everywhere, never assigned
    globals: Vec<VarInfo>,
    /// sabotage (C07): index of the typed expression site to fill with a value of another type
    pub sab: Option<u32>,
    /// number of sabotage sites seen so far (sites where the context fixes the expected type)
    pub sab_seen: u32,
    pub sab_desc: Option<String>,
}

pub const SCALAR_TYS: [Ty; 12] = [
    Ty::Int(IntTy::I32),
    Ty::Bool,
    Ty::Int(IntTy::U8),
    Ty::Int(IntTy::I64),
    Ty::Int(IntTy::U32),
    Ty::Int(IntTy::I8),
    Ty::Int(IntTy::U16),
    Ty::Int(IntTy::I16),
    Ty::Int(IntTy::U64),
    Ty::F64,
    Ty::F32,
    Ty::Char,
];

pub fn ty_short(t: &Ty) -> String {
    match t {
        Ty::Int(i) => i.name().into(),
        Ty::F32 => "f32".into(),
        Ty::F64 => "f64".into(),
        Ty::Bool => "bool".into(),
        Ty::Char => "char".into(),
        Ty::Str => "String".into(),
        Ty::Unit => "unit".into(),
        Ty::Tr => "Tr".into(),
        Ty::Tz => "Tz".into(),
        Ty::Tc => "Tc".into(),
        Ty::T8 => "T8".into(),
        _ => "agg".into(),
    }
}

impl<'c> Gen<'c> {
    pub fn new(structure: &'c [u8], literals: &'c [u8], prof: Profile) -> Self {
        let budget = prof.budget as i64;
        Gen {
            c: Choices::new(structure),
            l: Choices::new(literals),
            prog: Program::default(),
            guard_mut: None,
            prof,
            scopes: Vec::new(),
            cur_fn: 0,
            cur_ret: Ty::Unit,
            cur_kind: FnKind::Fn,
            next_var: 0,
            next_tag: 1,
            budget,
            loop_depth: 0,
            sab: None,
            sab_seen: 0,
            sab_desc: None,
            in_const: false,
            no_shadow: 0,
            globals: Vec::new(),
        }
    }

    // ------------------------------------------------------------------ types

    fn scalar_ty(&mut self) -> Ty {
        loop {
            let t = self.c.pick(&SCALAR_TYS).clone();
            if t.is_float() && !self.prof.floats {
                return Ty::Int(IntTy::I32);
            }
            return t;
        }
    }

    /// a type for a field / variable / parameter
    fn value_ty(&mut self, depth: u32) -> Ty {
        if !self.prof.aggregates {
            return self.scalar_ty();
        }
        let k = self.c.below(16);
        match k {
            0..=6 => self.scalar_ty(),
            7 if self.prof.strings => Ty::Str,
            8 if depth > 0 => Ty::opt(self.value_ty(depth - 1)),
            9 if depth > 0 && self.prof.lists => Ty::list(self.value_ty(depth - 1)),
            10 | 11 if !self.prog.decls.is_empty() => self.decl_ty(depth),
            12 if self.prof.owning => {
                let k = self.c.below(4);
                let t = [Ty::Tr, Ty::Tz, Ty::Tc, Ty::T8][k].clone();
                if t == Ty::Tz && self.prof.excl_tz { Ty::Tr } else { t }
            }
            13 => Ty::Unit,
            14 if depth > 0 => {
                // anonymous record
                let n = 1 + self.c.below(3);
                let mut fs = Vec::new();
                for i in 0..n {
                    let t = self.value_ty(depth - 1);
                    fs.push((format!("a{i}"), t));
                }
                self.fix_zst(Ty::Anon(fs))
            }
            _ => self.scalar_ty(),
        }
    }

    pub fn is_zst(&self, t: &Ty) -> bool {
        match t {
            Ty::Unit | Ty::Tz => true,
            Ty::Rec(i, args) => self.prog.decls[*i].fields().iter().all(|(_, t)| self.is_zst(&t.subst(args))),
            Ty::Anon(fs) => fs.iter().all(|(_, t)| self.is_zst(t)),
            _ => false,
        }
    }

    /// keep all-zero-sized records out of the domain while C02-F3 is open
    fn fix_zst(&self, t: Ty) -> Ty {
        if !self.prof.excl_zst_records {
            return t;
        }
        match t {
            Ty::Rec(i, mut args) if self.is_zst(&Ty::Rec(i, args.clone())) => {
                if args.is_empty() {
                    // declaration itself is all zero-sized: cannot happen (gen_decls prevents it)
                    Ty::Int(IntTy::I32)
                } else {
                    for a in args.iter_mut() {
                        *a = Ty::Int(IntTy::I32);
                    }
                    Ty::Rec(i, args)
                }
            }
            Ty::Anon(mut fs) if fs.iter().all(|(_, t)| self.is_zst(t)) => {
                fs[0].1 = Ty::Int(IntTy::I32);
                Ty::Anon(fs)
            }
            t => t,
        }
    }

    fn decl_ty(&mut self, depth: u32) -> Ty {
        let i = self.c.below(self.prog.decls.len());
        let np = self.prog.decls[i].params().len();
        let mut args = Vec::new();
        for _ in 0..np {
            args.push(if depth > 0 { self.value_ty(depth - 1) } else { self.scalar_ty() });
        }
        match self.prog.decls[i] {
            TypeDecl::Record { .. } => self.fix_zst(Ty::Rec(i, args)),
            TypeDecl::Enum { .. } => Ty::Enum(i, args),
        }
    }

    fn gen_decls(&mut self) {
        if !self.prof.aggregates {
            return;
        }
        let n = self.c.below(5);
        for d in 0..n {
            let generic = self.c.chance(70);
            let params: Vec<String> = if generic { vec!["T0".into()] } else { vec![] };
            let is_enum = self.c.chance(110);
            if is_enum {
                let nv = 1 + self.c.below(4);
                let mut variants = Vec::new();
                for v in 0..nv {
                    let nf = self.c.below(4);
                    let mut ts = Vec::new();
                    for _ in 0..nf {
                        ts.push(self.field_ty(generic));
                    }
                    variants.push((format!("V{d}x{v}"), ts));
                }
                self.prog.decls.push(TypeDecl::Enum { name: format!("E{d}"), params, variants });
            } else {
                let nf = 1 + self.c.below(6);
                let mut fields = Vec::new();
                for f in 0..nf {
                    fields.push((format!("f{f}"), self.field_ty(generic)));
                }
                if self.prof.excl_zst_records && fields.iter().all(|(_, t)| self.is_zst(t)) {
                    fields[0].1 = Ty::Int(IntTy::I32);
                }
                self.prog.decls.push(TypeDecl::Record { name: format!("R{d}"), params, fields });
            }
        }
    }

    fn field_ty(&mut self, generic: bool) -> Ty {
        if generic && self.c.chance(90) {
            return Ty::Param(0);
        }
        self.value_ty(2)
    }

    // -------------------------------------------------------------- variables

    fn fresh(&mut self, p: &str) -> String {
        self.next_var += 1;
        format!("{p}{}", self.next_var)
    }

    fn bind(&mut self, name: &str, ty: Ty, assignable: bool) {
        self.scopes.last_mut().unwrap().push(VarInfo { name: name.into(), ty, assignable, concrete: true });
    }

    fn bind_loose(&mut self, name: &str, ty: Ty) {
        self.scopes.last_mut().unwrap().push(VarInfo { name: name.into(), ty, assignable: true, concrete: false });
    }

    fn vars_of(&self, ty: &Ty) -> Vec<String> {
        let mut out = Vec::new();
        let mut seen = std::collections::HashSet::new();
        for s in self.scopes.iter().rev() {
            for v in s.iter().rev() {
                if seen.insert(v.name.clone()) && &v.ty == ty {
                    out.push(v.name.clone());
                }
            }
        }
        out
    }

    fn all_vars(&self) -> Vec<VarInfo> {
        let mut out = Vec::new();
        let mut seen = std::collections::HashSet::new();
        for s in self.scopes.iter().rev() {
            for v in s.iter().rev() {
                if seen.insert(v.name.clone()) {
                    out.push(v.clone());
                }
            }
        }
        out
    }

    /// places (var + field path) of a given type reachable through record fields
    fn places_of(&self, ty: &Ty, assignable_only: bool) -> Vec<Place> {
        self.places_of_x(ty, assignable_only, false)
    }

    fn places_of_x(&self, ty: &Ty, assignable_only: bool, concrete_only: bool) -> Vec<Place> {
        let mut out = Vec::new();
        for v in self.all_vars() {
            if assignable_only && !v.assignable {
                continue;
            }
            if concrete_only && !v.concrete {
                continue;
            }
            self.collect_places(&v.ty, Place { var: v.name.clone(), fields: vec![] }, ty, 3, &mut out);
        }
        out
    }

    fn fields_of(&self, t: &Ty) -> Vec<(String, Ty)> {
        match t {
            Ty::Rec(i, args) => self.prog.decls[*i].fields().iter().map(|(n, t)| (n.clone(), t.subst(args))).collect(),
            Ty::Anon(fs) => fs.clone(),
            _ => vec![],
        }
    }

    fn variants_of(&self, t: &Ty) -> Vec<(String, Vec<Ty>)> {
        match t {
            Ty::Enum(i, args) => self.prog.decls[*i]
                .variants()
                .iter()
                .map(|(n, ts)| (n.clone(), ts.iter().map(|t| t.subst(args)).collect()))
                .collect(),
            Ty::Opt(t) => vec![("Some".into(), vec![(**t).clone()]), ("None".into(), vec![])],
            Ty::Result(a, b) => vec![("Ok".into(), vec![(**a).clone()]), ("Err".into(), vec![(**b).clone()])],
            Ty::Verdict(a, b) => vec![("Accept".into(), vec![(**a).clone()]), ("Reject".into(), vec![(**b).clone()])],
            _ => vec![],
        }
    }

    fn collect_places(&self, cur_ty: &Ty, cur: Place, want: &Ty, depth: u32, out: &mut Vec<Place>) {
        if cur_ty == want {
            out.push(cur.clone());
        }
        if depth == 0 {
            return;
        }
        for (n, t) in self.fields_of(cur_ty) {
            let mut p = cur.clone();
            p.fields.push(n);
            self.collect_places(&t, p, want, depth - 1, out);
        }
    }

    /// `<record-valued expression>.field`: the field of a record that is computed on the spot
    /// (call, literal, block, if, match), not of a variable
    fn computed_field(&mut self, ty: &Ty, d: u32) -> Option<Expr> {
        let mut cands: Vec<(Ty, String)> = Vec::new();
        for (i, dcl) in self.prog.decls.iter().enumerate() {
            if let TypeDecl::Record { params, fields, .. } = dcl {
                if params.is_empty() {
                    for (n, t) in fields {
                        if t == ty {
                            cands.push((Ty::Rec(i, vec![]), n.clone()));
                        }
                    }
                }
            }
        }
        let (rt, f) = if !cands.is_empty() && self.c.chance(170) {
            cands[self.c.below(cands.len())].clone()
        } else {
            let other = ("zo".to_string(), Ty::Int(IntTy::I32));
            let mine = ("zf".to_string(), ty.clone());
            let fs = if self.c.chance(128) { vec![mine, other] } else { vec![other, mine] };
            (Ty::Anon(fs), "zf".to_string())
        };
        // (an anonymous record type cannot be written out for an annotated temporary and met
        // again, see `leaf`: such a receiver is a literal)
        let r = if matches!(rt, Ty::Anon(_)) { self.construct(&rt, Fix::Exact, d) } else { self.expr(&rt, d, Fix::Exact) };
        let r = if matches!(r, Expr::Record(..)) { Expr::Paren(Box::new(r)) } else { r };
        Some(Expr::Field(Box::new(r), f))
    }

    fn place_expr(p: &Place) -> Expr {
        let mut e = Expr::Var(p.var.clone());
        for f in &p.fields {
            e = Expr::Field(Box::new(e), f.clone());
        }
        e
    }

    // --------------------------------------------------------------- literals

    fn int_value(&mut self, t: IntTy) -> i128 {
        let k = self.l.below(12);
        match k {
            0 => 0,
            1 => 1,
            2 => 2,
            3 => t.max_val(),
            4 => t.min_val(),
            5 => t.max_val() - 1,
            6 => t.min_val() + 1,
            7 => t.wrap(-1),
            8 => (self.l.byte() % 16) as i128,
            9 => t.wrap(1i128 << (self.l.below(t.bits() as usize))),
            _ => t.wrap(self.l.u64() as i128),
        }
    }

    pub fn int_lit(&mut self, t: IntTy, v: i128, fix: Fix) -> Expr {
        // spellings stay within i64 (the lexer parses i64) and within the type's range
        let can_unsuffixed = match fix {
            Fix::Direct | Fix::Later => true,
            Fix::No => t == IntTy::I32,
            Fix::Exact => false,
        };
        let suffix = if can_unsuffixed && !self.l.chance(60) { "" } else { t.name() };
        if v > i64::MAX as i128 {
            // u64 above i64::MAX cannot be spelled: build it as (MAX_i64_as_u64 * 2 + 1) - k
            let k = (u64::MAX as i128) - v; // 0 ..= 2^63-1
            let big = Expr::Lit(Lit { v: V::Int(t, i64::MAX as i128), text: format!("9223372036854775807{}", t.name()) });
            let two = Expr::Lit(Lit { v: V::Int(t, 2), text: "2".into() });
            let one = Expr::Lit(Lit { v: V::Int(t, 1), text: "1".into() });
            let kk = Expr::Lit(Lit { v: V::Int(t, k), text: format!("{k}") });
            let m = Expr::Bin(BinOp::Mul, Box::new(big), Box::new(two));
            let p = Expr::Bin(BinOp::Add, Box::new(m), Box::new(one));
            return Expr::Paren(Box::new(Expr::Bin(BinOp::Sub, Box::new(p), Box::new(kk))));
        }
        if v == i64::MIN as i128 {
            // -9223372036854775808 cannot be spelled (the magnitude is not an i64)
            let a = Expr::Lit(Lit { v: V::Int(t, v + 1), text: format!("-9223372036854775807{suffix}") });
            let one = Expr::Lit(Lit { v: V::Int(t, 1), text: "1".into() });
            return Expr::Paren(Box::new(Expr::Bin(BinOp::Sub, Box::new(a), Box::new(one))));
        }
        let style = self.l.below(8);
        let text = if v >= 0 && style == 1 && suffix.is_empty() {
            format!("{:#x}", v)
        } else if v >= 1000 && style == 2 {
            // digit-group underscores
            let s = format!("{v}");
            let mut o = String::new();
            for (i, ch) in s.chars().enumerate() {
                if i > 0 && (s.len() - i) % 3 == 0 {
                    o.push('_');
                }
                o.push(ch);
            }
            format!("{o}{suffix}")
        } else {
            format!("{v}{suffix}")
        };
        Expr::Lit(Lit { v: V::Int(t, v), text })
    }

    fn f64_value(&mut self) -> f64 {
        let k = self.l.below(10);
        match k {
            0 => 0.0,
            1 => 1.0,
            2 => -1.5,
            3 => 0.1,
            4 => 1e300,
            5 => 2.5e-300,
            6 => (self.l.byte() as f64) / 4.0,
            7 => 16777217.0,
            _ => {
                let f = f64::from_bits(self.l.u64());
                if f.is_finite() { f } else { 3.25 }
            }
        }
    }

    fn float_lit(&mut self, ty: &Ty, fix: Fix) -> Expr {
        let v = self.f64_value();
        let is32 = *ty == Ty::F32;
        let can_unsuffixed = match fix {
            Fix::Direct | Fix::Later => true,
            Fix::No => !is32,
            Fix::Exact => false,
        };
        let suffix = if can_unsuffixed && !self.l.chance(60) { "" } else if is32 { "f32" } else { "f64" };
        if is32 {
            let x = v as f32;
            let x = if x.is_finite() { x } else { 1.0e30f32 };
            let body = format!("{:?}", x.abs());
            // the documented value of the spelling, computed independently by std's f32 parser
            let direct: f32 = body.parse::<f32>().unwrap();
            let via64: f32 = body.parse::<f64>().unwrap() as f32;
            let x = if direct.to_bits() != via64.to_bits() { 1.5f32 } else { direct.copysign(x) };
            let body = if direct.to_bits() != via64.to_bits() { "1.5".to_string() } else { body };
            let text = format!("{}{}{}", if x.is_sign_negative() { "-" } else { "" }, fmt_float_body(&body), suffix);
            Expr::Lit(Lit { v: V::F32(x), text })
        } else {
            let body = format!("{:?}", v.abs());
            let text = format!("{}{}{}", if v.is_sign_negative() { "-" } else { "" }, fmt_float_body(&body), suffix);
            Expr::Lit(Lit { v: V::F64(v), text })
        }
    }

    fn char_value(&mut self) -> char {
        let k = self.l.below(10);
        match k {
            0 => 'a',
            1 => 'Z',
            2 => '0',
            3 => 'é',
            4 => '日',
            5 => '\u{10FFFF}',
            6 => '\n',
            7 => '\'',
            8 => '\u{D7FF}',
            _ => char::from_u32(self.l.u16() as u32).unwrap_or('x'),
        }
    }

    fn str_value(&mut self) -> String {
        const PARTS: [&str; 10] = ["", "a", "bc", " ", "é", "日本", "{", "}", "\"q\"", "\\n\n"];
        let n = self.l.below(4);
        let mut s = String::new();
        for _ in 0..n {
            s.push_str(PARTS[self.l.below(PARTS.len())]);
        }
        s
    }

    fn literal(&mut self, ty: &Ty, fix: Fix) -> Expr {
        match ty {
            Ty::Int(t) => {
                let v = self.int_value(*t);
                self.int_lit(*t, v, fix)
            }
            Ty::F32 | Ty::F64 => self.float_lit(ty, fix),
            Ty::Bool => {
                let b = self.l.chance(128);
                Expr::Lit(Lit { v: V::Bool(b), text: format!("{b}") })
            }
            Ty::Char => {
                let c = self.char_value();
                Expr::Lit(Lit { v: V::Char(c), text: char_lit(c) })
            }
            Ty::Unit => Expr::Lit(Lit { v: V::Unit, text: "()".into() }),
            Ty::Str => {
                let s = self.str_value();
                Expr::Lit(Lit { v: V::Str(s.clone()), text: str_lit(&s) })
            }
            _ => unreachable!("literal of {:?}", ty),
        }
    }

    fn small_i32(&mut self, v: i32) -> Expr {
        Expr::Lit(Lit { v: V::i32(v), text: format!("{v}") })
    }

    fn tag(&mut self) -> Expr {
        let t = self.next_tag;
        self.next_tag += 1;
        self.small_i32(t)
    }

    fn input_expr(&mut self, ty: &Ty) -> Option<Expr> {
        if self.in_const {
            return None;
        }
        let name = match ty {
            Ty::Int(t) => t.name().to_string(),
            Ty::F32 => "f32".into(),
            Ty::F64 => "f64".into(),
            Ty::Bool => "bool".into(),
            Ty::Char => "char".into(),
            Ty::Str => "String".into(),
            _ => return None,
        };
        let k = self.c.below(6) as u32;
        let kl = Expr::Lit(Lit { v: V::Int(IntTy::U32, k as i128), text: format!("{k}") });
        Some(Expr::Host(format!("in_{name}"), vec![kl]))
    }

    // ------------------------------------------------------------ expressions

    fn spend(&mut self, n: i64) -> bool {
        self.budget -= n;
        self.budget > 0
    }

    fn effects_on(&mut self) -> bool {
        self.prof.effects && !self.in_const && {
            let w = self.prof.effect_weight;
            self.c.chance(w)
        }
    }

    /// leaf expression of the given type
    fn leaf(&mut self, ty: &Ty, fix: Fix) -> Expr {
        // effect marker leaves
        if self.effects_on() {
            match ty {
                Ty::Int(IntTy::I32) => {
                    let t = self.tag();
                    return Expr::Host("e".into(), vec![t]);
                }
                Ty::Str if self.prof.strings => {
                    let t = self.tag();
                    return Expr::Host("es".into(), vec![t]);
                }
                Ty::Tr => {
                    let t = self.tag();
                    return Expr::Host("et".into(), vec![t]);
                }
                _ => {}
            }
        }
        let k = self.c.below(10);
        // variables / places
        // a value of a written-out anonymous record type is not accepted where the same type is
        // written out a second time (roto compares the two spellings by identity), so where the
        // context fixes such a type the value is built on the spot
        if k >= 3 && !(fix != Fix::No && mentions_anon(ty)) {
            let ps = self.places_of_x(ty, false, fix == Fix::Exact);
            if !ps.is_empty() {
                let p = ps[self.c.below(ps.len())].clone();
                return Self::place_expr(&p);
            }
        }
        if k == 2 || k == 9 {
            if let Some(e) = self.input_expr(ty) {
                return e;
            }
        }
        self.construct(ty, fix, 0)
    }

    /// construct a value of the type from scratch (literal / constructor)
    fn construct(&mut self, ty: &Ty, fix: Fix, depth: u32) -> Expr {
        let sub = depth.saturating_sub(1);
        match ty {
            Ty::Int(_) | Ty::F32 | Ty::F64 | Ty::Bool | Ty::Char | Ty::Unit | Ty::Str => self.literal(ty, fix),
            Ty::Opt(t) => {
                // `None` needs its type from the context while it is checked
                if fix == Fix::Direct && self.c.chance(70) {
                    let style = self.c.below(2);
                    Expr::Ctor(if style == 0 { "Option".into() } else { String::new() }, "None".into(), vec![])
                } else {
                    let inner_fix = inner_fix(fix);
                    let a = self.expr(t, sub, inner_fix);
                    let style = self.c.below(2);
                    Expr::Ctor(if style == 0 { "Option".into() } else { String::new() }, "Some".into(), vec![a])
                }
            }
            Ty::List(t) => {
                let n = if fix == Fix::Direct { self.c.below(4) } else { 1 + self.c.below(3) };
                let inner_fix = inner_fix(fix);
                let mut es = Vec::new();
                for _ in 0..n {
                    es.push(self.expr(t, sub, inner_fix));
                }
                let tys: Vec<Ty> = es.iter().map(|_| (**t).clone()).collect();
                self.late_mutation(&mut es, &tys, sub);
                Expr::List(es)
            }
            Ty::Result(a, b) => {
                // only generated in Direct contexts
                if self.c.chance(128) {
                    let e = self.expr(a, sub, Fix::Direct);
                    Expr::Ctor("Result".into(), "Ok".into(), vec![e])
                } else {
                    let e = self.expr(b, sub, Fix::Direct);
                    Expr::Ctor("Result".into(), "Err".into(), vec![e])
                }
            }
            Ty::Verdict(a, b) => {
                if self.c.chance(128) {
                    let e = self.expr(a, sub, Fix::Direct);
                    Expr::Ctor("Verdict".into(), "Accept".into(), vec![e])
                } else {
                    let e = self.expr(b, sub, Fix::Direct);
                    Expr::Ctor("Verdict".into(), "Reject".into(), vec![e])
                }
            }
            Ty::Rec(i, _) => {
                let name = self.prog.decls[*i].name().to_string();
                let generic = !self.prog.decls[*i].params().is_empty();
                let mut fields = self.fields_of(ty);
                // written order is free (and differs from declaration order)
                self.shuffle(&mut fields);
                let inner_fix = if !generic { Fix::Direct } else { inner_fix(fix) };
                let mut out = Vec::new();
                for (n, t) in &fields {
                    let e = self.expr(t, sub, inner_fix);
                    out.push((n.clone(), e));
                }
                {
                    // fields are evaluated in the order in which they are written
                    let tys: Vec<Ty> = fields.iter().map(|(_, t)| t.clone()).collect();
                    let mut es: Vec<Expr> = out.iter().map(|(_, e)| e.clone()).collect();
                    self.late_mutation(&mut es, &tys, sub);
                    for (k, e) in es.into_iter().enumerate() {
                        out[k].1 = e;
                    }
                }
                // anonymous literal coerces to the named record when the context gives the type
                let anon = fix == Fix::Direct && self.c.chance(50);
                Expr::Record(if anon { None } else { Some(name) }, out)
            }
            Ty::Anon(fs) => {
                let mut fields = fs.clone();
                self.shuffle(&mut fields);
                let inner_fix = inner_fix(fix);
                let mut out = Vec::new();
                for (n, t) in fields {
                    let e = self.expr(&t, sub, inner_fix);
                    out.push((n, e));
                }
                Expr::Record(None, out)
            }
            Ty::Enum(i, _) => {
                let name = self.prog.decls[*i].name().to_string();
                let generic = !self.prog.decls[*i].params().is_empty();
                let vs = self.variants_of(ty);
                let (vn, ts) = vs[self.c.below(vs.len())].clone();
                let inner_fix = if !generic { Fix::Direct } else { inner_fix(fix) };
                let mut args = Vec::new();
                for t in &ts {
                    args.push(self.expr(t, sub, inner_fix));
                }
                self.late_mutation(&mut args, &ts, sub);
                Expr::Ctor(name, vn, args)
            }
            Ty::Tr => {
                let k = self.l.below(9) as i32;
                let kl = self.small_i32(k);
                Expr::Host("mk".into(), vec![kl])
            }
            Ty::Tz => Expr::Host("mkz".into(), vec![]),
            Ty::Tc => {
                let k = self.l.u16() as u32;
                Expr::Host("mkc".into(), vec![Expr::Lit(Lit { v: V::Int(IntTy::U32, k as i128), text: format!("{k}") })])
            }
            Ty::T8 => {
                let k = self.l.u16() as u64;
                Expr::Host("mk8".into(), vec![Expr::Lit(Lit { v: V::Int(IntTy::U64, k as i128), text: format!("{k}") })])
            }
            Ty::Param(_) => unreachable!("unsubstituted type parameter"),
        }
    }

    fn shuffle<T>(&mut self, v: &mut Vec<T>) {
        // Fisher-Yates driven by the choice stream; zero choices keep the order
        let n = v.len();
        for i in 0..n.saturating_sub(1) {
            let j = i + self.c.below(n - i);
            v.swap(i, j);
        }
    }

    /// Does a generic enum ctor / needs-context construct appear?  In non-Direct contexts
    /// we only use expressions whose type is self-evident.
    pub fn expr(&mut self, ty: &Ty, depth: u32, fix: Fix) -> Expr {
        if fix == Fix::Direct && *ty != Ty::Unit && !matches!(ty, Ty::Param(_)) {
            // a site whose context fixes the expected type: a value of another kind of type is ill-typed here
            self.sab_seen += 1;
            if self.sab == Some(self.sab_seen - 1) && self.sab_desc.is_none() {
                // unmistakable spellings, so that the caller can check that the value survived into the program text
                let (v, text) = if *ty == Ty::Str { (V::F32(7.25), "7.25f32") } else { (V::Str("zz_sab".into()), "\"zz_sab\"") };
                self.sab_desc = Some(format!("a value of type `{}` is expected at this place; `{text}` was put there", ty_name_for_desc(&self.prog, ty)));
                return Expr::Lit(Lit { v, text: text.to_string() });
            }
        }
        if fix != Fix::Direct && self.needs_direct(ty) {
            // types whose constructors leave type arguments open get their type from an
            // annotated block-local
            let n = self.fresh("t");
            let init = self.expr(ty, depth.min(2), Fix::Direct);
            return Expr::Block(Block { stmts: vec![Stmt::Let(n.clone(), Some(ty.clone()), init)], tail: Some(Box::new(Expr::Var(n))) });
        }
        if depth == 0 || !self.spend(1) {
            return self.leaf(ty, fix);
        }
        let d = depth - 1;
        // effect wrapper for bools
        if *ty == Ty::Bool && self.effects_on() {
            let t = self.tag();
            let inner = self.expr(ty, d, Fix::Direct);
            return Expr::Host("eb".into(), vec![t, inner]);
        }
        let k = self.c.below(20);
        // generic productions available for every type
        match k {
            0 | 1 => return self.leaf(ty, fix),
            2 => {
                // if-else expression
                let c = self.expr(&Ty::Bool, d, Fix::Direct);
                let t = self.block_with_tail(ty, d, fix);
                let e = self.block_with_tail(ty, d, fix);
                return Expr::If(Box::new(c), t, Some(e));
            }
            3 => {
                // block expression
                let b = self.block_with_tail(ty, d, fix);
                return Expr::Block(b);
            }
            4 => {
                if let Some(e) = self.call_expr(ty, d) {
                    return e;
                }
            }
            5 => {
                if let Some(e) = self.match_expr(ty, d, fix) {
                    return e;
                }
            }
            7 if self.prof.aggregates && !matches!(ty, Ty::Param(_)) && !mentions_anon(ty) => {
                if let Some(e) = self.computed_field(ty, d) {
                    return e;
                }
            }
            8 if self.prof.shadowing && self.no_shadow == 0 && !self.in_const => {
                // an else-if chain whose first branch declares a variable named like one of an
                // enclosing block; the later links of the chain read the outer one
                let outer: Vec<VarInfo> = self.all_vars().into_iter().filter(|v| v.concrete && v.assignable && v.name.starts_with('v') && matches!(v.ty, Ty::Int(_))).collect();
                if !outer.is_empty() && self.spend(6) {
                    let v = outer[self.c.below(outer.len())].clone();
                    let c1 = self.expr(&Ty::Bool, d, Fix::Direct);
                    self.scopes.push(Vec::new());
                    let k = self.expr(&v.ty, 1, Fix::Direct);
                    let shadow = Stmt::Let(v.name.clone(), Some(v.ty.clone()), Expr::Bin(BinOp::Add, Box::new(Expr::Var(v.name.clone())), Box::new(k)));
                    self.bind(&v.name, v.ty.clone(), true);
                    let ttail = if *ty == v.ty { Expr::Var(v.name.clone()) } else { self.expr(ty, d, fix) };
                    self.scopes.pop();
                    let then = Block { stmts: vec![shadow], tail: Some(Box::new(ttail)) };
                    let lit = self.leaf(&v.ty, Fix::Direct);
                    let c2 = Expr::Bin(if self.c.chance(128) { BinOp::Ne } else { BinOp::Lt }, Box::new(Expr::Var(v.name.clone())), Box::new(lit));
                    let mut b2 = self.block_with_tail(ty, d, fix);
                    let mut b3 = self.block_with_tail(ty, d, fix);
                    if *ty == v.ty {
                        if self.c.chance(128) {
                            b2.tail = Some(Box::new(Expr::Var(v.name.clone())));
                        } else {
                            b3.tail = Some(Box::new(Expr::Var(v.name.clone())));
                        }
                    }
                    let inner = Expr::If(Box::new(c2), b2, Some(b3));
                    return Expr::If(Box::new(c1), then, Some(Block { stmts: vec![], tail: Some(Box::new(inner)) }));
                }
            }
            6 => {
                // early return inside an expression: `if c { return v }` handled at statement level;
                // here: `e?` when the function returns an Option
                if let Some(e) = self.try_expr(ty, d) {
                    return e;
                }
            }
            _ => {}
        }
        // type-specific productions
        match ty {
            Ty::Int(t) => {
                let t = *t;
                let k = self.c.below(12);
                match k {
                    0..=5 => {
                        let op = [BinOp::Add, BinOp::Sub, BinOp::Mul, BinOp::Div, BinOp::Rem, BinOp::Add][k];
                        self.arith(ty, op, d, fix)
                    }
                    6 if t.signed() => {
                        let a = self.expr(ty, d, if fix == Fix::Direct { Fix::Later } else { fix });
                        Expr::Neg(Box::new(a))
                    }
                    7 if self.prof.aggregates && self.prof.lists && t == IntTy::U64 => {
                        // list.len()
                        if let Some(e) = self.list_len() { e } else { self.leaf(ty, fix) }
                    }
                    8 if self.prof.owning && t == IntTy::I32 => {
                        let r = self.expr(&Ty::Tr, d, Fix::Exact);
                        if self.c.chance(128) {
                            Expr::Method(Box::new(r), "tag".into(), vec![])
                        } else {
                            let a = self.expr(&Ty::Int(IntTy::I32), d, Fix::Direct);
                            let b = self.expr(&Ty::Int(IntTy::I32), d, Fix::Direct);
                            // receiver first, then the arguments
                            let mut ops = [r, a, b];
                            self.late_mutation(&mut ops, &[Ty::Tr, Ty::Int(IntTy::I32), Ty::Int(IntTy::I32)], d);
                            let [r, a, b] = ops;
                            Expr::Method(Box::new(r), "m".into(), vec![a, b])
                        }
                    }
                    _ => self.leaf(ty, fix),
                }
            }
            Ty::F32 | Ty::F64 => {
                let k = self.c.below(8);
                match k {
                    0..=3 => {
                        let op = [BinOp::Add, BinOp::Sub, BinOp::Mul, BinOp::Div][k];
                        self.arith(ty, op, d, fix)
                    }
                    4 => {
                        let a = self.expr(ty, d, if fix == Fix::Direct { Fix::Later } else { fix });
                        Expr::Neg(Box::new(a))
                    }
                    5 => {
                        let r = self.expr(ty, d, Fix::Exact);
                        let m = if self.c.chance(128) { "abs" } else { "floor" };
                        Expr::Method(Box::new(r), m.into(), vec![])
                    }
                    _ => self.leaf(ty, fix),
                }
            }
            Ty::Bool => {
                let k = self.c.below(10);
                match k {
                    0..=3 => self.comparison(d, fix),
                    4 => {
                        let a = self.expr(ty, d, Fix::Direct);
                        let b = match self.exit_operand(d) {
                            Some(x) => x,
                            None => self.expr(ty, d, Fix::Direct),
                        };
                        Expr::Bin(BinOp::And, Box::new(a), Box::new(b))
                    }
                    5 => {
                        let a = self.expr(ty, d, Fix::Direct);
                        let b = match self.exit_operand(d) {
                            Some(x) => x,
                            None => self.expr(ty, d, Fix::Direct),
                        };
                        Expr::Bin(BinOp::Or, Box::new(a), Box::new(b))
                    }
                    6 => {
                        let a = self.expr(ty, d, Fix::Direct);
                        Expr::Not(Box::new(a))
                    }
                    7 if self.prof.floats => {
                        let ft = if self.c.chance(128) { Ty::F32 } else { Ty::F64 };
                        let r = self.expr(&ft, d, Fix::Exact);
                        Expr::Method(Box::new(r), "is_nan".into(), vec![])
                    }
                    8 if self.prof.lists && self.prof.aggregates => {
                        // search in a list variable: the needle is passed by value (and dropped by the callee)
                        let vars = self.all_vars();
                        let ls: Vec<&VarInfo> = vars.iter().filter(|v| matches!(v.ty, Ty::List(_))).collect();
                        if ls.is_empty() {
                            return self.leaf(ty, fix);
                        }
                        let v = ls[self.c.below(ls.len())].clone();
                        let Ty::List(et) = &v.ty else { unreachable!() };
                        let et = (**et).clone();
                        let recv = Expr::Var(v.name.clone());
                        if self.c.chance(128) {
                            let x = self.expr(&et, d.min(2), Fix::Direct);
                            Expr::Method(Box::new(recv), "contains".into(), vec![x])
                        } else {
                            let x1 = self.expr(&et, d.min(2), Fix::Direct);
                            let x2 = self.expr(&et, d.min(2), Fix::Direct);
                            let a = Expr::Method(Box::new(recv.clone()), "index".into(), vec![x1]);
                            let b = Expr::Method(Box::new(recv), "index".into(), vec![x2]);
                            Expr::Bin(BinOp::Eq, Box::new(a), Box::new(b))
                        }
                    }
                    _ => self.leaf(ty, fix),
                }
            }
            Ty::Str => {
                let k = self.c.below(8);
                match k {
                    0 | 1 => {
                        // concatenation: the left operand must be a String when it is checked
                        let a = self.expr(ty, d, Fix::No);
                        let b = self.expr(ty, d, Fix::Direct);
                        let mut ops = [a, b];
                        self.late_mutation(&mut ops, &[Ty::Str, Ty::Str], d);
                        let [a, b] = ops;
                        Expr::Bin(BinOp::Add, Box::new(a), Box::new(b))
                    }
                    2 | 3 => self.fstring(d),
                    4 => {
                        let t = self.scalar_ty();
                        let r = self.expr(&t, d, Fix::Exact);
                        Expr::Method(Box::new(r), "to_string".into(), vec![])
                    }
                    5 => {
                        let r = self.expr(ty, d, Fix::Exact);
                        let a = self.expr(ty, d, Fix::Direct);
                        let mut ops = [r, a];
                        self.late_mutation(&mut ops, &[Ty::Str, Ty::Str], d);
                        let [r, a] = ops;
                        Expr::Method(Box::new(r), "append".into(), vec![a])
                    }
                    _ => self.leaf(ty, fix),
                }
            }
            Ty::List(_) => {
                let k = self.c.below(6);
                match k {
                    0 => {
                        let a = self.leaf_known(ty);
                        let b = self.expr(ty, d, Fix::Direct);
                        Expr::Bin(BinOp::Add, Box::new(a), Box::new(b))
                    }
                    1 | 2 => self.construct(ty, fix, d),
                    _ => self.leaf(ty, fix),
                }
            }
            Ty::Opt(t) => {
                let k = self.c.below(6);
                match k {
                    0 if self.prof.lists => {
                        // list.get(i)
                        let lt = Ty::list((**t).clone());
                        let ps = self.places_of(&lt, false);
                        if !ps.is_empty() {
                            let p = ps[self.c.below(ps.len())].clone();
                            let i = self.expr(&Ty::Int(IntTy::U64), d.min(1), Fix::Direct);
                            Expr::Method(Box::new(Self::place_expr(&p)), "get".into(), vec![i])
                        } else {
                            self.construct(ty, fix, d)
                        }
                    }
                    1..=3 => self.construct(ty, fix, d),
                    _ => self.leaf(ty, fix),
                }
            }
            Ty::Unit => self.leaf(ty, fix),
            _ => {
                if self.c.chance(160) { self.construct(ty, fix, d) } else { self.leaf(ty, fix) }
            }
        }
    }

    fn needs_direct(&self, ty: &Ty) -> bool {
        match ty {
            Ty::Result(..) | Ty::Verdict(..) => true,
            Ty::Enum(i, args) => {
                !args.is_empty()
                    || self.prog.decls[*i].variants().iter().any(|(_, ts)| ts.iter().any(|t| self.needs_direct(t)))
            }
            Ty::Rec(i, args) => {
                let fs: Vec<Ty> = self.prog.decls[*i].fields().iter().map(|(_, t)| t.subst(args)).collect();
                fs.iter().any(|t| self.needs_direct(t))
            }
            Ty::Anon(fs) => fs.iter().any(|(_, t)| self.needs_direct(t)),
            Ty::Opt(t) | Ty::List(t) => self.needs_direct(t),
            _ => false,
        }
    }

    /// an expression whose type is evident without context (variable, field, call), else a construct with Fix::No
    fn leaf_known(&mut self, ty: &Ty) -> Expr {
        let ps = self.places_of(ty, false);
        if !ps.is_empty() {
            let p = ps[self.c.below(ps.len())].clone();
            return Self::place_expr(&p);
        }
        self.expr(ty, 1, Fix::No)
    }

    /// "Late mutation": one operand becomes a plain read of an assignable place and a later operand
    /// becomes a block that first assigns to that place.  Operands are evaluated left to right and a
    /// read yields a value, so the earlier operand keeps what the place held before the assignment.
    fn late_mutation(&mut self, operands: &mut [Expr], tys: &[Ty], d: u32) {
        if operands.len() < 2 || operands.len() != tys.len() || self.in_const || !self.c.chance(36) {
            return;
        }
        let i = self.c.below(operands.len() - 1);
        let j = i + 1 + self.c.below(operands.len() - 1 - i);
        if matches!(tys[i], Ty::Param(_) | Ty::Unit) || mentions_anon(&tys[i]) || !self.spend(3) {
            return;
        }
        let ps = self.places_of_x(&tys[i], true, true);
        if ps.is_empty() {
            return;
        }
        let p = ps[self.c.below(ps.len())].clone();
        let newv = self.expr(&tys[i], d.min(1), Fix::Direct);
        operands[i] = Self::place_expr(&p);
        let old = std::mem::replace(&mut operands[j], Expr::Var(String::new()));
        operands[j] = Expr::Block(Block { stmts: vec![Stmt::Expr(Expr::Assign(p, Box::new(newv)))], tail: Some(Box::new(old)) });
    }

    fn arith(&mut self, ty: &Ty, op: BinOp, d: u32, fix: Fix) -> Expr {
        // a constant initialiser runs while the script is compiled: nothing that may trap there
        let op = if self.in_const && ty.is_int() && matches!(op, BinOp::Div | BinOp::Rem) { BinOp::Add } else { op };
        // the left operand is checked without an expected type; the right one against the left's type
        let lfix = if fix == Fix::Direct { Fix::Later } else { fix };
        let l = self.expr(ty, d, lfix);
        let mut r = self.expr(ty, d, Fix::Direct);
        if matches!(op, BinOp::Div | BinOp::Rem) && ty.is_int() {
            // keep most divisors non-zero by construction; the model still predicts the rest
            let k = self.c.below(8);
            if k < 6 {
                let Ty::Int(t) = ty else { unreachable!() };
                if k < 3 {
                    let mut v = self.int_value(*t);
                    if v == 0 || (t.signed() && v == -1) {
                        v = 3;
                    }
                    r = self.int_lit(*t, v, Fix::Direct);
                } else {
                    // if r == 0 { 1 } else { r } -- evaluate r once through a block-local
                    let n = self.fresh("d");
                    let zero = self.int_lit(*t, 0, Fix::Direct);
                    let one = self.int_lit(*t, 1, Fix::Direct);
                    let cond = Expr::Bin(BinOp::Eq, Box::new(Expr::Var(n.clone())), Box::new(zero));
                    let ife = Expr::If(
                        Box::new(cond),
                        Block { stmts: vec![], tail: Some(Box::new(one)) },
                        Some(Block { stmts: vec![], tail: Some(Box::new(Expr::Var(n.clone()))) }),
                    );
                    r = Expr::Block(Block {
                        stmts: vec![Stmt::Let(n, Some(ty.clone()), r)],
                        tail: Some(Box::new(ife)),
                    });
                }
            }
        }
        let mut ops = [l, r];
        self.late_mutation(&mut ops, &[ty.clone(), ty.clone()], d);
        let [l, r] = ops;
        Expr::Bin(op, Box::new(l), Box::new(r))
    }

    fn comparison(&mut self, d: u32, fix: Fix) -> Expr {
        let k = self.c.below(10);
        let op = [BinOp::Eq, BinOp::Ne, BinOp::Lt, BinOp::Le, BinOp::Gt, BinOp::Ge][self.c.below(6)];
        if k < 7 || !self.prof.aggregates {
            // numeric comparison (ordering only exists for numbers)
            let t = loop {
                let t = self.scalar_ty();
                if t.is_numeric() || !matches!(op, BinOp::Lt | BinOp::Le | BinOp::Gt | BinOp::Ge) {
                    break t;
                }
            };
            let l = self.expr(&t, d, Fix::No);
            let r = self.expr(&t, d, Fix::Direct);
            let mut ops = [l, r];
            self.late_mutation(&mut ops, &[t.clone(), t.clone()], d);
            let [l, r] = ops;
            Expr::Bin(op, Box::new(l), Box::new(r))
        } else {
            // structural equality on any value type
            let op = if self.c.chance(128) { BinOp::Eq } else { BinOp::Ne };
            let t = self.value_ty(2);
            if matches!(t, Ty::Unit) {
                // no comparison after all: the context of the whole expression stays what it was
                let l = self.expr(&Ty::Bool, d, fix);
                return l;
            }
            let l = self.leaf_known(&t);
            let r = self.expr(&t, d, Fix::Direct);
            let mut ops = [l, r];
            self.late_mutation(&mut ops, &[t.clone(), t.clone()], d);
            let [l, r] = ops;
            Expr::Bin(op, Box::new(l), Box::new(r))
        }
    }

    fn fstring(&mut self, d: u32) -> Expr {
        let n = 1 + self.c.below(4);
        let mut parts = Vec::new();
        for _ in 0..n {
            if self.c.chance(110) {
                let mut s = self.str_value();
                if self.prof.excl_nonascii_fstring {
                    s.retain(|c| c.is_ascii());
                }
                if !s.is_empty() {
                    parts.push(FPart::Text(s));
                }
            } else {
                let t = if self.prof.strings && self.c.chance(60) {
                    Ty::Str
                } else if self.prof.owning && self.c.chance(40) {
                    Ty::Tr
                } else {
                    self.scalar_ty()
                };
                let e = self.expr(&t, d, Fix::No);
                parts.push(FPart::Expr(e));
            }
        }
        // two adjacent text parts are one text token
        let mut merged: Vec<FPart> = Vec::new();
        for p in parts {
            match (merged.last_mut(), p) {
                (Some(FPart::Text(a)), FPart::Text(b)) => a.push_str(&b),
                (_, p) => merged.push(p),
            }
        }
        Expr::FStr(merged)
    }

    fn list_len(&mut self) -> Option<Expr> {
        let vars = self.all_vars();
        let ls: Vec<&VarInfo> = vars.iter().filter(|v| matches!(v.ty, Ty::List(_))).collect();
        if ls.is_empty() {
            return None;
        }
        let v = ls[self.c.below(ls.len())];
        Some(Expr::Method(Box::new(Expr::Var(v.name.clone())), "len".into(), vec![]))
    }

    fn call_expr(&mut self, ty: &Ty, d: u32) -> Option<Expr> {
        if self.in_const && self.prof.no_recursion {
            return None;
        }
        // candidates: functions (other than main) returning ty
        let n = self.prog.funcs.len();
        let cands: Vec<usize> = (1..n).filter(|&i| &self.prog.funcs[i].ret == ty && self.prog.funcs[i].kind == FnKind::Fn).collect();
        if cands.is_empty() {
            return None;
        }
        let j = cands[self.c.below(cands.len())];
        let forward = j > self.cur_fn;
        if !forward && (self.prof.no_recursion || self.in_const) {
            return None;
        }
        let params = self.prog.funcs[j].params.clone();
        let mut args = Vec::new();
        let d_var = Expr::Var("d".into());
        let has_d = self.cur_fn != 0 && !self.in_const;
        for (i, (_, pt)) in params.iter().enumerate() {
            if i == 0 {
                // fuel parameter
                if forward {
                    args.push(if has_d { d_var.clone() } else { self.small_i32(2) });
                } else {
                    args.push(Expr::Bin(BinOp::Sub, Box::new(d_var.clone()), Box::new(self.small_i32(1))));
                }
            } else {
                args.push(self.expr(pt, d.min(2), Fix::Direct));
            }
        }
        if args.len() >= 3 {
            let tys: Vec<Ty> = params.iter().skip(1).map(|(_, t)| t.clone()).collect();
            self.late_mutation(&mut args[1..], &tys, d);
        }
        let call = Expr::Call(j, args);
        if forward {
            Some(call)
        } else {
            // back edge: only with fuel left
            let cond = Expr::Bin(BinOp::Gt, Box::new(d_var), Box::new(self.small_i32(0)));
            let alt = self.leaf(ty, Fix::Direct);
            Some(Expr::If(
                Box::new(cond),
                Block { stmts: vec![], tail: Some(Box::new(call)) },
                Some(Block { stmts: vec![], tail: Some(Box::new(alt)) }),
            ))
        }
    }

    fn try_expr(&mut self, ty: &Ty, d: u32) -> Option<Expr> {
        if !matches!(self.cur_ret, Ty::Opt(_)) || self.cur_kind != FnKind::Fn || self.in_const {
            return None;
        }
        let ot = Ty::opt(ty.clone());
        let inner = self.expr_known(&ot, d);
        Some(Expr::Try(Box::new(inner)))
    }

    /// expression of the given type that determines its own type
    fn expr_known(&mut self, ty: &Ty, d: u32) -> Expr {
        let ps = self.places_of(ty, false);
        if !ps.is_empty() && self.c.chance(150) {
            let p = ps[self.c.below(ps.len())].clone();
            return Self::place_expr(&p);
        }
        if let Some(e) = self.call_expr(ty, d) {
            return e;
        }
        self.expr(ty, d, Fix::No)
    }

    fn match_expr(&mut self, ty: &Ty, d: u32, fix: Fix) -> Option<Expr> {
        // pick a scrutinee: a variable/place of enum-like type, or a constructed Option
        let mut cands: Vec<(Place, Ty)> = Vec::new();
        for v in self.all_vars() {
            let mut ps = Vec::new();
            self.collect_enum_places(&v.ty, Place { var: v.name.clone(), fields: vec![] }, 2, &mut ps);
            cands.extend(ps);
        }
        let mut scrut_place: Option<(Place, Ty)> = None;
        let (scrut, sty) = if !cands.is_empty() && self.c.chance(200) {
            let (p, t) = cands[self.c.below(cands.len())].clone();
            let assignable = self.all_vars().iter().any(|v| v.name == p.var && v.assignable && v.concrete);
            if assignable && !self.in_const && !mentions_anon(&t) && !matches!(t, Ty::Param(_)) {
                scrut_place = Some((p.clone(), t.clone()));
            }
            (Self::place_expr(&p), t)
        } else {
            // Option of a scalar, built on the spot
            let t = self.scalar_ty();
            let ot = Ty::opt(t.clone());
            let e = if self.c.chance(128) {
                let a = self.expr(&t, d, Fix::Exact);
                Expr::Ctor("Option".into(), "Some".into(), vec![a])
            } else {
                // typed None through an annotated block-local
                let n = self.fresh("o");
                let init = self.construct(&ot, Fix::Direct, 1);
                Expr::Block(Block { stmts: vec![Stmt::Let(n.clone(), Some(ot.clone()), init)], tail: Some(Box::new(Expr::Var(n))) })
            };
            (e, ot)
        };
        let variants = self.variants_of(&sty);
        if variants.is_empty() {
            return None;
        }
        let mut arms = Vec::new();
        let outer_guard_mut = std::mem::replace(&mut self.guard_mut, scrut_place);
        let use_default = variants.len() > 1 && self.c.chance(60);
        let mut order: Vec<usize> = (0..variants.len()).collect();
        self.shuffle(&mut order);
        let n_explicit = if use_default { self.c.below(variants.len()) } else { variants.len() };
        for (pos, &vi) in order.iter().enumerate() {
            if pos >= n_explicit {
                break;
            }
            let (vn, ts) = variants[vi].clone();
            // optional guarded arm(s) before the unguarded one
            let n_guarded = if self.c.chance(70) { 1 + self.c.below(2) } else { 0 };
            for _ in 0..n_guarded {
                let arm = self.arm(Some((&vn, &ts)), true, ty, d, fix);
                arms.push(arm);
            }
            let arm = self.arm(Some((&vn, &ts)), false, ty, d, fix);
            arms.push(arm);
        }
        // guarded `_` arms may stand anywhere before the unguarded `_` arm (if there is one),
        // also first and also when every variant has an arm of its own
        let n_wild = if self.c.chance(60) { 1 + self.c.below(2) } else { 0 };
        for _ in 0..n_wild {
            let arm = self.arm(None, true, ty, d, fix);
            let pos = self.c.below(arms.len() + 1);
            arms.insert(pos, arm);
        }
        if self.prof.dup_arms && !arms.is_empty() && self.c.chance(40) {
            // a later unguarded arm for a variant that already has one never runs
            let firsts: Vec<usize> = (0..arms.len()).filter(|i| arms[*i].variant.is_some() && arms[*i].guard.is_none()).collect();
            if !firsts.is_empty() {
                let i = firsts[self.c.below(firsts.len())];
                let vn = arms[i].variant.clone().unwrap();
                if let Some((_, ts)) = variants.iter().find(|(n, _)| *n == vn) {
                    let ts = ts.clone();
                    let g = self.c.chance(60);
                    let arm = self.arm(Some((&vn, &ts)), g, ty, d, fix);
                    let pos = i + 1 + self.c.below(arms.len() - i);
                    arms.insert(pos, arm);
                }
            }
        }
        if use_default {
            if self.c.chance(50) {
                let arm = self.arm(None, true, ty, d, fix);
                arms.push(arm);
            }
            let arm = self.arm(None, false, ty, d, fix);
            arms.push(arm);
        }
        self.guard_mut = outer_guard_mut;
        Some(Expr::Match(Box::new(scrut), arms))
    }

    fn arm(&mut self, variant: Option<(&String, &Vec<Ty>)>, guarded: bool, ty: &Ty, d: u32, fix: Fix) -> Arm {
        self.scopes.push(Vec::new());
        let mut binds = Vec::new();
        if let Some((_, ts)) = variant {
            for t in ts {
                let n = self.fresh("m");
                self.bind(&n, t.clone(), true);
                binds.push(n);
            }
        }
        let guard = if guarded {
            let saved = self.prof.owning;
            if self.prof.excl_owning_in_guard {
                // keep owning temporaries out of guards (known finding C03-F2)
                self.prof.owning = false;
            }
            let mut g = self.guard_expr(d);
            // a guard that first stores another value in the place the match examines: the arms that
            // follow a failed guard still see (and bind) the value the match was entered with
            if let Some((p, t)) = self.guard_mut.clone() {
                if self.c.chance(50) && self.spend(3) {
                    let inner = self.guard_mut.take();
                    let newv = self.construct(&t, Fix::Direct, 1);
                    self.guard_mut = inner;
                    g = Expr::Block(Block { stmts: vec![Stmt::Expr(Expr::Assign(p, Box::new(newv)))], tail: Some(Box::new(g)) });
                }
            }
            self.prof.owning = saved;
            Some(g)
        } else {
            None
        };
        let body = self.block_with_tail(ty, d, fix);
        self.scopes.pop();
        let braces = !(body.stmts.is_empty() && self.c.chance(128));
        Arm { variant: variant.map(|(n, _)| n.clone()), binds, guard, body, braces }
    }

    fn guard_expr(&mut self, d: u32) -> Expr {
        if self.prof.excl_owning_in_guard {
            // scalar-only guard
            let saved_ag = self.prof.aggregates;
            let saved_s = self.prof.strings;
            self.prof.aggregates = false;
            self.prof.strings = false;
            let g = self.expr(&Ty::Bool, d.min(2), Fix::Direct);
            self.prof.aggregates = saved_ag;
            self.prof.strings = saved_s;
            g
        } else {
            self.expr(&Ty::Bool, d.min(2), Fix::Direct)
        }
    }

    fn collect_enum_places(&self, cur_ty: &Ty, cur: Place, depth: u32, out: &mut Vec<(Place, Ty)>) {
        if matches!(cur_ty, Ty::Enum(..) | Ty::Opt(_) | Ty::Result(..) | Ty::Verdict(..)) {
            out.push((cur.clone(), cur_ty.clone()));
        }
        if depth == 0 {
            return;
        }
        for (n, t) in self.fields_of(cur_ty) {
            let mut p = cur.clone();
            p.fields.push(n);
            self.collect_enum_places(&t, p, depth - 1, out);
        }
    }

    // ------------------------------------------------------------- statements

    fn block_with_tail(&mut self, ty: &Ty, d: u32, fix: Fix) -> Block {
        self.scopes.push(Vec::new());
        let n = if d == 0 { 0 } else { self.c.below(3) };
        let mut stmts = Vec::new();
        for _ in 0..n {
            if !self.spend(2) {
                break;
            }
            self.stmt(d, &mut stmts);
        }
        let tail = if *ty == Ty::Unit && self.c.chance(128) {
            None
        } else {
            Some(Box::new(self.expr(ty, d, fix)))
        };
        self.scopes.pop();
        Block { stmts, tail }
    }

    fn unit_block(&mut self, d: u32, max_stmts: usize) -> Block {
        self.scopes.push(Vec::new());
        let n = 1 + self.c.below(max_stmts);
        let mut stmts = Vec::new();
        for _ in 0..n {
            if !self.spend(2) {
                break;
            }
            self.stmt(d, &mut stmts);
        }
        self.scopes.pop();
        Block { stmts, tail: None }
    }

    fn out_stmt(&mut self, d: u32) -> Option<Stmt> {
        if self.in_const {
            return None;
        }
        if self.prof.no_out_stmts {
            let t = self.tag();
            if self.c.chance(128) {
                return Some(Stmt::Expr(Expr::Host("e".into(), vec![t])));
            }
            let b = self.expr(&Ty::Bool, d, Fix::Direct);
            return Some(Stmt::Expr(Expr::Host("eb".into(), vec![t, b])));
        }
        let t = if self.prof.strings && self.c.chance(40) {
            Ty::Str
        } else if self.prof.owning && self.c.chance(50) {
            let t = [Ty::Tr, Ty::Tz, Ty::Tc, Ty::T8][self.c.below(4)].clone();
            if t == Ty::Tz && self.prof.excl_tz { Ty::Tr } else { t }
        } else {
            self.scalar_ty()
        };
        let e = self.expr(&t, d, Fix::Direct);
        Some(Stmt::Expr(Expr::Host(format!("out_{}", ty_short(&t)), vec![e])))
    }

    fn let_stmt(&mut self, d: u32) -> Stmt {
        // shadowing: a `let` in an inner block may reuse the name of a variable of an enclosing
        // block (of the same or another type); its initialiser still sees the outer variable
        if self.prof.shadowing && self.no_shadow == 0 && self.scopes.len() >= 2 && self.c.chance(26) {
            let inner: std::collections::HashSet<String> = self.scopes.last().unwrap().iter().map(|v| v.name.clone()).collect();
            let outer: Vec<VarInfo> = self
                .all_vars()
                .into_iter()
                .filter(|v| v.concrete && v.assignable && v.name.starts_with('v') && !inner.contains(&v.name))
                .collect();
            if !outer.is_empty() {
                let v = outer[self.c.below(outer.len())].clone();
                let t = if self.c.chance(180) { v.ty.clone() } else { self.value_ty(2) };
                let e = match &t {
                    Ty::Int(_) if t == v.ty && self.c.chance(150) => {
                        let k = self.expr(&t, 1, Fix::Direct);
                        let op = if self.c.chance(128) { BinOp::Mul } else { BinOp::Add };
                        Expr::Bin(op, Box::new(Expr::Var(v.name.clone())), Box::new(k))
                    }
                    // (a variable of a written-out anonymous record type is not accepted where the
                    // same type is written out again: such values are always built as literals)
                    _ if t == v.ty && !mentions_anon(&t) && self.c.chance(100) => Expr::Var(v.name.clone()),
                    _ => self.expr(&t, d, Fix::Direct),
                };
                self.bind(&v.name, t.clone(), true);
                return Stmt::Let(v.name, Some(t), e);
            }
        }
        // in a function that returns an Option: `let v: T = <T?>?;` for any payload type T (the
        // function's own payload type is usually another one), Some and None operands alike
        if matches!(self.cur_ret, Ty::Opt(_)) && self.cur_kind == FnKind::Fn && !self.in_const && self.c.chance(80) {
            let t = self.value_ty(1);
            if !mentions_anon(&t) {
                let ot = Ty::opt(t.clone());
                let q = self.fresh("q");
                let init = if self.c.chance(200) { self.construct(&ot, Fix::Direct, 1) } else { self.expr(&ot, d, Fix::Direct) };
                let operand = Expr::Block(Block { stmts: vec![Stmt::Let(q.clone(), Some(ot), init)], tail: Some(Box::new(Expr::Var(q))) });
                let name = self.fresh("v");
                self.bind(&name, t.clone(), true);
                return Stmt::Let(name, Some(t), Expr::Try(Box::new(operand)));
            }
        }
        // the result of some helper function, whatever it returns (helpers with uncommon
        // return types would hardly ever run otherwise)
        if self.prog.funcs.len() > 1 && !self.in_const && self.c.chance(36) {
            let j = 1 + self.c.below(self.prog.funcs.len() - 1);
            let t = self.prog.funcs[j].ret.clone();
            if t != Ty::Unit && !mentions_anon(&t) {
                if let Some(e) = self.call_expr(&t, d) {
                    let name = self.fresh("v");
                    self.bind(&name, t.clone(), true);
                    return Stmt::Let(name, Some(t), e);
                }
            }
        }
        let t = self.value_ty(2);
        let name = self.fresh("v");
        // annotation may be dropped when the initialiser determines its own type
        let self_typed = matches!(t, Ty::Int(_) | Ty::F32 | Ty::F64 | Ty::Bool | Ty::Char | Ty::Str);
        let annotate = !(self_typed && self.c.chance(90));
        let e = self.expr(&t, d, if annotate { Fix::Direct } else { Fix::No });
        if !annotate && matches!(t, Ty::Int(_) | Ty::F32 | Ty::F64) {
            self.bind_loose(&name, t.clone());
        } else {
            self.bind(&name, t.clone(), true);
        }
        Stmt::Let(name, if annotate { Some(t) } else { None }, e)
    }

    fn stmt(&mut self, depth: u32, out: &mut Vec<Stmt>) {
        let d = depth.saturating_sub(1);
        let k = self.c.below(17);
        match k {
            16 => {
                // a match whose unguarded arms all leave the function while a guarded arm may fall
                // through: what follows the match still runs on that path
                if self.in_const || !self.prof.aggregates {
                    let s = self.let_stmt(d);
                    out.push(s);
                    return;
                }
                let t = self.scalar_ty();
                let ot = Ty::opt(t.clone());
                let n = self.fresh("o");
                let init = if self.c.chance(150) {
                    let a = self.expr(&t, d, Fix::Exact);
                    Expr::Ctor("Option".into(), "Some".into(), vec![a])
                } else {
                    self.construct(&ot, Fix::Direct, 1)
                };
                out.push(Stmt::Let(n.clone(), Some(ot.clone()), init));
                let some = ("Some".to_string(), vec![t.clone()]);
                let mut arms = Vec::new();
                let ng = 1 + self.c.below(2);
                for _ in 0..ng {
                    let mut a = self.arm(Some((&some.0, &some.1)), true, &Ty::Unit, d, Fix::Direct);
                    a.braces = true;
                    arms.push(a);
                }
                for (vn, ts) in [some.clone(), ("None".to_string(), vec![])] {
                    self.scopes.push(Vec::new());
                    let binds: Vec<String> = ts.iter().map(|bt| {
                        let b = self.fresh("b");
                        self.bind(&b, bt.clone(), false);
                        b
                    }).collect();
                    let r = self.return_expr(d);
                    self.scopes.pop();
                    arms.push(Arm { variant: Some(vn), binds, guard: None, body: Block { stmts: vec![Stmt::Expr(r)], tail: None }, braces: true });
                }
                if self.c.chance(80) {
                    let mut a = self.arm(None, true, &Ty::Unit, d, Fix::Direct);
                    a.braces = true;
                    let pos = self.c.below(arms.len());
                    arms.insert(pos, a);
                }
                out.push(Stmt::Expr(Expr::Match(Box::new(Expr::Var(n)), arms)));
            }
            0..=3 => {
                let s = self.let_stmt(d);
                out.push(s);
            }
            4 | 5 => {
                // assignment to an assignable place
                let vars: Vec<VarInfo> = self.all_vars().into_iter().filter(|v| v.assignable).collect();
                if vars.is_empty() {
                    let s = self.let_stmt(d);
                    out.push(s);
                    return;
                }
                let v = vars[self.c.below(vars.len())].clone();
                // choose the variable itself or a nested field
                let mut place = Place { var: v.name.clone(), fields: vec![] };
                let mut ty = v.ty.clone();
                loop {
                    let fs = self.fields_of(&ty);
                    if fs.is_empty() || !self.c.chance(150) {
                        break;
                    }
                    let (n, t) = fs[self.c.below(fs.len())].clone();
                    place.fields.push(n);
                    ty = t;
                }
                // `+=` also joins strings and lists (the old value of the place is replaced)
                let joinable = matches!(ty, Ty::Str) || (matches!(ty, Ty::List(_)) && self.prof.lists);
                if joinable && self.c.chance(110) {
                    let rhs = self.expr(&ty, d, Fix::Direct);
                    out.push(Stmt::Expr(Expr::Compound(place, BinOp::Add, Box::new(rhs))));
                    return;
                }
                let compound = ty.is_numeric() && self.c.chance(100);
                if compound {
                    let ops: &[BinOp] = if ty.is_int() {
                        &[BinOp::Add, BinOp::Sub, BinOp::Mul, BinOp::Div, BinOp::Rem]
                    } else {
                        &[BinOp::Add, BinOp::Sub, BinOp::Mul, BinOp::Div]
                    };
                    let op = ops[self.c.below(ops.len())];
                    let rhs = if matches!(op, BinOp::Div | BinOp::Rem) && ty.is_int() {
                        let Ty::Int(t) = &ty else { unreachable!() };
                        let mut v = self.int_value(*t);
                        if v == 0 || (t.signed() && v == -1) {
                            v = 2;
                        }
                        self.int_lit(*t, v, Fix::Direct)
                    } else {
                        self.expr(&ty, d, Fix::Direct)
                    };
                    out.push(Stmt::Expr(Expr::Compound(place, op, Box::new(rhs))));
                } else {
                    let rhs = self.expr(&ty, d, Fix::Direct);
                    out.push(Stmt::Expr(Expr::Assign(place, Box::new(rhs))));
                }
            }
            6 | 7 => {
                if let Some(s) = self.out_stmt(d) {
                    out.push(s);
                } else {
                    let s = self.let_stmt(d);
                    out.push(s);
                }
            }
            8 => {
                // if without else / with else, unit typed
                let c = self.expr(&Ty::Bool, d, Fix::Direct);
                let t = self.unit_block(d, 2);
                let e = if self.c.chance(128) { Some(self.unit_block(d, 2)) } else { None };
                out.push(Stmt::Expr(Expr::If(Box::new(c), t, e)));
            }
            9 => {
                // early return under a condition
                if self.in_const {
                    let s = self.let_stmt(d);
                    out.push(s);
                    return;
                }
                let c = self.expr(&Ty::Bool, d, Fix::Direct);
                let ret = self.return_expr(d);
                let blk = if self.c.chance(128) {
                    Block { stmts: vec![Stmt::Expr(ret)], tail: None }
                } else {
                    Block { stmts: vec![], tail: Some(Box::new(ret)) }
                };
                out.push(Stmt::Expr(Expr::If(Box::new(c), blk, None)));
            }
            10 => {
                // while loop with a dedicated fuel counter
                if self.loop_depth >= 2 || !self.spend(6) {
                    let s = self.let_stmt(d);
                    out.push(s);
                    return;
                }
                let w = self.fresh("w");
                let limit = self.c.below(4) as i32;
                out.push(Stmt::Let(w.clone(), None, self.small_i32(0)));
                self.bind(&w, Ty::Int(IntTy::I32), false);
                if let Some(v) = self.scopes.last_mut().and_then(|s| s.last_mut()) {
                    // un-annotated literal: `{integer}` until defaulted, not a method receiver
                    v.concrete = false;
                }
                let fuel = Expr::Bin(BinOp::Lt, Box::new(Expr::Var(w.clone())), Box::new(self.small_i32(limit)));
                let cond = if self.c.chance(128) {
                    let saved = (self.prof.owning, self.prof.strings, self.prof.aggregates);
                    if self.prof.excl_owning_in_while_cond {
                        self.prof.owning = false;
                        self.prof.strings = false;
                        self.prof.aggregates = false;
                    }
                    let extra = self.expr(&Ty::Bool, d.min(2), Fix::Direct);
                    (self.prof.owning, self.prof.strings, self.prof.aggregates) = saved;
                    Expr::Bin(BinOp::And, Box::new(fuel), Box::new(extra))
                } else {
                    fuel
                };
                self.loop_depth += 1;
                // statements made in this scope are appended to the body below: no shadowing inside
                self.no_shadow += 1;
                let mut body = self.unit_block(d, 3);
                self.no_shadow -= 1;
                self.loop_depth -= 1;
                body.stmts.push(Stmt::Expr(Expr::Assign(
                    Place { var: w.clone(), fields: vec![] },
                    Box::new(Expr::Bin(BinOp::Add, Box::new(Expr::Var(w)), Box::new(self.small_i32(1)))),
                )));
                if !self.in_const && self.c.chance(35) {
                    // a body that always leaves the function: the loop itself still may run zero times
                    let r = self.return_expr(d.min(2));
                    body.stmts.push(Stmt::Expr(r));
                }
                out.push(Stmt::Expr(Expr::While(Box::new(cond), body)));
            }
            11 => {
                // for loop over a list literal (or a list variable in the aggregate profile)
                if self.loop_depth >= 2 || !self.spend(6) {
                    let s = self.let_stmt(d);
                    out.push(s);
                    return;
                }
                let et = if self.prof.aggregates { self.value_ty(1) } else { self.scalar_ty() };
                let lt = Ty::list(et.clone());
                let lvars = self.vars_of(&lt);
                let list = if !lvars.is_empty() && self.c.chance(128) {
                    Expr::Var(lvars[self.c.below(lvars.len())].clone())
                } else {
                    let n = self.c.below(4);
                    let mut es = Vec::new();
                    for i in 0..n {
                        es.push(self.expr(&et, d.min(1), if i == 0 { Fix::No } else { Fix::Direct }));
                    }
                    if es.is_empty() {
                        // an empty literal has no element type of its own
                        let n = self.fresh("l");
                        out.push(Stmt::Let(n.clone(), Some(lt.clone()), Expr::List(vec![])));
                        self.bind(&n, lt.clone(), true);
                        Expr::Var(n)
                    } else {
                        Expr::List(es)
                    }
                };
                let x = self.fresh("x");
                self.scopes.push(Vec::new());
                self.bind(&x, et, true);
                self.loop_depth += 1;
                self.no_shadow += 1;
                let mut body = self.unit_block(d, 3);
                self.no_shadow -= 1;
                // pushing to the iterated list from inside the loop, bounded by its length
                if let Expr::Var(lv) = &list {
                    if self.prof.lists && self.c.chance(60) {
                        let Ty::List(ett) = &lt else { unreachable!() };
                        let item = self.expr(ett, 1, Fix::Direct);
                        let len = Expr::Method(Box::new(Expr::Var(lv.clone())), "len".into(), vec![]);
                        let lim = self.int_lit(IntTy::U64, 5, Fix::Direct);
                        let cond = Expr::Bin(BinOp::Lt, Box::new(len), Box::new(lim));
                        let push = Expr::Method(Box::new(Expr::Var(lv.clone())), "push".into(), vec![item]);
                        body.stmts.push(Stmt::Expr(Expr::If(
                            Box::new(cond),
                            Block { stmts: vec![Stmt::Expr(push)], tail: None },
                            None,
                        )));
                    }
                }
                if !self.in_const && self.c.chance(35) {
                    let r = self.return_expr(d.min(2));
                    body.stmts.push(Stmt::Expr(r));
                }
                self.loop_depth -= 1;
                self.scopes.pop();
                out.push(Stmt::Expr(Expr::For(x, Box::new(list), body)));
            }
            12 if self.prof.lists && self.prof.aggregates => {
                // list mutation through a variable: push / swap
                let vars = self.all_vars();
                let ls: Vec<&VarInfo> = vars.iter().filter(|v| matches!(v.ty, Ty::List(_))).collect();
                if ls.is_empty() {
                    let s = self.let_stmt(d);
                    out.push(s);
                    return;
                }
                let v = ls[self.c.below(ls.len())].clone();
                let Ty::List(et) = &v.ty else { unreachable!() };
                if self.c.chance(170) {
                    let item = self.expr(et, d, Fix::Direct);
                    out.push(Stmt::Expr(Expr::Method(Box::new(Expr::Var(v.name.clone())), "push".into(), vec![item])));
                } else {
                    // mostly indices that exist in a short list, so that something is exchanged
                    let mut idx = |g: &mut Self| {
                        if g.c.chance(200) {
                            let k = g.c.below(4) as i128;
                            g.int_lit(IntTy::U64, k, Fix::Direct)
                        } else {
                            g.expr(&Ty::Int(IntTy::U64), 1, Fix::Direct)
                        }
                    };
                    let i = idx(self);
                    let j = idx(self);
                    out.push(Stmt::Expr(Expr::Method(Box::new(Expr::Var(v.name.clone())), "swap".into(), vec![i, j])));
                }
            }
            13 if !self.in_const && self.c.chance(60) => {
                // `c && return x;` / `c || return x;`: the statement leaves the function only
                // when the right operand runs
                let c = self.expr(&Ty::Bool, d, Fix::Direct);
                let r = self.return_expr(d.min(1));
                let op = if self.c.chance(128) { BinOp::Or } else { BinOp::And };
                out.push(Stmt::Expr(Expr::Bin(op, Box::new(c), Box::new(r))));
            }
            13 => {
                // expression statement whose value is discarded
                let t = self.value_ty(1);
                let e = self.expr(&t, d, Fix::No);
                // a bare literal statement of a non-defaultable type is pointless; wrap as let
                out.push(Stmt::Expr(e));
            }
            14 => {
                // nested block statement
                let b = self.unit_block(d, 3);
                out.push(Stmt::Expr(Expr::Block(b)));
            }
            _ => {
                let s = self.let_stmt(d);
                out.push(s);
            }
        }
    }

    /// an operand that leaves the function instead of producing a value (`return ..`, `accept ..`,
    /// `reject ..`), bare or as the value of a block; whether it runs is up to the operator around it
    fn exit_operand(&mut self, d: u32) -> Option<Expr> {
        if self.in_const || !self.c.chance(22) {
            return None;
        }
        let r = self.return_expr(d.min(1));
        Some(if self.c.chance(100) { Expr::Block(Block { stmts: vec![], tail: Some(Box::new(r)) }) } else { r })
    }

    fn return_expr(&mut self, d: u32) -> Expr {
        let rt = self.cur_ret.clone();
        match self.cur_kind {
            FnKind::Fn => {
                if rt == Ty::Unit && self.c.chance(128) {
                    Expr::Return(None)
                } else {
                    let e = self.expr(&rt, d, Fix::Direct);
                    Expr::Return(Some(Box::new(e)))
                }
            }
            FnKind::FilterMap | FnKind::Test => {
                let Ty::Verdict(a, r) = &rt else { unreachable!() };
                if self.c.chance(128) {
                    if **a == Ty::Unit {
                        Expr::Accept(None)
                    } else {
                        let e = self.expr(a, d, Fix::Direct);
                        Expr::Accept(Some(Box::new(e)))
                    }
                } else if **r == Ty::Unit {
                    Expr::Reject(None)
                } else {
                    let e = self.expr(r, d, Fix::Direct);
                    Expr::Reject(Some(Box::new(e)))
                }
            }
        }
    }

    // -------------------------------------------------------------- functions

    fn gen_signatures(&mut self, main_ret: Ty, main_params: Vec<(String, Ty)>) {
        let n = 1 + self.c.below(5);
        self.prog.funcs.push(Func { kind: FnKind::Fn, name: "main".into(), params: main_params, ret: main_ret, body: Block::default() });
        for i in 1..n {
            let arity = self.c.below(5);
            let mut params = vec![("d".to_string(), Ty::Int(IntTy::I32))];
            for p in 0..arity {
                let t = self.value_ty(2);
                params.push((format!("p{p}"), t));
            }
            // (a fifth of the helpers return an Option, so that `?` on operands of every payload
            // type occurs in functions whose own payload type is another one)
            let ret = if self.c.chance(40) {
                Ty::Unit
            } else if self.prof.aggregates && self.c.chance(50) {
                Ty::opt(self.value_ty(1))
            } else {
                self.value_ty(2)
            };
            self.prog.funcs.push(Func { kind: FnKind::Fn, name: format!("f{i}"), params, ret, body: Block::default() });
        }
    }

    fn gen_body(&mut self, idx: usize) {
        self.cur_fn = idx;
        self.cur_ret = self.prog.funcs[idx].ret.clone();
        self.cur_kind = self.prog.funcs[idx].kind;
        self.scopes.clear();
        self.scopes.push(self.globals.clone());
        self.scopes.push(Vec::new());
        let params = self.prog.funcs[idx].params.clone();
        for (i, (n, t)) in params.iter().enumerate() {
            // the fuel parameter is read-only
            let assignable = !(idx != 0 && i == 0);
            self.bind(n, t.clone(), assignable);
        }
        let depth = self.prof.max_depth;
        let n = 1 + self.c.below(6);
        let mut stmts = Vec::new();
        self.scopes.push(Vec::new());
        for _ in 0..n {
            if !self.spend(2) {
                break;
            }
            self.stmt(depth, &mut stmts);
        }
        let rt = self.cur_ret.clone();
        let tail = if rt == Ty::Unit && self.c.chance(128) {
            None
        } else if self.c.chance(30) {
            // explicit `return e` as the last statement
            let r = self.return_expr(depth.saturating_sub(1));
            stmts.push(Stmt::Expr(r));
            None
        } else {
            Some(Box::new(self.expr(&rt, depth.saturating_sub(1), Fix::Direct)))
        };
        self.scopes.pop();
        self.prog.funcs[idx].body = Block { stmts, tail };
    }

    /// 0-2 script constants of generated types (no lists: a list constant is shared between the
    /// calls made on one package, the model starts afresh for every call); their initialisers
    /// have no inputs, no effects and nothing that may trap or leave
    /// does a value of the type hold a list anywhere (also through declared records and enums)?
    fn holds_list(&self, t: &Ty, depth: u32) -> bool {
        if depth == 0 {
            return true;
        }
        match t {
            Ty::List(_) => true,
            Ty::Opt(a) => self.holds_list(a, depth - 1),
            Ty::Result(a, b) | Ty::Verdict(a, b) => self.holds_list(a, depth - 1) || self.holds_list(b, depth - 1),
            Ty::Anon(_) | Ty::Rec(..) => self.fields_of(t).iter().any(|(_, ft)| self.holds_list(ft, depth - 1)),
            Ty::Enum(..) => self.variants_of(t).iter().any(|(_, ts)| ts.iter().any(|ft| self.holds_list(ft, depth - 1))),
            _ => false,
        }
    }

    fn gen_consts(&mut self) {
        if !self.prof.consts || !self.c.chance(96) {
            return;
        }
        let n = 1 + self.c.below(2);
        self.in_const = true;
        self.cur_kind = FnKind::Fn;
        self.cur_ret = Ty::Unit;
        for i in 0..n {
            let t = self.value_ty(2);
            if self.holds_list(&t, 6) {
                continue;
            }
            self.scopes.clear();
            self.scopes.push(self.globals.clone());
            self.scopes.push(Vec::new());
            let init = if self.c.chance(128) { self.construct(&t, Fix::Direct, 2) } else { self.expr(&t, 2, Fix::Direct) };
            let name = format!("K{i}");
            self.prog.consts.push(ConstDecl { name: name.clone(), ty: t.clone(), init });
            self.globals.push(VarInfo { name, ty: t, assignable: false, concrete: true });
        }
        self.in_const = false;
    }

    /// Generate with sabotage target `target`; returns the program, the number of sabotage
    /// sites and the description of the sabotage (None if the target was not reached).
    pub fn program_sabotaged(mut self, main_ret_choices: &[Ty], target: Option<u32>) -> (Program, u32, Option<String>) {
        self.sab = target;
        self.gen_decls();
        self.gen_consts();
        let mr = main_ret_choices[self.c.below(main_ret_choices.len())].clone();
        let with_args = self.prof.allow_main_args && mr.is_scalar() && self.c.chance(128);
        let params = if with_args { vec![("a".to_string(), mr.clone()), ("b".to_string(), mr.clone())] } else { vec![] };
        self.gen_signatures(mr, params);
        let n = self.prog.funcs.len();
        for i in 0..n {
            self.gen_body(i);
        }
        self.prog.layout = self.c.byte();
        (self.prog, self.sab_seen, self.sab_desc)
    }

    pub fn program(mut self, main_ret_choices: &[Ty]) -> Program {
        self.gen_decls();
        self.gen_consts();
        let mr = main_ret_choices[self.c.below(main_ret_choices.len())].clone();
        let with_args = self.prof.allow_main_args && mr.is_scalar() && self.c.chance(128);
        let params = if with_args { vec![("a".to_string(), mr.clone()), ("b".to_string(), mr.clone())] } else { vec![] };
        self.gen_signatures(mr, params);
        let n = self.prog.funcs.len();
        for i in 0..n {
            self.gen_body(i);
        }
        // declarations may stand in any order in the source text
        self.prog.layout = self.c.byte();
        self.prog
    }
}

fn ty_name_for_desc(p: &Program, t: &Ty) -> String {
    match t {
        Ty::Rec(i, _) | Ty::Enum(i, _) => p.decls.get(*i).map(|d| d.name().to_string()).unwrap_or_else(|| "?".into()),
        Ty::Opt(t) => format!("{}?", ty_name_for_desc(p, t)),
        Ty::List(t) => format!("List[{}]", ty_name_for_desc(p, t)),
        Ty::Anon(_) => "anonymous record".into(),
        Ty::Result(..) => "Result[..]".into(),
        Ty::Verdict(..) => "Verdict[..]".into(),
        other => ty_short(other),
    }
}

fn inner_fix(fix: Fix) -> Fix {
    match fix {
        Fix::Direct => Fix::Direct,
        Fix::Exact => Fix::Exact,
        _ => Fix::No,
    }
}

/// vary the spelling of a float literal body produced by `{:?}` (e.g. "1.5", "1e300", "0.1")
fn fmt_float_body(body: &str) -> String {
    // `{:?}` always contains '.' or 'e', which the lexer needs to see a float
    body.to_string()
}

fn mentions_anon(t: &Ty) -> bool {
    match t {
        Ty::Anon(_) => true,
        Ty::Opt(a) | Ty::List(a) => mentions_anon(a),
        Ty::Result(a, b) | Ty::Verdict(a, b) => mentions_anon(a) || mentions_anon(b),
        Ty::Rec(_, args) | Ty::Enum(_, args) => args.iter().any(mentions_anon),
        _ => false,
    }
}
