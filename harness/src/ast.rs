//! The harness's own typed program tree, with a pretty printer.
//! Programs are built well-typed by construction by `gen` and interpreted by `model`.

use std::fmt::Write;

#[derive(Clone, Copy, PartialEq, Eq, Hash, Debug, PartialOrd, Ord)]
pub enum IntTy {
    U8,
    U16,
    U32,
    U64,
    I8,
    I16,
    I32,
    I64,
}

pub const INT_TYS: [IntTy; 8] =
    [IntTy::I32, IntTy::U8, IntTy::U16, IntTy::U32, IntTy::U64, IntTy::I8, IntTy::I16, IntTy::I64];

impl IntTy {
    pub fn bits(self) -> u32 {
        match self {
            IntTy::U8 | IntTy::I8 => 8,
            IntTy::U16 | IntTy::I16 => 16,
            IntTy::U32 | IntTy::I32 => 32,
            IntTy::U64 | IntTy::I64 => 64,
        }
    }
    pub fn signed(self) -> bool {
        matches!(self, IntTy::I8 | IntTy::I16 | IntTy::I32 | IntTy::I64)
    }
    pub fn name(self) -> &'static str {
        match self {
            IntTy::U8 => "u8",
            IntTy::U16 => "u16",
            IntTy::U32 => "u32",
            IntTy::U64 => "u64",
            IntTy::I8 => "i8",
            IntTy::I16 => "i16",
            IntTy::I32 => "i32",
            IntTy::I64 => "i64",
        }
    }
    pub fn min_val(self) -> i128 {
        if self.signed() { -(1i128 << (self.bits() - 1)) } else { 0 }
    }
    pub fn max_val(self) -> i128 {
        if self.signed() { (1i128 << (self.bits() - 1)) - 1 } else { (1i128 << self.bits()) - 1 }
    }
    /// wrap an arbitrary integer into this type's range (two's complement)
    pub fn wrap(self, v: i128) -> i128 {
        let m = 1i128 << self.bits();
        let mut r = v.rem_euclid(m);
        if self.signed() && r >= (m >> 1) {
            r -= m;
        }
        r
    }
    pub fn from_name(s: &str) -> Option<IntTy> {
        INT_TYS.iter().copied().find(|t| t.name() == s)
    }
}

#[derive(Clone, PartialEq, Debug)]
pub enum Ty {
    Int(IntTy),
    F32,
    F64,
    Bool,
    Char,
    Unit,
    Str,
    Opt(Box<Ty>),
    List(Box<Ty>),
    Result(Box<Ty>, Box<Ty>),
    Verdict(Box<Ty>, Box<Ty>),
    /// named record: index into Program.decls, type arguments
    Rec(usize, Vec<Ty>),
    /// user enum: index into Program.decls, type arguments
    Enum(usize, Vec<Ty>),
    Anon(Vec<(String, Ty)>),
    /// type parameter of the enclosing declaration
    Param(usize),
    /// registered host types
    Tr,
    Tz,
    Tc,
    T8,
}

impl Ty {
    pub fn opt(t: Ty) -> Ty {
        Ty::Opt(Box::new(t))
    }
    pub fn list(t: Ty) -> Ty {
        Ty::List(Box::new(t))
    }
    pub fn is_int(&self) -> bool {
        matches!(self, Ty::Int(_))
    }
    pub fn is_float(&self) -> bool {
        matches!(self, Ty::F32 | Ty::F64)
    }
    pub fn is_numeric(&self) -> bool {
        self.is_int() || self.is_float()
    }
    pub fn is_scalar(&self) -> bool {
        matches!(self, Ty::Int(_) | Ty::F32 | Ty::F64 | Ty::Bool | Ty::Char)
    }
    pub fn subst(&self, args: &[Ty]) -> Ty {
        match self {
            Ty::Param(i) => args.get(*i).cloned().unwrap_or(Ty::Unit),
            Ty::Opt(t) => Ty::opt(t.subst(args)),
            Ty::List(t) => Ty::list(t.subst(args)),
            Ty::Result(a, b) => Ty::Result(Box::new(a.subst(args)), Box::new(b.subst(args))),
            Ty::Verdict(a, b) => Ty::Verdict(Box::new(a.subst(args)), Box::new(b.subst(args))),
            Ty::Rec(i, a) => Ty::Rec(*i, a.iter().map(|t| t.subst(args)).collect()),
            Ty::Enum(i, a) => Ty::Enum(*i, a.iter().map(|t| t.subst(args)).collect()),
            Ty::Anon(fs) => Ty::Anon(fs.iter().map(|(n, t)| (n.clone(), t.subst(args))).collect()),
            t => t.clone(),
        }
    }
    /// does a value of this type own heap / tracked resources?
    pub fn contains_list(&self, p: &Program) -> bool {
        match self {
            Ty::List(_) => true,
            Ty::Opt(t) => t.contains_list(p),
            Ty::Result(a, b) | Ty::Verdict(a, b) => a.contains_list(p) || b.contains_list(p),
            Ty::Rec(i, args) => p.decls[*i].fields().iter().any(|(_, t)| t.subst(args).contains_list(p)),
            Ty::Enum(i, args) => p.decls[*i]
                .variants()
                .iter()
                .any(|(_, ts)| ts.iter().any(|t| t.subst(args).contains_list(p))),
            Ty::Anon(fs) => fs.iter().any(|(_, t)| t.contains_list(p)),
            _ => false,
        }
    }
}

#[derive(Clone, Debug)]
pub enum TypeDecl {
    Record { name: String, params: Vec<String>, fields: Vec<(String, Ty)> },
    Enum { name: String, params: Vec<String>, variants: Vec<(String, Vec<Ty>)> },
}

impl TypeDecl {
    pub fn name(&self) -> &str {
        match self {
            TypeDecl::Record { name, .. } | TypeDecl::Enum { name, .. } => name,
        }
    }
    pub fn params(&self) -> &[String] {
        match self {
            TypeDecl::Record { params, .. } | TypeDecl::Enum { params, .. } => params,
        }
    }
    pub fn fields(&self) -> &[(String, Ty)] {
        match self {
            TypeDecl::Record { fields, .. } => fields,
            _ => &[],
        }
    }
    pub fn variants(&self) -> &[(String, Vec<Ty>)] {
        match self {
            TypeDecl::Enum { variants, .. } => variants,
            _ => &[],
        }
    }
}

#[derive(Clone, Copy, PartialEq, Eq, Debug, Hash)]
pub enum BinOp {
    Add,
    Sub,
    Mul,
    Div,
    Rem,
    Eq,
    Ne,
    Lt,
    Le,
    Gt,
    Ge,
    And,
    Or,
}

impl BinOp {
    pub fn sym(self) -> &'static str {
        match self {
            BinOp::Add => "+",
            BinOp::Sub => "-",
            BinOp::Mul => "*",
            BinOp::Div => "/",
            BinOp::Rem => "%",
            BinOp::Eq => "==",
            BinOp::Ne => "!=",
            BinOp::Lt => "<",
            BinOp::Le => "<=",
            BinOp::Gt => ">",
            BinOp::Ge => ">=",
            BinOp::And => "&&",
            BinOp::Or => "||",
        }
    }
    /// documented precedence level (higher binds tighter)
    pub fn prec(self) -> u8 {
        match self {
            BinOp::Or | BinOp::And => 1,
            BinOp::Eq | BinOp::Ne | BinOp::Lt | BinOp::Le | BinOp::Gt | BinOp::Ge => 2,
            BinOp::Add | BinOp::Sub => 3,
            BinOp::Mul | BinOp::Div | BinOp::Rem => 4,
        }
    }
    pub fn is_cmp(self) -> bool {
        self.prec() == 2
    }
    pub fn is_arith(self) -> bool {
        self.prec() >= 3
    }
    pub fn is_logic(self) -> bool {
        self.prec() == 1
    }
}

/// A literal: the model value and its source spelling.
#[derive(Clone, Debug)]
pub struct Lit {
    pub v: crate::model::V,
    pub text: String,
}

#[derive(Clone, Debug)]
pub struct Place {
    pub var: String,
    pub fields: Vec<String>,
}

#[derive(Clone, Debug)]
pub enum FPart {
    Text(String),
    Expr(Expr),
}

#[derive(Clone, Debug)]
pub struct Arm {
    /// None = `_`
    pub variant: Option<String>,
    pub binds: Vec<String>,
    pub guard: Option<Expr>,
    pub body: Block,
    /// print the body as a block `{ .. }` (true) or as `expr,` (false; needs a tail-only body)
    pub braces: bool,
}

#[derive(Clone, Debug)]
pub enum Expr {
    Lit(Lit),
    Var(String),
    Field(Box<Expr>, String),
    Neg(Box<Expr>),
    Not(Box<Expr>),
    Bin(BinOp, Box<Expr>, Box<Expr>),
    /// call of script function `idx`
    Call(usize, Vec<Expr>),
    /// call of a host / runtime function by (possibly dotted) name
    Host(String, Vec<Expr>),
    /// method call on a receiver
    Method(Box<Expr>, String, Vec<Expr>),
    If(Box<Expr>, Block, Option<Block>),
    Match(Box<Expr>, Vec<Arm>),
    Block(Block),
    Return(Option<Box<Expr>>),
    Accept(Option<Box<Expr>>),
    Reject(Option<Box<Expr>>),
    /// record literal; Some(name) for a named record
    Record(Option<String>, Vec<(String, Expr)>),
    /// enum constructor `Type.Variant(args)`; the String is the printed type path (e.g. "Option", "E1")
    Ctor(String, String, Vec<Expr>),
    List(Vec<Expr>),
    FStr(Vec<FPart>),
    Try(Box<Expr>),
    While(Box<Expr>, Block),
    For(String, Box<Expr>, Block),
    Assign(Place, Box<Expr>),
    Compound(Place, BinOp, Box<Expr>),
    Paren(Box<Expr>),
}

#[derive(Clone, Debug)]
pub enum Stmt {
    Let(String, Option<Ty>, Expr),
    Expr(Expr),
}

#[derive(Clone, Debug, Default)]
pub struct Block {
    pub stmts: Vec<Stmt>,
    pub tail: Option<Box<Expr>>,
}

#[derive(Clone, Copy, PartialEq, Eq, Debug)]
pub enum FnKind {
    Fn,
    FilterMap,
    Test,
}

#[derive(Clone, Debug)]
pub struct Func {
    pub kind: FnKind,
    pub name: String,
    pub params: Vec<(String, Ty)>,
    pub ret: Ty,
    pub body: Block,
}

#[derive(Clone, Debug)]
pub struct ConstDecl {
    pub name: String,
    pub ty: Ty,
    pub init: Expr,
}

#[derive(Clone, Debug, Default)]
pub struct Program {
    pub decls: Vec<TypeDecl>,
    pub consts: Vec<ConstDecl>,
    pub funcs: Vec<Func>,
    /// order of the sections in the printed text (declarations may come in any order):
    /// `layout % 6` permutes types / constants / functions, `layout / 6 % 2 == 1` reverses
    /// the constants and the functions among themselves
    pub layout: u8,
}

// ---------------------------------------------------------------------------
// printing

#[derive(Clone, Copy, PartialEq, Eq, Debug)]
pub enum Parens {
    Minimal,
    Full,
}

pub struct Printer<'a> {
    pub prog: &'a Program,
    pub parens: Parens,
    pub out: String,
    ind: usize,
}

pub fn ty_str(p: &Program, t: &Ty) -> String {
    match t {
        Ty::Int(i) => i.name().to_string(),
        Ty::F32 => "f32".into(),
        Ty::F64 => "f64".into(),
        Ty::Bool => "bool".into(),
        Ty::Char => "char".into(),
        Ty::Unit => "()".into(),
        Ty::Str => "String".into(),
        Ty::Opt(t) => format!("{}?", ty_str(p, t)),
        Ty::List(t) => format!("List[{}]", ty_str(p, t)),
        Ty::Result(a, b) => format!("Result[{}, {}]", ty_str(p, a), ty_str(p, b)),
        Ty::Verdict(a, b) => format!("Verdict[{}, {}]", ty_str(p, a), ty_str(p, b)),
        Ty::Rec(i, args) | Ty::Enum(i, args) => {
            let n = p.decls[*i].name();
            if args.is_empty() {
                n.to_string()
            } else {
                format!("{}[{}]", n, args.iter().map(|a| ty_str(p, a)).collect::<Vec<_>>().join(", "))
            }
        }
        Ty::Anon(fs) => {
            format!("{{ {} }}", fs.iter().map(|(n, t)| format!("{}: {}", n, ty_str(p, t))).collect::<Vec<_>>().join(", "))
        }
        Ty::Param(i) => format!("T{i}"),
        Ty::Tr => "Tr".into(),
        Ty::Tz => "Tz".into(),
        Ty::Tc => "Tc".into(),
        Ty::T8 => "T8".into(),
    }
}

fn contains_record(e: &Expr) -> bool {
    // conservative: any record literal or block-like brace that could confuse a head position
    match e {
        Expr::Record(..) => true,
        Expr::Lit(_) | Expr::Var(_) => false,
        Expr::Field(a, _) | Expr::Neg(a) | Expr::Not(a) | Expr::Try(a) => contains_record(a),
        Expr::Bin(_, a, b) => contains_record(a) || contains_record(b),
        // inside (), [] and call arguments the restriction is lifted
        Expr::Paren(_) | Expr::Call(..) | Expr::Host(..) | Expr::List(_) | Expr::Ctor(..) => false,
        Expr::Method(r, _, _) => contains_record(r),
        _ => false,
    }
}

impl<'a> Printer<'a> {
    pub fn new(prog: &'a Program, parens: Parens) -> Self {
        Printer { prog, parens, out: String::new(), ind: 0 }
    }

    fn nl(&mut self) {
        self.out.push('\n');
        for _ in 0..self.ind {
            self.out.push_str("    ");
        }
    }

    pub fn program(mut self) -> String {
        let prog = self.prog;
        for d in &prog.decls {
            match d {
                TypeDecl::Record { name, params, fields } => {
                    let _ = write!(self.out, "record {name}");
                    if !params.is_empty() {
                        let _ = write!(self.out, "[{}]", params.join(", "));
                    }
                    self.out.push_str(" {");
                    self.ind += 1;
                    for (n, t) in fields {
                        self.nl();
                        let _ = write!(self.out, "{}: {},", n, ty_str(prog, t));
                    }
                    self.ind -= 1;
                    self.nl();
                    self.out.push_str("}\n\n");
                }
                TypeDecl::Enum { name, params, variants } => {
                    let _ = write!(self.out, "enum {name}");
                    if !params.is_empty() {
                        let _ = write!(self.out, "[{}]", params.join(", "));
                    }
                    self.out.push_str(" {");
                    self.ind += 1;
                    for (n, ts) in variants {
                        self.nl();
                        if ts.is_empty() {
                            let _ = write!(self.out, "{n},");
                        } else {
                            let _ = write!(
                                self.out,
                                "{}({}),",
                                n,
                                ts.iter().map(|t| ty_str(prog, t)).collect::<Vec<_>>().join(", ")
                            );
                        }
                    }
                    self.ind -= 1;
                    self.nl();
                    self.out.push_str("}\n\n");
                }
            }
        }
        let types = std::mem::take(&mut self.out);
        let rev = prog.layout / 6 % 2 == 1;
        let consts: Vec<&ConstDecl> = if rev { prog.consts.iter().rev().collect() } else { prog.consts.iter().collect() };
        for c in consts {
            let _ = write!(self.out, "const {}: {} = ", c.name, ty_str(prog, &c.ty));
            self.expr(&c.init, 0);
            self.out.push_str(";\n\n");
        }
        let consts = std::mem::take(&mut self.out);
        let funcs: Vec<&Func> = if rev { prog.funcs.iter().rev().collect() } else { prog.funcs.iter().collect() };
        for f in funcs {
            self.func(f);
            self.out.push_str("\n\n");
        }
        let funcs = std::mem::take(&mut self.out);
        let order: [&str; 3] = match prog.layout % 6 {
            0 => [&types, &consts, &funcs],
            1 => [&types, &funcs, &consts],
            2 => [&funcs, &consts, &types],
            3 => [&consts, &types, &funcs],
            4 => [&funcs, &types, &consts],
            _ => [&consts, &funcs, &types],
        };
        order.concat()
    }

    pub fn func(&mut self, f: &Func) {
        let prog = self.prog;
        match f.kind {
            FnKind::Fn => {
                let _ = write!(self.out, "fn {}(", f.name);
            }
            FnKind::FilterMap => {
                let _ = write!(self.out, "filtermap {}(", f.name);
            }
            FnKind::Test => {
                let _ = write!(self.out, "test {} ", f.name);
            }
        }
        if f.kind != FnKind::Test {
            let ps: Vec<String> = f.params.iter().map(|(n, t)| format!("{}: {}", n, ty_str(prog, t))).collect();
            self.out.push_str(&ps.join(", "));
            self.out.push(')');
            if f.kind == FnKind::Fn && f.ret != Ty::Unit {
                let _ = write!(self.out, " -> {}", ty_str(prog, &f.ret));
            }
            self.out.push(' ');
        }
        self.block(&f.body);
    }

    pub fn block(&mut self, b: &Block) {
        self.out.push('{');
        self.ind += 1;
        for s in &b.stmts {
            self.nl();
            match s {
                Stmt::Let(n, t, e) => {
                    let _ = write!(self.out, "let {n}");
                    if let Some(t) = t {
                        let _ = write!(self.out, ": {}", ty_str(self.prog, t));
                    }
                    self.out.push_str(" = ");
                    self.expr(e, 0);
                    self.out.push(';');
                }
                Stmt::Expr(e) => {
                    self.stmt_expr(e);
                    self.out.push(';');
                }
            }
        }
        if let Some(t) = &b.tail {
            self.nl();
            self.stmt_expr(t);
        }
        self.ind -= 1;
        self.nl();
        self.out.push('}');
    }

    /// An expression in statement / tail position.  A statement that *starts* with
    /// if/match/while/for/block is parsed as that construct alone, so anything that
    /// continues after it must be parenthesised.
    fn stmt_expr(&mut self, e: &Expr) {
        if starts_with_control(e) && !is_control(e) {
            self.out.push('(');
            self.expr(e, 0);
            self.out.push(')');
        } else if matches!(e, Expr::Record(None, _)) {
            // `{ a: 1 }` in statement position is fine (parsed as record), keep
            self.expr(e, 0);
        } else {
            self.expr(e, 0);
        }
    }

    fn head(&mut self, e: &Expr) {
        if contains_record(e) {
            self.out.push('(');
            self.expr(e, 0);
            self.out.push(')');
        } else {
            self.expr(e, 0);
        }
    }

    fn args(&mut self, args: &[Expr]) {
        self.out.push('(');
        for (i, a) in args.iter().enumerate() {
            if i > 0 {
                self.out.push_str(", ");
            }
            self.expr(a, 0);
        }
        self.out.push(')');
    }

    fn ret_operand(&mut self, kw: &str, e: &Option<Box<Expr>>) {
        self.out.push_str(kw);
        if let Some(e) = e {
            if self.parens == Parens::Full {
                self.out.push_str(" (");
                self.expr(e, 0);
                self.out.push(')');
            } else {
                self.out.push(' ');
                self.expr(e, 0);
            }
        }
    }

    /// `ctx` is the binding strength required by the context:
    /// 0 = any expression, 1..=4 = operand of a binary operator of that level
    /// (left side: same level allowed; callers pass level+1 for right sides),
    /// 5 = operand of a unary operator, 6 = receiver of postfix (. ? call)
    pub fn expr(&mut self, e: &Expr, ctx: u8) {
        let full = self.parens == Parens::Full;
        match e {
            Expr::Lit(l) => {
                let neg = l.text.starts_with('-');
                if neg && ctx > 0 {
                    let _ = write!(self.out, "({})", l.text);
                } else {
                    self.out.push_str(&l.text);
                }
            }
            Expr::Var(n) => self.out.push_str(n),
            Expr::Paren(a) => {
                self.out.push('(');
                self.expr(a, 0);
                self.out.push(')');
            }
            Expr::Field(a, f) => {
                self.expr(a, 6);
                let _ = write!(self.out, ".{f}");
            }
            Expr::Try(a) => {
                self.expr(a, 6);
                self.out.push('?');
            }
            Expr::Neg(a) | Expr::Not(a) => {
                let sym = if matches!(e, Expr::Neg(_)) { "-" } else { "!" };
                let need = ctx > 5 || (full && ctx > 0);
                if need {
                    self.out.push('(');
                }
                self.out.push_str(sym);
                // avoid `--`
                if matches!(e, Expr::Neg(_)) && matches!(**a, Expr::Neg(_)) {
                    self.out.push(' ');
                }
                self.expr(a, 5);
                if need {
                    self.out.push(')');
                }
            }
            Expr::Bin(op, l, r) => {
                let p = op.prec();
                let need = ctx > p || (full && ctx > 0);
                if need {
                    self.out.push('(');
                }
                // documented: comparisons do not chain; && and || do not mix
                let (lc, rc) = if op.is_cmp() {
                    (p + 1, p + 1)
                } else if op.is_logic() {
                    let mixes = |x: &Expr| matches!(x, Expr::Bin(o, _, _) if o.is_logic() && o != op);
                    (if mixes(l) { p + 1 } else { p }, p + 1)
                } else {
                    (p, p + 1)
                };
                self.expr(l, lc);
                let _ = write!(self.out, " {} ", op.sym());
                self.expr(r, rc);
                if need {
                    self.out.push(')');
                }
            }
            Expr::Call(i, args) => {
                let name = self.prog.funcs[*i].name.clone();
                self.out.push_str(&name);
                self.args(args);
            }
            Expr::Host(n, args) => {
                self.out.push_str(n);
                self.args(args);
            }
            Expr::Method(r, m, args) => {
                self.expr(r, 6);
                let _ = write!(self.out, ".{m}");
                self.args(args);
            }
            // `{}` in expression position would be read as an empty record
            Expr::Block(b) if b.stmts.is_empty() && b.tail.is_none() => self.out.push_str("()"),
            Expr::If(..) | Expr::Match(..) | Expr::Block(_) | Expr::While(..) | Expr::For(..) => {
                let need = ctx > 0;
                if need {
                    self.out.push('(');
                }
                self.control(e);
                if need {
                    self.out.push(')');
                }
            }
            Expr::Return(v) => {
                let need = ctx > 0;
                if need {
                    self.out.push('(');
                }
                self.ret_operand("return", v);
                if need {
                    self.out.push(')');
                }
            }
            Expr::Accept(v) => {
                let need = ctx > 0;
                if need {
                    self.out.push('(');
                }
                self.ret_operand("accept", v);
                if need {
                    self.out.push(')');
                }
            }
            Expr::Reject(v) => {
                let need = ctx > 0;
                if need {
                    self.out.push('(');
                }
                self.ret_operand("reject", v);
                if need {
                    self.out.push(')');
                }
            }
            Expr::Record(name, fields) => {
                if let Some(n) = name {
                    let _ = write!(self.out, "{n} ");
                }
                self.out.push_str("{ ");
                for (i, (f, v)) in fields.iter().enumerate() {
                    if i > 0 {
                        self.out.push_str(", ");
                    }
                    let _ = write!(self.out, "{f}: ");
                    self.expr(v, 0);
                }
                self.out.push_str(" }");
            }
            Expr::Ctor(t, v, args) => {
                if t.is_empty() {
                    let _ = write!(self.out, "{v}");
                } else {
                    let _ = write!(self.out, "{t}.{v}");
                }
                if !args.is_empty() {
                    self.args(args);
                }
            }
            Expr::List(es) => {
                self.out.push('[');
                for (i, a) in es.iter().enumerate() {
                    if i > 0 {
                        self.out.push_str(", ");
                    }
                    self.expr(a, 0);
                }
                self.out.push(']');
            }
            Expr::FStr(parts) => {
                self.out.push_str("f\"");
                for p in parts {
                    match p {
                        FPart::Text(t) => self.out.push_str(&escape_fstr(t)),
                        FPart::Expr(e) => {
                            // `{{` / `}}` are brace escapes: keep braces of the
                            // expression away from the interpolation braces
                            let mut sub = Printer::new(self.prog, self.parens);
                            sub.ind = self.ind;
                            sub.expr(e, 0);
                            let t = sub.out;
                            if t.starts_with('{') || t.ends_with('}') {
                                let _ = write!(self.out, "{{({t})}}");
                            } else {
                                let _ = write!(self.out, "{{{t}}}");
                            }
                        }
                    }
                }
                self.out.push('"');
            }
            Expr::Assign(pl, v) => {
                let need = ctx > 0;
                if need {
                    self.out.push('(');
                }
                self.place(pl);
                self.out.push_str(" = ");
                self.expr(v, 1);
                if need {
                    self.out.push(')');
                }
            }
            Expr::Compound(pl, op, v) => {
                let need = ctx > 0;
                if need {
                    self.out.push('(');
                }
                self.place(pl);
                let _ = write!(self.out, " {}= ", op.sym());
                self.expr(v, 1);
                if need {
                    self.out.push(')');
                }
            }
        }
    }

    fn place(&mut self, pl: &Place) {
        self.out.push_str(&pl.var);
        for f in &pl.fields {
            let _ = write!(self.out, ".{f}");
        }
    }

    fn control(&mut self, e: &Expr) {
        match e {
            Expr::If(c, t, el) => {
                self.out.push_str("if ");
                self.head(c);
                self.out.push(' ');
                self.block(t);
                if let Some(el) = el {
                    self.out.push_str(" else ");
                    // `else if` chain when the else block is exactly one if-expression
                    if el.stmts.is_empty()
                        && matches!(el.tail.as_deref(), Some(Expr::If(..)))
                        && self.parens == Parens::Minimal
                    {
                        self.control(el.tail.as_deref().unwrap());
                    } else {
                        self.block(el);
                    }
                }
            }
            Expr::Match(s, arms) => {
                self.out.push_str("match ");
                self.head(s);
                self.out.push_str(" {");
                self.ind += 1;
                for a in arms {
                    self.nl();
                    match &a.variant {
                        None => self.out.push('_'),
                        Some(v) => {
                            self.out.push_str(v);
                            if !a.binds.is_empty() {
                                let _ = write!(self.out, "({})", a.binds.join(", "));
                            }
                        }
                    }
                    if let Some(g) = &a.guard {
                        self.out.push_str(" if ");
                        self.expr(g, 0);
                    }
                    self.out.push_str(" => ");
                    if !a.braces && a.body.stmts.is_empty() && a.body.tail.is_some() {
                        let t = a.body.tail.as_deref().unwrap();
                        // a tail that itself starts with `{` would be parsed as a block arm
                        if starts_with_brace(t) {
                            self.out.push('(');
                            self.expr(t, 0);
                            self.out.push(')');
                        } else {
                            self.expr(t, 0);
                        }
                        self.out.push(',');
                    } else {
                        self.block(&a.body);
                    }
                }
                self.ind -= 1;
                self.nl();
                self.out.push('}');
            }
            Expr::Block(b) => self.block(b),
            Expr::While(c, b) => {
                self.out.push_str("while ");
                self.head(c);
                self.out.push(' ');
                self.block(b);
            }
            Expr::For(v, l, b) => {
                let _ = write!(self.out, "for {v} in ");
                self.head(l);
                self.out.push(' ');
                self.block(b);
            }
            _ => unreachable!(),
        }
    }
}

/// does the printed form of `e` start with `{`?
fn starts_with_brace(e: &Expr) -> bool {
    match e {
        Expr::Block(b) => !(b.stmts.is_empty() && b.tail.is_none()),
        Expr::Record(None, _) => true,
        Expr::Field(a, _) | Expr::Try(a) | Expr::Method(a, _, _) => starts_with_brace(a),
        Expr::Bin(_, l, _) => starts_with_brace(l),
        _ => false,
    }
}

fn is_control(e: &Expr) -> bool {
    matches!(e, Expr::If(..) | Expr::Match(..) | Expr::Block(_) | Expr::While(..) | Expr::For(..))
}

/// does the printed form of `e` start with a control-flow keyword or `{`?
fn starts_with_control(e: &Expr) -> bool {
    match e {
        Expr::If(..) | Expr::Match(..) | Expr::Block(_) | Expr::While(..) | Expr::For(..) => true,
        Expr::Field(a, _) | Expr::Try(a) | Expr::Method(a, _, _) => starts_with_control(a),
        Expr::Bin(_, l, _) => starts_with_control(l),
        _ => false,
    }
}

pub fn escape_str(s: &str) -> String {
    let mut o = String::new();
    for c in s.chars() {
        match c {
            '\0' => o.push_str("\\0"),
            '\t' => o.push_str("\\t"),
            '\n' => o.push_str("\\n"),
            '\r' => o.push_str("\\r"),
            '"' => o.push_str("\\\""),
            '\\' => o.push_str("\\\\"),
            c if (c as u32) < 0x20 || c as u32 == 0x7f => {
                let _ = write!(o, "\\x{:02x}", c as u32);
            }
            c => o.push(c),
        }
    }
    o
}

pub fn escape_fstr(s: &str) -> String {
    escape_str(s).replace('{', "{{").replace('}', "}}")
}

pub fn str_lit(s: &str) -> String {
    format!("\"{}\"", escape_str(s))
}

pub fn char_lit(c: char) -> String {
    match c {
        '\0' => "'\\0'".into(),
        '\t' => "'\\t'".into(),
        '\n' => "'\\n'".into(),
        '\r' => "'\\r'".into(),
        '\'' => "'\\''".into(),
        '\\' => "'\\\\'".into(),
        c if (c as u32) < 0x20 || c as u32 == 0x7f => format!("'\\x{:02x}'", c as u32),
        c => format!("'{c}'"),
    }
}

pub fn print_program(p: &Program, parens: Parens) -> String {
    Printer::new(p, parens).program()
}
