//! Self-contained ill-typed snippets for C07.  Every snippet only uses names it
//! declares itself (prefix `zz`), so it is ill-typed under the documented typing
//! rules wherever it is placed: at the top of a generated function's body or in a
//! function of its own appended to a well-typed generated program.

use crate::core::Choices;

pub struct Snippet {
    pub kind: &'static str,
    /// top-level declarations the snippet needs (records, enums, functions)
    pub decls: String,
    /// statements (each ends with `;` or is a block statement)
    pub body: String,
    /// the snippet must live in a function of its own with this header suffix
    /// (e.g. "-> i32") and this tail expression
    pub own_fn: Option<(String, String)>,
    /// the snippet mentions the context variable `cx: i32` (compile with the context runtime)
    pub needs_ctx: bool,
}

const INTS: [&str; 8] = ["u8", "u16", "u32", "u64", "i8", "i16", "i32", "i64"];
const UNSIGNED: [&str; 4] = ["u8", "u16", "u32", "u64"];
const FLOATS: [&str; 2] = ["f32", "f64"];

fn num_ty(c: &mut Choices) -> &'static str {
    let k = c.below(10);
    if k < 8 { INTS[k] } else { FLOATS[k - 8] }
}

fn num_lit(t: &str, c: &mut Choices) -> String {
    let v = c.below(5);
    if t.starts_with('f') { format!("{v}.5{t}") } else { format!("{v}{t}") }
}

/// (type name, literal) of a non-numeric scalar-ish type
fn other(c: &mut Choices) -> (&'static str, &'static str) {
    [("bool", "true"), ("char", "'a'"), ("String", "\"a\""), ("()", "()")][c.below(4)]
}

/// two different types with a literal each
fn two_different(c: &mut Choices) -> ((String, String), (String, String)) {
    let a = num_ty(c);
    let la = num_lit(a, c);
    if c.chance(128) {
        let mut b = num_ty(c);
        if b == a {
            b = if a == "u8" { "i64" } else { "u8" };
        }
        let lb = num_lit(b, c);
        ((a.into(), la), (b.into(), lb))
    } else {
        let (b, lb) = other(c);
        ((a.into(), la), (b.into(), lb.into()))
    }
}

pub const N_SNIPPETS: usize = 44;

pub fn snippet(k: usize, c: &mut Choices) -> Snippet {
    let mut decls = String::new();
    let mut own_fn = None;
    let mut needs_ctx = false;
    let (kind, body): (&'static str, String) = match k % N_SNIPPETS {
        0 => {
            // a chain of un-annotated integer literals, one of them negated, all tied
            // together by arithmetic, finally forced to an unsigned type
            let n = 2 + c.below(4);
            let neg = c.below(n);
            let mut s = String::new();
            for i in 0..n {
                let v = 1 + c.below(9);
                if i == neg {
                    s.push_str(&format!("let zz{i} = -{v};\n"));
                } else {
                    s.push_str(&format!("let zz{i} = {v};\n"));
                }
            }
            // tie them together: a spanning chain in a random order, operands on random sides
            let mut order: Vec<usize> = (0..n).collect();
            for i in (1..n).rev() {
                let j = c.below(i + 1);
                order.swap(i, j);
            }
            let ops = ["+", "-", "*"];
            for w in 0..n - 1 {
                let (a, b) = (order[w], order[w + 1]);
                let (a, b) = if c.chance(128) { (a, b) } else { (b, a) };
                let op = ops[c.below(3)];
                if c.chance(100) {
                    s.push_str(&format!("let zzc{w} = zz{a} < zz{b};\n"));
                } else {
                    s.push_str(&format!("let zzs{w} = zz{a} {op} zz{b};\n"));
                }
            }
            let u = UNSIGNED[c.below(4)];
            let forced = c.below(n);
            s.push_str(&format!("let zzu: {u} = zz{forced};\n"));
            ("signedness-chain", s)
        }
        1 => {
            let ((_, la), (_, lb)) = two_different(c);
            ("if-branches-of-different-types", format!("let zz = if true {{ {la} }} else {{ {lb} }};\n"))
        }
        2 => {
            let ((_, la), (_, lb)) = two_different(c);
            ("match-arms-of-different-types", format!("let zzo: Option[i32] = Option.Some(1);\nlet zz = match zzo {{ Some(zzx) => {la}, None => {lb}, }};\n"))
        }
        3 => {
            let ((_, la), (_, lb)) = two_different(c);
            let op = ["+", "-", "*", "/", "<", "<=", ">", ">=", "==", "!="][c.below(10)];
            ("binary-operator-on-different-types", format!("let zz = {la} {op} {lb};\n"))
        }
        4 => {
            let ((_, la), (_, lb)) = two_different(c);
            let third = if c.chance(128) { format!(", {la}") } else { String::new() };
            ("list-literal-of-different-types", format!("let zz = [{la}, {lb}{third}];\n"))
        }
        5 => {
            let t = num_ty(c);
            let l = num_lit(t, c);
            let (_, ol) = other(c);
            let recv = if c.chance(128) { l } else { ol.to_string() };
            ("unknown-method", format!("let zz = ({recv}).zz_no_such_method();\n"))
        }
        6 => {
            let s = match c.below(4) {
                0 => "let zz: Option[i32] = Option.Some(1, 2);\n",
                1 => "let zz: Option[i32] = Option.None(1);\n",
                2 => "let zz: Option[i32] = Option.Zzvariant;\n",
                _ => "let zz: Result[i32, i32] = Result.Ok();\n",
            };
            ("constructor-arity-or-unknown-variant", s.to_string())
        }
        7 => {
            let ((ta, la), (_, lb)) = two_different(c);
            let s = if c.chance(128) || !(ta.starts_with('i') || ta.starts_with('u') || ta.starts_with('f')) {
                format!("let zz = {la};\nzz = {lb};\n")
            } else {
                let op = ["+=", "-=", "*="][c.below(3)];
                format!("let zz = {la};\nzz {op} {lb};\n")
            };
            ("assignment-of-another-type", s)
        }
        8 => {
            let ((ta, la), (_, lb)) = two_different(c);
            own_fn = Some((format!("-> {ta}"), la.clone()));
            ("return-of-another-type", format!("if false {{ return {lb}; }}\n"))
        }
        9 => {
            let t = num_ty(c);
            let l = num_lit(t, c);
            let (_, ol) = [("bool", "true"), ("char", "'a'"), ("()", "()")][c.below(3)];
            let it = if c.chance(128) { l } else { ol.to_string() };
            ("for-over-non-list", format!("for zzx in {it} {{ }}\n"))
        }
        10 => ("unknown-field-of-anonymous-record", "let zz = { a: 1 };\nlet zzb = zz.b;\n".to_string()),
        11 => ("record-in-f-string", "let zz = { a: 1 };\nlet zzs = f\"{zz}\";\n".to_string()),
        12 => {
            let t = num_ty(c);
            let l = num_lit(t, c);
            let s = match c.below(3) {
                0 => format!("let zz = {l} && true;\n"),
                1 => format!("let zz = false || {l};\n"),
                _ => "let zz = \"a\" && true;\n".to_string(),
            };
            ("logical-operator-on-non-bool", s)
        }
        13 => {
            let s = match c.below(4) {
                0 => format!("let zz: {} = 1.5;\n", INTS[c.below(8)]),
                1 => format!("let zz: {} = 1;\n", FLOATS[c.below(2)]),
                2 => format!("let zz: {} = 1;\n", ["bool", "char", "String"][c.below(3)]),
                _ => "let zz: i32 = 1.0f64;\n".to_string(),
            };
            ("literal-against-annotation", s)
        }
        14 => {
            // a variant covered twice while another one is missing, no default arm
            let s = match c.below(4) {
                0 => "let zzo: Option[i32] = Option.Some(1);\nlet zz = match zzo { Some(zzx) => 1, Some(zzy) => 2, };\n",
                1 => "let zzo: Option[i32] = Option.None;\nlet zz = match zzo { None => 1, None => 2, };\n",
                2 => "let zzo: Result[i32, bool] = Result.Ok(1);\nlet zz = match zzo { Ok(zzx) => 1, Ok(zzy) => 2, };\n",
                _ => {
                    decls.push_str("enum ZzE { ZzA(i32), ZzB, ZzC(bool) }\n");
                    "let zzo: ZzE = ZzE.ZzB;\nlet zz = match zzo { ZzA(zzx) => 1, ZzB => 2, ZzA(zzy) => 3, };\n"
                }
            };
            ("match-variant-twice-other-missing", s.to_string())
        }
        15 => {
            // guarded arms do not make a match exhaustive
            let s = match c.below(3) {
                0 => "let zzo: Option[i32] = Option.Some(1);\nlet zz = match zzo { Some(zzx) if true => 1, None => 2, };\n",
                1 => "let zzo: Option[i32] = Option.Some(1);\nlet zz = match zzo { Some(zzx) => 1, None if true => 2, };\n",
                _ => "let zzo: Option[i32] = Option.Some(1);\nlet zz = match zzo { Some(zzx) => 1, _ if true => 2, };\n",
            };
            ("match-only-guarded-arm-for-a-variant", s.to_string())
        }
        16 => {
            decls.push_str("record ZzR { a: i32, b: i32 }\nfn zz_takes(r: ZzR) -> i32 { r.b }\n");
            let s = match c.below(6) {
                0 => "let zz = zz_takes({ a: 1 });\n",
                1 => "let zz: ZzR = { a: 1 };\n",
                2 => "let zz: ZzR = { a: 1, b: 2, c: 3 };\n",
                3 => "let zz = zz_takes({ a: 1, b: 2, c: 3 });\n",
                4 => "let zz: ZzR = { b: 1 };\n",
                _ => "let zz: ZzR = { a: 1, c: 2 };\n",
            };
            ("anonymous-record-of-other-width-for-named-record", s.to_string())
        }
        17 => {
            let s = match c.below(4) {
                0 => "let zz: { a: i32, b: i32 } = { a: 1 };\n",
                1 => "let zz: { a: i32 } = { a: 1, b: 2 };\n",
                2 => "let zz: { a: i32, b: i32 } = { a: 1, c: 2 };\n",
                _ => "let zz: { a: i32, b: bool } = { a: 1, b: 2 };\n",
            };
            ("anonymous-record-against-annotation", s.to_string())
        }
        18 => {
            let s = match c.below(5) {
                0 => "let zz: Option[i32] = Option.Some(\"a\");\n",
                1 => "let zz: List[u8] = [1u16];\n",
                2 => "let zz: Result[i32, String] = Result.Ok(\"a\");\n",
                3 => "let zz: Option[Option[i32]] = Option.Some(1);\n",
                _ => "let zz: List[List[i32]] = [1];\n",
            };
            ("type-argument-mismatch", s.to_string())
        }
        19 => ("call-of-a-non-function", "let zz = 1;\nlet zzr = zz(2);\n".to_string()),
        20 => {
            decls.push_str("fn zz_callee(a: i32, b: bool) -> i32 { a }\n");
            let s = match c.below(4) {
                0 => "let zz = zz_callee(true, true);\n",
                1 => "let zz = zz_callee(1, 2);\n",
                2 => "let zz: bool = zz_callee(1, true);\n",
                _ => "let zz = zz_callee(1u8, true);\n",
            };
            ("script-call-with-wrong-types", s.to_string())
        }
        21 => {
            let s = match c.below(3) {
                0 => "let zz: i32 = { 1; };\n",
                1 => "let zz: i32 = if true { 1 };\n",
                _ => "let zz: i32 = { let zzi = 1; };\n",
            };
            ("unit-where-a-value-is-needed", s.to_string())
        }
        22 => {
            let t = num_ty(c);
            let l = num_lit(t, c);
            let s = if c.chance(128) { format!("let zz = \"a\" + {l};\n") } else { format!("let zz = {l} + \"a\";\n") };
            ("string-plus-number", s)
        }
        23 => {
            let s = match c.below(4) {
                0 => "let zz: i32 = Option.Some(1);\n",
                1 => "let zz: Option[i32] = 1;\n",
                2 => "let zz: i32? = 1;\n",
                _ => "let zz: List[i32] = 1;\n",
            };
            ("wrapper-against-plain", s.to_string())
        }
        24 => {
            let s = match c.below(3) {
                0 => "let zz: ZzNoSuchType = 1;\n",
                1 => "let zz: Option[ZzNoSuchType] = Option.None;\n",
                _ => "let zz: { a: ZzNoSuchType } = { a: 1 };\n",
            };
            ("undeclared-type", s.to_string())
        }
        25 => {
            let u = UNSIGNED[c.below(4)];
            let s = match c.below(4) {
                0 => format!("let zz: {u} = -1;\n"),
                1 => format!("let zzp: {u} = 1;\nlet zz = -zzp;\n"),
                2 => format!("let zz = -(1{u});\n"),
                _ => format!("let zzp = 1;\nlet zzq: {u} = zzp;\nlet zz = -zzp;\n"),
            };
            ("negation-of-unsigned", s)
        }
        26 => {
            let s = match c.below(3) {
                0 => "let zz = !1;\n".to_string(),
                1 => "let zz = !\"a\";\n".to_string(),
                _ => format!("let zz = !{};\n", num_lit(num_ty(c), c)),
            };
            ("not-on-non-bool", s)
        }
        27 => {
            decls.push_str("record ZzG[T] { x: T }\n");
            let s = match c.below(3) {
                0 => "let zz: ZzG[i32] = ZzG { x: true };\n",
                1 => "let zzg: ZzG[i32] = ZzG { x: 1 };\nlet zz: bool = zzg.x;\n",
                _ => "let zzg: ZzG[bool] = ZzG { x: true };\nlet zz: ZzG[i32] = zzg;\n",
            };
            ("generic-record-instantiated-differently", s.to_string())
        }
        28 => {
            decls.push_str("record ZzP { a: i32 }\nrecord ZzQ { a: i32 }\n");
            // also through a variable that was inferred from an anonymous record literal: once it has
            // been used as one named record it cannot be the other one any more
            decls.push_str("record ZzR { a: i32, b: String }\nrecord ZzS { b: String, a: i32 }\nfn zz_tp(x: ZzP) -> i32 { 1 }\nfn zz_tq(x: ZzQ) -> i32 { 2 }\nfn zz_tr(x: ZzR) -> i32 { 3 }\nfn zz_ts(x: ZzS) -> i32 { 4 }\n");
            let s = match c.below(8) {
                0 => "let zzp: ZzP = ZzP { a: 1 };\nlet zz: ZzQ = zzp;\n",
                1 => "let zzp: ZzP = ZzP { a: 1 };\nlet zzq: ZzQ = ZzQ { a: 1 };\nlet zz = zzp == zzq;\n",
                2 => "let zzr = { a: 1 };\nlet zzx: ZzP = zzr;\nlet zzy: ZzQ = zzr;\n",
                3 => "let zzr = { a: 1 };\nlet zz = zz_tp(zzr) + zz_tq(zzr);\n",
                4 => "let zzr = { a: 1, b: \"one\" };\nlet zz = zz_tr(zzr) + zz_ts(zzr);\n",
                5 => "let zzr = { b: \"one\", a: 1 };\nlet zzx: ZzS = zzr;\nlet zz = zz_tr(zzr);\n",
                6 => "let zzr = { a: 1 };\nlet zzx = zz_tq(zzr);\nlet zzy: ZzP = zzr;\n",
                _ => "let zzr = { a: 1 };\nlet zzq: ZzQ = ZzQ { a: 1 };\nlet zzb = zzr == zzq;\nlet zz = zz_tp(zzr);\n",
            };
            ("distinct-named-records-with-equal-fields", s.to_string())
        }
        30 => {
            // context variables are read-only
            needs_ctx = true;
            let s = match c.below(4) {
                0 => "cx = 1;\n",
                1 => "cx += 2;\n",
                2 => "cx -= 1;\n",
                _ => "let zz = cx;\ncx *= zz;\n",
            };
            ("assignment-to-a-context-variable", s.to_string())
        }
        31 => {
            // what leaves a function cannot stand in a constant initialiser
            let d = match c.below(5) {
                0 => "const ZZK: i32? = Option.Some(Option.Some(1)? + 1);\n",
                1 => "fn zz_find(x: i32) -> i32? { Option.Some(x) }\nconst ZZK: i32? = Option.Some(zz_find(0)? + 1);\n",
                2 => "const ZZK: i32 = { if true { accept }; 1 };\n",
                3 => "const ZZK: i32 = { if false { reject }; 1 };\n",
                _ => "const ZZK: i32 = { if true { return 2; }; 1 };\n",
            };
            decls.push_str(d);
            ("early-exit-in-a-constant-initialiser", "let zz = 1;\n".to_string())
        }
        32 => {
            // built-in methods and operators of generic types: receiver and arguments must agree
            decls.push_str("fn zz_ints() -> List[i32] { [1, 2] }\n");
            let s = match c.below(12) {
                0 => "let zz = [1, 2, 3].join(\", \");\n",
                1 => "let zz = zz_ints().join(\", \");\n",
                2 => "let zzl = [1, 2];\nlet zz = zzl.join(\"-\");\n",
                3 => "let zz = [1, 2].contains(\"a\");\n",
                4 => "let zzl = [1, 2];\nzzl.push(\"a\");\n",
                5 => "let zz = [1, 2].concat([\"a\"]);\n",
                6 => "let zz = [1, 2] + [\"a\"];\n",
                7 => "let zz = zz_ints().index(\"a\");\n",
                8 => "let zz: String? = zz_ints().get(0);\n",
                9 => "let zz = [\"a\", \"b\"].join(1);\n",
                10 => "let zz = zz_ints().swap(\"a\", 1);\n",
                _ => "let zz = \"abc\".contains(1);\n",
            };
            ("built-in-method-of-a-generic-type-with-other-types", s.to_string())
        }
        34 => {
            // a loop, an `if` without else or a short-circuit operator may not run the part that
            // leaves the function, so the body still needs a value of the return type at its end
            let d = match c.below(11) {
                0 => "fn zz_cond(c: bool) -> i32 { c && return 1; }\n",
                1 => "fn zz_cond(c: bool) -> i32 { c || return 1; }\n",
                2 => "fn zz_cond(c: bool) -> i32 { while c { return 1; } }\n",
                3 => "fn zz_cond(c: bool) -> i32 { for x in [1] { return x; } }\n",
                4 => "fn zz_cond(c: bool) -> i32 { if c { return 1; } }\n",
                5 => "fn zz_cond(c: bool) -> String { (c && return \"a\") || c; }\n",
                6 => "fn zz_cond(c: i32?) -> i32 { match c { Some(x) => { return x; } None => {} } }\n",
                8 => "fn zz_cond(c: i32?) -> i32 { match c { Some(x) if x > 100 => { } Some(x) => { return x; } None => { return 0; } }; }\n",
                9 => "fn zz_cond(c: i32?) -> String { match c { Some(x) => { return \"a\"; } _ if true => { } None => { return \"b\"; } } }\n",
                10 => "fn zz_cond(c: i32?) -> i32 { let zz = match c { Some(x) if x == 1 => { 7 } Some(x) => { return x; } None => { return 0; } }; }\n",
                _ => "fn zz_cond(c: bool) -> i32 { let zz = c && { return 1 }; }\n",
            };
            decls.push_str(d);
            ("no-final-value-after-a-conditional-exit", "let zz = 1;\n".to_string())
        }
        35 => {
            // only something that never produces a value fits where `!` is required
            let s = match c.below(9) {
                // `!` as the type of a field: only a field of type `!` (which has no value) fits
                4 => {
                    decls.push_str("fn zz_never(x: { zq: ! }) -> i32 { 1 }\n");
                    "let zz = zz_never({ zq: 2 });\n"
                }
                5 => {
                    decls.push_str("fn zz_never(x: { zq: !, zr: i32 }) -> i32 { 1 }\n");
                    "let zzr = { zr: 1, zq: \"a\" };\nlet zz = zz_never(zzr);\n"
                }
                6 => {
                    decls.push_str("record ZzN { zq: !, zr: i32 }\n");
                    "let zz = ZzN { zq: 2, zr: 1 };\n"
                }
                7 => {
                    decls.push_str("record ZzN { zq: ! }\nfn zz_never(x: ZzN) -> i32 { 1 }\n");
                    "let zzr = { zq: true };\nlet zz = zz_never(zzr);\n"
                }
                8 => {
                    decls.push_str("fn zz_never(x: { zq: Option[!] }) -> i32 { 1 }\n");
                    "let zz = zz_never({ zq: Option.Some(2) });\n"
                }
                0 => "let zz: ! = 0;\n",
                1 => "let zz: ! = \"a\";\n",
                2 => {
                    decls.push_str("fn zz_never(x: !) -> i32 { 1 }\n");
                    "let zz = zz_never(2);\n"
                }
                _ => {
                    decls.push_str("fn zz_never() -> ! { 5 }\n");
                    "let zz = 1;\n"
                }
            };
            ("value-where-the-never-type-is-required", s.to_string())
        }
        36 => {
            // ordering and arithmetic need numbers: every operator of the class on two operands
            // of one and the same non-numeric type
            let vals = ["true", "'a'", "\"a\"", "()", "{ a: 1 }", "[1]", "Option.Some(1)", "AS64512", "1.1.1.1", "10.0.0.0 / 8"];
            let v = vals[c.below(vals.len())];
            let ordering = c.chance(128);
            let op = if ordering {
                ["<", "<=", ">", ">="][c.below(4)]
            } else if v == "\"a\"" || v == "[1]" {
                // `+` joins strings and lists
                ["-", "*", "/", "%"][c.below(4)]
            } else if v == "1.1.1.1" {
                // address / length makes a prefix
                ["-", "*", "+", "%"][c.below(4)]
            } else {
                ["+", "-", "*", "/", "%"][c.below(5)]
            };
            let s = if c.chance(128) {
                format!("let zza = {v};\nlet zzb = {v};\nlet zz = zza {op} zzb;\n")
            } else {
                format!("let zz = ({v}) {op} ({v});\n")
            };
            (if ordering { "ordering-of-non-numbers" } else { "arithmetic-on-non-numbers" }, s)
        }
        37 => {
            // type arguments have to be equal: a generic type at one argument is another type
            // than the same generic type at another argument -- also when one of the two is `!`
            let args = ["u8", "u16", "u32", "u64", "i8", "i16", "i32", "i64", "f32", "f64", "bool", "char", "String", "()", "!", "Option[i32]", "List[u8]"];
            let a = args[c.below(args.len())];
            let mut b = args[c.below(args.len())];
            if a == b {
                b = if a == "!" { "i32" } else { "!" };
            }
            decls.push_str("record ZzBox[T] { zv: T, zn: i32 }\nenum ZzE[T] { ZzA, ZzB(T) }\n");
            let shapes: [(&str, &str); 11] = [
                ("Option[", "]"),
                ("List[", "]"),
                ("Result[", ", i32]"),
                ("Result[i32, ", "]"),
                ("Verdict[", ", u8]"),
                ("Verdict[u8, ", "]"),
                ("ZzBox[", "]"),
                ("ZzE[", "]"),
                ("Option[Option[", "]]"),
                ("List[Option[", "]]"),
                ("Option[ZzE[", "]]"),
            ];
            let (l, r) = shapes[c.below(shapes.len())];
            let (ta, tb) = (format!("{l}{a}{r}"), format!("{l}{b}{r}"));
            let s = match c.below(4) {
                0 => {
                    decls.push_str(&format!("fn zz_conv(x: {ta}) -> {tb} {{ x }}\n"));
                    "let zz = 1;\n".to_string()
                }
                1 => {
                    decls.push_str(&format!("fn zz_conv(x: {ta}) -> i32 {{ let zzy: {tb} = x; 1 }}\n"));
                    "let zz = 1;\n".to_string()
                }
                2 => {
                    decls.push_str(&format!("fn zz_take(x: {tb}) -> i32 {{ 1 }}\nfn zz_conv(x: {ta}) -> i32 {{ zz_take(x) }}\n"));
                    "let zz = 1;\n".to_string()
                }
                _ => {
                    decls.push_str(&format!("fn zz_conv(x: {ta}, y: {tb}) -> bool {{ x == y }}\n"));
                    "let zz = 1;\n".to_string()
                }
            };
            ("generic-type-at-another-type-argument", s)
        }
        38 => {
            // leaving an item without a value where a value is required, and with a value where
            // none is: a bare `return` / `accept` / `reject` stands for the unit value
            let t = num_ty(c);
            let v = num_lit(t, c);
            let (o, ov) = other(c);
            let o = if o == "()" { "String" } else { o };
            let ov = if o == "String" { "\"a\"" } else { ov };
            let d = match c.below(10) {
                0 => format!("fn zz_exit(x: {t}) -> {t} {{ if x > {v} {{ return; }} x }}\n"),
                1 => format!("filtermap zz_exit(x: {t}) {{ if x > {v} {{ accept x }} if x == {v} {{ accept }} reject }}\n"),
                2 => format!("filtermap zz_exit(x: {t}) {{ if x > {v} {{ reject x }} if x == {v} {{ reject }} accept }}\n"),
                3 => format!("fn zz_exit(x: {t}) -> Verdict[{t}, {o}] {{ if x > {v} {{ reject }} accept x }}\n"),
                4 => format!("fn zz_exit(x: {t}) -> Verdict[{o}, {t}] {{ if x > {v} {{ accept }} reject x }}\n"),
                5 => format!("fn zz_exit(x: {t}) -> Verdict[{t}, {o}] {{ if x > {v} {{ accept }} reject {ov} }}\n"),
                6 => format!("fn zz_exit(x: {t}) {{ if x > {v} {{ return x; }} }}\n"),
                7 => format!("fn zz_exit(x: {t}) -> Verdict[(), ()] {{ if x > {v} {{ accept x }} reject }}\n"),
                8 => format!("filtermap zz_exit(x: {t}) {{ if x > {v} {{ accept }} if x == {v} {{ accept {ov} }} reject }}\n"),
                _ => format!("fn zz_exit(x: {t}) -> {t}? {{ if x > {v} {{ return; }} Option.Some(x) }}\n"),
            };
            decls.push_str(&d);
            ("exit-without-the-required-value", "let zz = 1;\n".to_string())
        }
        39 => {
            // an interpolated value needs a method `to_string(self) -> String`
            let s = match c.below(6) {
                0 => "let zz = f\"v: {mkpad()}\";\n",
                1 => "let zzp = mkpad();\nlet zz = f\"{zzp} and {zzp}\";\n",
                2 => "let zz = f\"{mknum()}\";\n",
                3 => "let zzn = mknum();\nlet zz = \"a\" + f\"{zzn}\";\n",
                4 => "let zz = f\"{[1, 2]}\";\n",
                _ => "let zz = f\"{{ {Option.Some(1)} }}\";\n",
            };
            ("interpolation-of-a-value-without-a-fitting-to-string", s.to_string())
        }
        40 => {
            // the name a `let` declares is not in scope in its own initialiser, with or without an annotation
            let t = num_ty(c);
            let s = match c.below(8) {
                0 => format!("let zz: {t} = zz + {};\n", num_lit(t, c)),
                1 => "let zz = zz;\n".to_string(),
                2 => "let zz: String = zz;\n".to_string(),
                3 => format!("let zz: {t} = {{ zz }};\n"),
                4 => "let zz: bool = !zz;\n".to_string(),
                5 => format!("let zz: {t} = if true {{ zz }} else {{ {} }};\n", num_lit(t, c)),
                6 => format!("let zz: {t}? = Option.Some(zz);\n"),
                _ => "let zz: String = f\"{zz}\";\n".to_string(),
            };
            ("let-initialiser-mentions-the-variable-it-declares", s)
        }
        41 => {
            // `x op= e` stores `x op e` in x, so that value has to have x's type: an address divided by a
            // length is a prefix
            let s = match c.below(5) {
                0 => "let zz: IpAddr = 10.0.0.1;\nzz /= 24;\n",
                1 => "let zz = 10.0.0.1;\nzz /= 24u8;\n",
                2 => "let zz: IpAddr = ::1;\nzz /= 64;\n",
                3 => "let zzr = { ip: 10.0.0.1, n: 1 };\nzzr.ip /= 8;\n",
                _ => "let zz = 192.168.0.0;\nlet zzl: u8 = 16;\nzz /= zzl;\n",
            };
            ("compound-assignment-whose-result-has-another-type", s.to_string())
        }
        42 => {
            // nothing can be named through a type parameter: `T.nope` is an unknown name
            let d = match c.below(5) {
                0 => "record ZzP[T] {\n    x: T.nope,\n}\n",
                1 => "enum ZzE[T] {\n    A(T.nope.more),\n    B,\n}\n",
                2 => "record ZzQ[T] {\n    x: List[T.inner],\n}\n",
                3 => "record ZzR[A, B] {\n    a: A,\n    b: B.A,\n}\n",
                _ => "enum ZzF[T] {\n    A(T?),\n    B(T.T),\n}\n",
            };
            decls.push_str(d);
            ("name-after-a-type-parameter", "let zz = 1;\n".to_string())
        }
        43 => {
            // the concatenation of two lists is a list of their element type, nothing else
            let s = match c.below(6) {
                0 => "let zza = [1, 2];\nlet zzb = [3];\nlet zz: List[String] = zza + zzb;\n",
                1 => "let zza = [1];\nlet zz = zza + zza;\nzz.push(\"s\");\n",
                2 => "let zz: List[u8] = [\"a\"] + [\"b\"];\n",
                3 => "let zza: List[bool] = [true];\nlet zz: List[i64] = zza.concat(zza);\n",
                4 => "let zza = [1.5];\nlet zz = zza + zza;\nlet zzs: String = match zz.get(0) { Some(v) => v, None => \"n\" };\n",
                _ => "let zza = [\"x\"];\nlet zz = (zza + zza) == [1];\n",
            };
            ("concatenation-of-lists-at-another-element-type", s.to_string())
        }
        _ => {
            let s = match c.below(3) {
                0 => "let zz = 1;\nlet zzf = zz.zz_field;\n",
                1 => "let zz = 1;\nzz.zz_field = 2;\n",
                _ => "let zz = \"a\";\nlet zzf = zz.len;\n",
            };
            ("field-of-a-scalar", s.to_string())
        }
    };
    Snippet { kind, decls, body, own_fn, needs_ctx }
}
