//! Catalogue of the default runtime's built-ins: for each one a script function that
//! applies it to arguments passed from Rust, argument generators, and the expected
//! result computed with Rust's std / inetnum (C17).  C10(b) drives the same catalogue
//! with a wider argument domain and only requires survival.

use std::net::{IpAddr, Ipv4Addr, Ipv6Addr};

use inetnum::addr::Prefix;
use inetnum::asn::Asn;
use roto::{List, NoCtx, Package, RotoString, Runtime};

use crate::core::Choices;

#[derive(Clone, Copy, PartialEq, Eq)]
pub enum Mode {
    /// compare with the documented meaning (arguments inside the documented domain)
    Semantic,
    /// survival only (every argument of the parameter types, incl. invalid prefix lengths)
    Survive,
}

pub struct Ctx<'a, 'b> {
    pub pkg: &'a mut Package<NoCtx>,
    pub c: &'a mut Choices<'b>,
    pub mode: Mode,
    /// set by the entry: arguments contained a boundary-relevant value
    pub nontrivial: bool,
    pub sample: String,
}

pub type Res = Result<(), (String, String)>;

pub struct Builtin {
    pub name: &'static str,
    pub src: &'static str,
    pub run: fn(&mut Ctx) -> Res,
}

pub fn gen_string(c: &mut Choices) -> String {
    // (letters whose case mapping is not ASCII: other length, context-dependent, title case)
    const P: [&str; 21] = ["", "a", "b", "ab", "é", "日本", " ", "\n", "\r\n", "x y", "A", "ß", "\u{0301}", "\t", "É", "Ä", "ΑΣ", "İ", "ǅ", "ﬁ", "Ω"];
    let n = match c.below(5) {
        0 => 0,
        1 => 1,
        _ => c.below(7),
    };
    let mut s = String::new();
    for _ in 0..n {
        s.push_str(P[c.below(P.len())]);
    }
    // one string in eight is long: its byte length sits at or next to a power of two (small-string
    // thresholds, chunk sizes, inline buffers), made of a repeated piece after the random head
    if c.below(8) == 0 {
        const L: [usize; 17] = [15, 16, 17, 23, 24, 31, 32, 33, 63, 64, 65, 127, 128, 129, 255, 256, 1000];
        let target = L[c.below(L.len())];
        let piece = ["x", "ab", "é", "日", "q\n"][c.below(5)];
        while s.len() + piece.len() <= target {
            s.push_str(piece);
        }
        while s.len() < target {
            s.push('z');
        }
    }
    s
}

/// a needle related to the subject: substring, prefix, suffix, absent, empty
pub fn gen_needle(c: &mut Choices, subject: &str) -> String {
    let chars: Vec<char> = subject.chars().collect();
    match c.below(6) {
        0 => String::new(),
        1 if !chars.is_empty() => {
            let a = c.below(chars.len());
            let b = a + c.below(chars.len() - a + 1);
            chars[a..b].iter().collect()
        }
        2 if !chars.is_empty() => chars[..c.below(chars.len() + 1)].iter().collect(),
        3 if !chars.is_empty() => chars[c.below(chars.len() + 1)..].iter().collect(),
        4 => "zz".into(),
        _ => gen_string(c),
    }
}

pub fn gen_index(c: &mut Choices, len: usize) -> u64 {
    match c.below(9) {
        0 => 0,
        1 => 1,
        2 => len.saturating_sub(1) as u64,
        3 => len as u64,
        4 => len as u64 + 1,
        5 => u64::MAX,
        6 => (len / 2) as u64,
        _ => c.below(len + 3) as u64,
    }
}

pub fn gen_ip(c: &mut Choices) -> IpAddr {
    match c.below(8) {
        0 => IpAddr::V4(Ipv4Addr::UNSPECIFIED),
        1 => IpAddr::V4(Ipv4Addr::BROADCAST),
        2 => IpAddr::V4(Ipv4Addr::LOCALHOST),
        3 => IpAddr::V6(Ipv6Addr::UNSPECIFIED),
        4 => IpAddr::V6(Ipv6Addr::LOCALHOST),
        5 => IpAddr::V6(Ipv4Addr::from(c.u64() as u32).to_ipv6_mapped()),
        6 => IpAddr::V4(Ipv4Addr::from(c.u64() as u32)),
        _ => IpAddr::V6(Ipv6Addr::from(((c.u64() as u128) << 64) | c.u64() as u128)),
    }
}

fn rs(s: &str) -> RotoString {
    RotoString::from(s)
}

fn list_strings(l: &List<RotoString>) -> Vec<String> {
    l.to_vec().iter().map(|s| s.to_string()).collect()
}

macro_rules! get {
    ($cx:expr, $name:literal, $ty:ty) => {
        $cx.pkg.get_function::<$ty>($name).map_err(|e| (format!("get_function:{}", $name), format!("{e}")))?
    };
}

macro_rules! expect_eq {
    ($cx:expr, $name:literal, $got:expr, $exp:expr, $($arg:tt)*) => {{
        let got = $got;
        if $cx.mode == Mode::Semantic {
            let exp = $exp;
            if got != exp {
                return Err((format!("wrong-result:{}", $name), format!("{} returned {:?}, the documented meaning gives {:?}; arguments: {}", $name, got, exp, format!($($arg)*))));
            }
        }
        $cx.sample = format!("{}({}) = {:?}", $name, format!($($arg)*), got);
    }};
}

fn subject_nt(s: &str) -> bool {
    !s.is_ascii() || s.contains('\n')
}

pub fn catalogue() -> Vec<Builtin> {
    let mut v: Vec<Builtin> = Vec::new();
    // ---------------------------------------------------------------- String x String -> bool
    macro_rules! str_pred {
        ($name:literal, $src:literal, $f:expr) => {
            v.push(Builtin { name: $name, src: $src, run: |cx| {
                let s = gen_string(cx.c);
                let n = gen_needle(cx.c, &s);
                let f = get!(cx, $name, fn(RotoString, RotoString) -> bool);
                cx.nontrivial = subject_nt(&s);
                let g: fn(&str, &str) -> bool = $f;
                expect_eq!(cx, $name, f.call(rs(&s), rs(&n)), g(&s, &n), "{s:?}, {n:?}");
                Ok(())
            }});
        };
    }
    str_pred!("b_contains", "fn b_contains(s: String, n: String) -> bool { s.contains(n) }", |s, n| s.contains(n));
    str_pred!("b_starts_with", "fn b_starts_with(s: String, n: String) -> bool { s.starts_with(n) }", |s, n| s.starts_with(n));
    str_pred!("b_ends_with", "fn b_ends_with(s: String, n: String) -> bool { s.ends_with(n) }", |s, n| s.ends_with(n));
    str_pred!("b_eq", "fn b_eq(s: String, n: String) -> bool { s.eq(n) }", |s, n| s == n);
    str_pred!("b_eqop", "fn b_eqop(s: String, n: String) -> bool { s == n }", |s, n| s == n);
    str_pred!("b_neop", "fn b_neop(s: String, n: String) -> bool { s != n }", |s, n| s != n);
    // ---------------------------------------------------------------- String -> String
    macro_rules! str_map {
        ($name:literal, $src:literal, $f:expr) => {
            v.push(Builtin { name: $name, src: $src, run: |cx| {
                let s = gen_string(cx.c);
                let f = get!(cx, $name, fn(RotoString) -> RotoString);
                cx.nontrivial = subject_nt(&s);
                let g: fn(&str) -> String = $f;
                expect_eq!(cx, $name, f.call(rs(&s)).to_string(), g(&s), "{s:?}");
                Ok(())
            }});
        };
    }
    str_map!("b_lower", "fn b_lower(s: String) -> String { s.to_lowercase() }", |s| s.to_lowercase());
    str_map!("b_upper", "fn b_upper(s: String) -> String { s.to_uppercase() }", |s| s.to_uppercase());
    str_map!("b_trim", "fn b_trim(s: String) -> String { s.trim() }", |s| s.trim().to_string());
    str_map!("b_trim_start", "fn b_trim_start(s: String) -> String { s.trim_start() }", |s| s.trim_start().to_string());
    str_map!("b_trim_end", "fn b_trim_end(s: String) -> String { s.trim_end() }", |s| s.trim_end().to_string());
    str_map!("b_to_string", "fn b_to_string(s: String) -> String { s.to_string() }", |s| s.to_string());
    str_map!("b_fstr", "fn b_fstr(s: String) -> String { f\"<{s}>\" }", |s| format!("<{s}>"));
    // ---------------------------------------------------------------- String x String -> String
    macro_rules! str_bin {
        ($name:literal, $src:literal, $f:expr) => {
            v.push(Builtin { name: $name, src: $src, run: |cx| {
                let s = gen_string(cx.c);
                let n = gen_needle(cx.c, &s);
                let f = get!(cx, $name, fn(RotoString, RotoString) -> RotoString);
                cx.nontrivial = subject_nt(&s);
                let g: fn(&str, &str) -> String = $f;
                expect_eq!(cx, $name, f.call(rs(&s), rs(&n)).to_string(), g(&s, &n), "{s:?}, {n:?}");
                Ok(())
            }});
        };
    }
    str_bin!("b_append", "fn b_append(s: String, n: String) -> String { s.append(n) }", |s, n| format!("{s}{n}"));
    str_bin!("b_plus", "fn b_plus(s: String, n: String) -> String { s + n }", |s, n| format!("{s}{n}"));
    v.push(Builtin { name: "b_replace", src: "fn b_replace(s: String, a: String, b: String) -> String { s.replace(a, b) }", run: |cx| {
        let s = gen_string(cx.c);
        let a = gen_needle(cx.c, &s);
        let b = gen_string(cx.c);
        let f = get!(cx, "b_replace", fn(RotoString, RotoString, RotoString) -> RotoString);
        cx.nontrivial = subject_nt(&s);
        expect_eq!(cx, "b_replace", f.call(rs(&s), rs(&a), rs(&b)).to_string(), s.replace(&a, &b), "{s:?}, {a:?}, {b:?}");
        Ok(())
    }});
    v.push(Builtin { name: "b_repeat", src: "fn b_repeat(s: String, n: u64) -> String { s.repeat(n) }", run: |cx| {
        let s = gen_string(cx.c);
        // resource limits are documented as out of scope: keep len * n small
        let n = [0u64, 1, 2, 3, 1000][cx.c.below(5)];
        let n = if s.len() as u64 * n > (1 << 20) { 2 } else { n };
        let f = get!(cx, "b_repeat", fn(RotoString, u64) -> RotoString);
        cx.nontrivial = subject_nt(&s) || n == 0;
        expect_eq!(cx, "b_repeat", f.call(rs(&s), n).to_string(), s.repeat(n as usize), "{s:?}, {n}");
        Ok(())
    }});
    macro_rules! strip {
        ($name:literal, $src:literal, $f:expr) => {
            v.push(Builtin { name: $name, src: $src, run: |cx| {
                let s = gen_string(cx.c);
                let n = gen_needle(cx.c, &s);
                let f = get!(cx, $name, fn(RotoString, RotoString) -> Option<RotoString>);
                cx.nontrivial = subject_nt(&s);
                let g: fn(&str, &str) -> Option<String> = $f;
                expect_eq!(cx, $name, f.call(rs(&s), rs(&n)).map(|x| x.to_string()), g(&s, &n), "{s:?}, {n:?}");
                Ok(())
            }});
        };
    }
    strip!("b_strip_prefix", "fn b_strip_prefix(s: String, n: String) -> String? { s.strip_prefix(n) }", |s, n| s.strip_prefix(n).map(|x| x.to_string()));
    strip!("b_strip_suffix", "fn b_strip_suffix(s: String, n: String) -> String? { s.strip_suffix(n) }", |s, n| s.strip_suffix(n).map(|x| x.to_string()));
    v.push(Builtin { name: "b_split", src: "fn b_split(s: String, n: String) -> List[String] { s.split(n) }", run: |cx| {
        let s = gen_string(cx.c);
        let n = gen_needle(cx.c, &s);
        let f = get!(cx, "b_split", fn(RotoString, RotoString) -> List<RotoString>);
        cx.nontrivial = subject_nt(&s);
        expect_eq!(cx, "b_split", list_strings(&f.call(rs(&s), rs(&n))), s.split(n.as_str()).map(|x| x.to_string()).collect::<Vec<_>>(), "{s:?}, {n:?}");
        Ok(())
    }});
    macro_rules! splitn {
        ($name:literal, $src:literal, $f:expr) => {
            v.push(Builtin { name: $name, src: $src, run: |cx| {
                let s = gen_string(cx.c);
                let n = gen_needle(cx.c, &s);
                // the count only bounds the number of parts: huge counts are as cheap as small ones
                let k = [0u64, 1, 2, 3, 5, 1000, u64::MAX, 1 << 63, 1 << 32, (1 << 60) + 1][cx.c.below(10)];
                let f = get!(cx, $name, fn(RotoString, u64, RotoString) -> List<RotoString>);
                cx.nontrivial = subject_nt(&s) || k <= 1;
                let g: fn(&str, usize, &str) -> Vec<String> = $f;
                expect_eq!(cx, $name, list_strings(&f.call(rs(&s), k, rs(&n))), g(&s, k as usize, &n), "{s:?}, {k}, {n:?}");
                Ok(())
            }});
        };
    }
    splitn!("b_splitn", "fn b_splitn(s: String, k: u64, n: String) -> List[String] { s.splitn(k, n) }", |s, k, n| s.splitn(k, n).map(|x| x.to_string()).collect());
    splitn!("b_rsplitn", "fn b_rsplitn(s: String, k: u64, n: String) -> List[String] { s.rsplitn(k, n) }", |s, k, n| s.rsplitn(k, n).map(|x| x.to_string()).collect());
    v.push(Builtin { name: "b_from_chars", src: "fn b_from_chars(l: List[char]) -> String { String.from_chars(l) }", run: |cx| {
        let s = gen_string(cx.c);
        let l: List<char> = s.chars().collect();
        let f = get!(cx, "b_from_chars", fn(List<char>) -> RotoString);
        cx.nontrivial = subject_nt(&s);
        expect_eq!(cx, "b_from_chars", f.call(l).to_string(), s.clone(), "{s:?}");
        Ok(())
    }});
    v.push(Builtin { name: "b_join", src: "fn b_join(l: List[String], sep: String) -> String { l.join(sep) }", run: |cx| {
        let n = cx.c.below(4);
        let parts: Vec<String> = (0..n).map(|_| gen_string(cx.c)).collect();
        let sep = gen_string(cx.c);
        let l: List<RotoString> = parts.iter().map(|p| rs(p)).collect();
        let f = get!(cx, "b_join", fn(List<RotoString>, RotoString) -> RotoString);
        cx.nontrivial = n != 1;
        expect_eq!(cx, "b_join", f.call(l, rs(&sep)).to_string(), parts.join(&sep), "{parts:?}, {sep:?}");
        Ok(())
    }});
    // ---------------------------------------------------------------- lists
    v.push(Builtin { name: "l_swap_get", src: "fn l_swap_get(l: List[String], i: u64, j: u64, k: u64) -> String? { l.swap(i, j); l.get(k) }", run: |cx| {
        let n = [0usize, 1, 2, 3, 4, 5, 8][cx.c.below(7)];
        let mut parts: Vec<String> = (0..n).map(|i| format!("{}{i}", gen_string(cx.c))).collect();
        let l: List<RotoString> = parts.iter().map(|p| rs(p)).collect();
        let (i, j, k) = (gen_index(cx.c, n), gen_index(cx.c, n), gen_index(cx.c, n));
        let f = get!(cx, "l_swap_get", fn(List<RotoString>, u64, u64, u64) -> Option<RotoString>);
        cx.nontrivial = i as usize >= n.saturating_sub(1) || j as usize >= n.saturating_sub(1);
        if let (Ok(i), Ok(j)) = (usize::try_from(i), usize::try_from(j)) {
            if i < n && j < n {
                parts.swap(i, j);
            }
        }
        let exp = usize::try_from(k).ok().and_then(|k| parts.get(k).cloned());
        expect_eq!(cx, "l_swap_get", f.call(l.clone(), i, j, k).map(|x| x.to_string()), exp, "{n} elements, {i}, {j}, {k}");
        // the argument list is shared: the swap is visible through the Rust handle too
        expect_eq!(cx, "l_swap_get", list_strings(&l), parts.clone(), "{n} elements, {i}, {j}: contents after the call");
        Ok(())
    }});
    v.push(Builtin { name: "l_eq", src: "fn l_eq(a: List[String], b: List[String]) -> bool { a == b }\nfn l_ne(a: List[u64], b: List[u64]) -> bool { a != b }", run: |cx| {
        // lengths on both sides of each other, one list a prefix of the other or differing at one place
        let n = [0usize, 1, 2, 3, 4, 5, 8][cx.c.below(7)];
        let m = [0usize, 1, 2, 3, 4, 5, 8][cx.c.below(7)];
        let base: Vec<String> = (0..n.max(m)).map(|i| format!("{}{i}", gen_string(cx.c))).collect();
        let pa: Vec<String> = base[..n].to_vec();
        let mut pb: Vec<String> = base[..m].to_vec();
        if m > 0 && cx.c.chance(70) {
            let k = cx.c.below(m);
            pb[k].push('!');
        }
        let a: List<RotoString> = pa.iter().map(|p| rs(p)).collect();
        let b: List<RotoString> = pb.iter().map(|p| rs(p)).collect();
        let f = get!(cx, "l_eq", fn(List<RotoString>, List<RotoString>) -> bool);
        cx.nontrivial = n != m;
        expect_eq!(cx, "l_eq", f.call(a.clone(), b.clone()), pa == pb, "{pa:?} == {pb:?}");
        expect_eq!(cx, "l_eq", f.call(b.clone(), a.clone()), pa == pb, "{pb:?} == {pa:?}");
        expect_eq!(cx, "l_eq", f.call(a.clone(), a.clone()), true, "{pa:?} == itself");
        let na: Vec<u64> = (0..n as u64).collect();
        let mut nb: Vec<u64> = (0..m as u64).collect();
        if m > 0 && cx.c.chance(70) {
            let k = cx.c.below(m);
            nb[k] = u64::MAX;
        }
        let la: List<u64> = na.iter().copied().collect();
        let lb: List<u64> = nb.iter().copied().collect();
        let g = get!(cx, "l_ne", fn(List<u64>, List<u64>) -> bool);
        expect_eq!(cx, "l_eq", g.call(la.clone(), lb.clone()), na != nb, "{na:?} != {nb:?}");
        expect_eq!(cx, "l_eq", g.call(lb.clone(), la.clone()), na != nb, "{nb:?} != {na:?}");
        Ok(())
    }});
    v.push(Builtin { name: "l_push_len", src: "fn l_push_len(l: List[String], x: String, times: u64) -> u64 { let k = 0; while k < times { l.push(x); k = k + 1; } l.len() }", run: |cx| {
        let n = [0usize, 1, 3, 4, 7, 8][cx.c.below(6)];
        let mut parts: Vec<String> = (0..n).map(|_| gen_string(cx.c)).collect();
        let l: List<RotoString> = parts.iter().map(|p| rs(p)).collect();
        let x = gen_string(cx.c);
        let times = cx.c.below(10) as u64;
        let f = get!(cx, "l_push_len", fn(List<RotoString>, RotoString, u64) -> u64);
        cx.nontrivial = times > 0;
        for _ in 0..times {
            parts.push(x.clone());
        }
        expect_eq!(cx, "l_push_len", f.call(l.clone(), rs(&x), times), parts.len() as u64, "{n} elements, {x:?}, {times}");
        expect_eq!(cx, "l_push_len", list_strings(&l), parts.clone(), "{n} elements: contents after the pushes");
        Ok(())
    }});
    v.push(Builtin { name: "l_find", src: "fn l_find(l: List[String], x: String) -> u64? { if l.contains(x) { l.index(x) } else { if l.is_empty() { Option.None } else { Option.Some(l.len() + 1000) } } }", run: |cx| {
        let n = cx.c.below(6);
        let parts: Vec<String> = (0..n).map(|_| gen_string(cx.c)).collect();
        let l: List<RotoString> = parts.iter().map(|p| rs(p)).collect();
        let x = if n > 0 && cx.c.chance(160) { parts[cx.c.below(n)].clone() } else { gen_string(cx.c) };
        let f = get!(cx, "l_find", fn(List<RotoString>, RotoString) -> Option<u64>);
        cx.nontrivial = n > 1;
        let exp = match parts.iter().position(|p| *p == x) {
            Some(i) => Some(i as u64),
            None if n == 0 => None,
            None => Some(n as u64 + 1000),
        };
        expect_eq!(cx, "l_find", f.call(l, rs(&x)), exp, "{parts:?}, {x:?}");
        Ok(())
    }});
    v.push(Builtin { name: "l_concat", src: "fn l_concat(a: List[String], b: List[String], k: u64) -> String? { let c = a.concat(b) + a; c.get(k) }", run: |cx| {
        let (n, m) = (cx.c.below(5), cx.c.below(5));
        let pa: Vec<String> = (0..n).map(|i| format!("a{i}{}", gen_string(cx.c))).collect();
        let pb: Vec<String> = (0..m).map(|i| format!("b{i}{}", gen_string(cx.c))).collect();
        let (a, b): (List<RotoString>, List<RotoString>) = (pa.iter().map(|p| rs(p)).collect(), pb.iter().map(|p| rs(p)).collect());
        let k = gen_index(cx.c, 2 * n + m);
        let f = get!(cx, "l_concat", fn(List<RotoString>, List<RotoString>, u64) -> Option<RotoString>);
        cx.nontrivial = n + m > 0;
        let mut all = pa.clone();
        all.extend(pb.iter().cloned());
        all.extend(pa.iter().cloned());
        let exp = usize::try_from(k).ok().and_then(|k| all.get(k).cloned());
        expect_eq!(cx, "l_concat", f.call(a.clone(), b.clone(), k).map(|x| x.to_string()), exp, "{pa:?}, {pb:?}, {k}");
        expect_eq!(cx, "l_concat", (list_strings(&a), list_strings(&b)), (pa.clone(), pb.clone()), "operands after concat");
        Ok(())
    }});
    v.push(Builtin { name: "l_u64_swap_get", src: "fn l_u64_swap_get(l: List[u64], i: u64, j: u64, k: u64) -> u64? { l.swap(i, j); l.get(k) }", run: |cx| {
        let n = [0usize, 1, 2, 4, 5, 8, 9][cx.c.below(7)];
        let mut parts: Vec<u64> = (0..n).map(|i| 100 + i as u64).collect();
        let l: List<u64> = parts.iter().copied().collect();
        let (i, j, k) = (gen_index(cx.c, n), gen_index(cx.c, n), gen_index(cx.c, n));
        let f = get!(cx, "l_u64_swap_get", fn(List<u64>, u64, u64, u64) -> Option<u64>);
        cx.nontrivial = i as usize >= n.saturating_sub(1) || j as usize >= n.saturating_sub(1);
        if let (Ok(i), Ok(j)) = (usize::try_from(i), usize::try_from(j)) {
            if i < n && j < n {
                parts.swap(i, j);
            }
        }
        let exp = usize::try_from(k).ok().and_then(|k| parts.get(k).copied());
        expect_eq!(cx, "l_u64_swap_get", f.call(l.clone(), i, j, k), exp, "{n} elements, {i}, {j}, {k}");
        expect_eq!(cx, "l_u64_swap_get", l.to_vec(), parts.clone(), "contents after the call");
        Ok(())
    }});
    // lists whose elements take no room, and values of enums with a plain field in front of a string
    v.push(Builtin { name: "l_unit", src: "fn l_unit(n: u64, k: u64) -> u64 { let l: List[()] = []; let i = 0; while i < n { l.push(()); i = i + 1; } let m = l + l; (if l.contains(()) { 1 } else { 0 }) + (match l.index(()) { Some(p) => 10 + p, None => 0 }) + (if l == m { 100 } else { 0 }) + (match m.get(k) { Some(u) => 1000, None => 0 }) + m.len() * 10000 }\nenum LEv { Counted(u64, String), Named(String, u8, String), Bare }\nfn l_enum_drop(n: u64, s: String) -> u64 { let e = LEv.Counted(n, s); let f = LEv.Named(s, 7, s + s); let g = e; match g { Counted(k, t) => k + t.bytes().len(), Named(a, b, c) => 1, Bare => 2 } }", run: |cx| {
        let n = [0u64, 1, 2, 4, 5, 9][cx.c.below(6)];
        let k = gen_index(cx.c, 2 * n as usize);
        let f = get!(cx, "l_unit", fn(u64, u64) -> u64);
        cx.nontrivial = true;
        let exp = (if n > 0 { 1 } else { 0 }) + (if n > 0 { 10 } else { 0 }) + (if n == 0 { 100 } else { 0 }) + (if k < 2 * n { 1000 } else { 0 }) + 2 * n * 10000;
        expect_eq!(cx, "l_unit", f.call(n, k), exp, "{n}, {k}");
        let s = gen_string(cx.c);
        let g = get!(cx, "l_enum_drop", fn(u64, RotoString) -> u64);
        let x = cx.c.u64() % 1000;
        expect_eq!(cx, "l_enum_drop", g.call(x, rs(&s)), x + s.len() as u64, "{x}, {s:?}");
        Ok(())
    }});
    // ---------------------------------------------------------------- views
    v.push(Builtin { name: "b_bytes_len", src: "fn b_bytes_len(s: String) -> u64 { s.bytes().len() }", run: |cx| {
        let s = gen_string(cx.c);
        let f = get!(cx, "b_bytes_len", fn(RotoString) -> u64);
        cx.nontrivial = subject_nt(&s);
        expect_eq!(cx, "b_bytes_len", f.call(rs(&s)), s.len() as u64, "{s:?}");
        Ok(())
    }});
    v.push(Builtin { name: "b_bytes_get", src: "fn b_bytes_get(s: String, i: u64) -> char? { s.bytes().get(i) }", run: |cx| {
        let s = gen_string(cx.c);
        let i = gen_index(cx.c, s.len());
        let f = get!(cx, "b_bytes_get", fn(RotoString, u64) -> Option<char>);
        cx.nontrivial = subject_nt(&s);
        let exp = usize::try_from(i).ok().and_then(|i| s.get(i..)).and_then(|t| t.chars().next());
        expect_eq!(cx, "b_bytes_get", f.call(rs(&s), i), exp, "{s:?}, {i}");
        Ok(())
    }});
    v.push(Builtin { name: "b_bytes_slice", src: "fn b_bytes_slice(s: String, i: u64, j: u64) -> String? { s.bytes().slice(i, j) }", run: |cx| {
        let s = gen_string(cx.c);
        let (i, j) = (gen_index(cx.c, s.len()), gen_index(cx.c, s.len()));
        let f = get!(cx, "b_bytes_slice", fn(RotoString, u64, u64) -> Option<RotoString>);
        cx.nontrivial = subject_nt(&s);
        let exp = match (usize::try_from(i), usize::try_from(j)) {
            (Ok(i), Ok(j)) if i <= j => s.get(i..j).map(|x| x.to_string()),
            _ => None,
        };
        expect_eq!(cx, "b_bytes_slice", f.call(rs(&s), i, j).map(|x| x.to_string()), exp, "{s:?}, {i}, {j}");
        Ok(())
    }});
    v.push(Builtin { name: "b_bytes_list", src: "fn b_bytes_list(s: String) -> List[u8] { s.bytes().list() }", run: |cx| {
        let s = gen_string(cx.c);
        let f = get!(cx, "b_bytes_list", fn(RotoString) -> List<u8>);
        cx.nontrivial = subject_nt(&s);
        expect_eq!(cx, "b_bytes_list", f.call(rs(&s)).to_vec(), s.as_bytes().to_vec(), "{s:?}");
        Ok(())
    }});
    v.push(Builtin { name: "b_chars_len", src: "fn b_chars_len(s: String) -> u64 { s.chars().len() }", run: |cx| {
        let s = gen_string(cx.c);
        let f = get!(cx, "b_chars_len", fn(RotoString) -> u64);
        cx.nontrivial = subject_nt(&s);
        expect_eq!(cx, "b_chars_len", f.call(rs(&s)), s.chars().count() as u64, "{s:?}");
        Ok(())
    }});
    v.push(Builtin { name: "b_chars_get", src: "fn b_chars_get(s: String, i: u64) -> char? { s.chars().get(i) }", run: |cx| {
        let s = gen_string(cx.c);
        let i = gen_index(cx.c, s.chars().count());
        let f = get!(cx, "b_chars_get", fn(RotoString, u64) -> Option<char>);
        cx.nontrivial = subject_nt(&s);
        expect_eq!(cx, "b_chars_get", f.call(rs(&s), i), usize::try_from(i).ok().and_then(|i| s.chars().nth(i)), "{s:?}, {i}");
        Ok(())
    }});
    v.push(Builtin { name: "b_chars_slice", src: "fn b_chars_slice(s: String, i: u64, j: u64) -> String? { s.chars().slice(i, j) }", run: |cx| {
        let s = gen_string(cx.c);
        let n = s.chars().count();
        let (i, j) = (gen_index(cx.c, n), gen_index(cx.c, n));
        let f = get!(cx, "b_chars_slice", fn(RotoString, u64, u64) -> Option<RotoString>);
        cx.nontrivial = subject_nt(&s);
        let exp = match (usize::try_from(i), usize::try_from(j)) {
            (Ok(i), Ok(j)) if i <= j && j <= n => Some(s.chars().skip(i).take(j - i).collect::<String>()),
            _ => None,
        };
        expect_eq!(cx, "b_chars_slice", f.call(rs(&s), i, j).map(|x| x.to_string()), exp, "{s:?}, {i}, {j}");
        Ok(())
    }});
    v.push(Builtin { name: "b_chars_list", src: "fn b_chars_list(s: String) -> List[char] { s.chars().list() }", run: |cx| {
        let s = gen_string(cx.c);
        let f = get!(cx, "b_chars_list", fn(RotoString) -> List<char>);
        cx.nontrivial = subject_nt(&s);
        expect_eq!(cx, "b_chars_list", f.call(rs(&s)).to_vec(), s.chars().collect::<Vec<_>>(), "{s:?}");
        Ok(())
    }});
    v.push(Builtin { name: "b_lines_len", src: "fn b_lines_len(s: String) -> u64 { s.lines().len() }", run: |cx| {
        let s = gen_string(cx.c);
        let f = get!(cx, "b_lines_len", fn(RotoString) -> u64);
        cx.nontrivial = subject_nt(&s);
        expect_eq!(cx, "b_lines_len", f.call(rs(&s)), s.lines().count() as u64, "{s:?}");
        Ok(())
    }});
    v.push(Builtin { name: "b_lines_list", src: "fn b_lines_list(s: String) -> List[String] { s.lines().list() }", run: |cx| {
        let s = gen_string(cx.c);
        let f = get!(cx, "b_lines_list", fn(RotoString) -> List<RotoString>);
        cx.nontrivial = subject_nt(&s);
        expect_eq!(cx, "b_lines_list", list_strings(&f.call(rs(&s))), s.lines().map(|x| x.to_string()).collect::<Vec<_>>(), "{s:?}");
        Ok(())
    }});
    v.push(Builtin { name: "b_lines_slice", src: "fn b_lines_slice(s: String, i: u64, j: u64) -> String? { s.lines().slice(i, j) }", run: |cx| {
        let s = gen_string(cx.c);
        let items: Vec<&str> = s.split_inclusive('\n').collect();
        let n = items.len();
        let (i, j) = (gen_index(cx.c, n), gen_index(cx.c, n));
        let f = get!(cx, "b_lines_slice", fn(RotoString, u64, u64) -> Option<RotoString>);
        cx.nontrivial = subject_nt(&s);
        let got = f.call(rs(&s), i, j).map(|x| x.to_string());
        // contested corner (pinned by the repository's own unit test): slices that start at the line count
        if i as usize as u64 == i && i as usize == n && cx.mode == Mode::Semantic {
            cx.sample = format!("b_lines_slice({s:?}, {i}, {j}) = {got:?} (start == line count: not judged)");
            return Ok(());
        }
        let exp = match (usize::try_from(i), usize::try_from(j)) {
            (Ok(i), Ok(j)) if i <= j && j <= n => Some(items[i..j].concat()),
            _ => None,
        };
        expect_eq!(cx, "b_lines_slice", got, exp, "{s:?}, {i}, {j}");
        Ok(())
    }});
    v.push(Builtin { name: "b_lines_get", src: "fn b_lines_get(s: String, i: u64) -> String? { s.lines().get(i) }", run: |cx| {
        // documented: "Get the nth line in this string"
        let s = gen_string(cx.c);
        let i = gen_index(cx.c, s.lines().count());
        let f = get!(cx, "b_lines_get", fn(RotoString, u64) -> Option<RotoString>);
        cx.nontrivial = subject_nt(&s);
        expect_eq!(cx, "b_lines_get", f.call(rs(&s), i).map(|x| x.to_string()), usize::try_from(i).ok().and_then(|i| s.lines().nth(i)).map(|x| x.to_string()), "{s:?}, {i}");
        Ok(())
    }});
    // ---------------------------------------------------------------- StringBuf
    v.push(Builtin { name: "b_stringbuf_reuse", src: "fn b_stringbuf_reuse(a: String, b: char, c: String) -> String {\n    let buf = StringBuf.new();\n    buf.push_string(a);\n    let first = buf.as_string();\n    buf.push_char(b);\n    let second = buf.as_string();\n    buf.push_string(c);\n    first + \"|\" + second + \"|\" + buf.as_string() + \"|\" + buf.as_string()\n}", run: |cx| {
        let (a, c2) = (gen_string(cx.c), gen_string(cx.c));
        let b = ['a', 'é', '日', '\n', '\0'][cx.c.below(5)];
        let f = get!(cx, "b_stringbuf_reuse", fn(RotoString, char, RotoString) -> RotoString);
        cx.nontrivial = true;
        expect_eq!(cx, "b_stringbuf_reuse", f.call(rs(&a), b, rs(&c2)).to_string(), format!("{a}|{a}{b}|{a}{b}{c2}|{a}{b}{c2}"), "{a:?}, {b:?}, {c2:?}");
        Ok(())
    }});
    v.push(Builtin { name: "b_stringbuf_pushes", src: "fn b_stringbuf_pushes(a: String, b: String, c: String) -> String {\n    let buf = StringBuf.new();\n    buf.push_string(a);\n    buf.push_string(b);\n    buf.push_string(c);\n    let other = StringBuf.from(c);\n    other.push_string(a);\n    other.push_string(b);\n    buf.as_string() + \"|\" + other.as_string()\n}", run: |cx| {
        // strings pushed one right after the other, nothing read in between: short after long, long after short
        let (a, b, c2) = (gen_string(cx.c), gen_string(cx.c), gen_string(cx.c));
        let f = get!(cx, "b_stringbuf_pushes", fn(RotoString, RotoString, RotoString) -> RotoString);
        cx.nontrivial = a.len() >= 15 || b.len() >= 15 || c2.len() >= 15;
        expect_eq!(cx, "b_stringbuf_pushes", f.call(rs(&a), rs(&b), rs(&c2)).to_string(), format!("{a}{b}{c2}|{c2}{a}{b}"), "{a:?}, {b:?}, {c2:?}");
        Ok(())
    }});
    v.push(Builtin { name: "b_stringbuf", src: "fn b_stringbuf(a: String, b: char, c: String) -> String {\n    let buf = StringBuf.from(a);\n    buf.push_char(b);\n    buf.push_string(c);\n    let other = StringBuf.new();\n    other.push_string(buf.as_string());\n    other.push_char(b);\n    other.as_string()\n}", run: |cx| {
        let (a, c2) = (gen_string(cx.c), gen_string(cx.c));
        let b = ['a', 'é', '日', '\n', '\0'][cx.c.below(5)];
        let f = get!(cx, "b_stringbuf", fn(RotoString, char, RotoString) -> RotoString);
        cx.nontrivial = !b.is_ascii() || subject_nt(&a);
        expect_eq!(cx, "b_stringbuf", f.call(rs(&a), b, rs(&c2)).to_string(), format!("{a}{b}{c2}{b}"), "{a:?}, {b:?}, {c2:?}");
        Ok(())
    }});
    // ---------------------------------------------------------------- to_string of primitives
    macro_rules! to_string_of {
        ($name:literal, $src:literal, $t:ty, $gen:expr) => {
            v.push(Builtin { name: $name, src: $src, run: |cx| {
                let g: fn(&mut Choices) -> $t = $gen;
                let x = g(cx.c);
                let f = get!(cx, $name, fn($t) -> RotoString);
                cx.nontrivial = true;
                expect_eq!(cx, $name, f.call(x).to_string(), format!("{x}"), "{x:?}");
                Ok(())
            }});
        };
    }
    fn gi<T: TryFrom<i128> + Copy>(c: &mut Choices, min: i128, max: i128) -> T {
        let v = match c.below(6) {
            0 => 0,
            1 => min,
            2 => max,
            3 => min + 1,
            4 => max - 1,
            _ => min + ((c.u64() as i128).rem_euclid(max - min + 1)),
        };
        T::try_from(v).ok().unwrap()
    }
    to_string_of!("ts_u8", "fn ts_u8(x: u8) -> String { x.to_string() }", u8, |c| gi(c, 0, u8::MAX as i128));
    to_string_of!("ts_u16", "fn ts_u16(x: u16) -> String { x.to_string() }", u16, |c| gi(c, 0, u16::MAX as i128));
    to_string_of!("ts_u32", "fn ts_u32(x: u32) -> String { x.to_string() }", u32, |c| gi(c, 0, u32::MAX as i128));
    to_string_of!("ts_u64", "fn ts_u64(x: u64) -> String { x.to_string() }", u64, |c| gi(c, 0, u64::MAX as i128));
    to_string_of!("ts_i8", "fn ts_i8(x: i8) -> String { x.to_string() }", i8, |c| gi(c, i8::MIN as i128, i8::MAX as i128));
    to_string_of!("ts_i16", "fn ts_i16(x: i16) -> String { x.to_string() }", i16, |c| gi(c, i16::MIN as i128, i16::MAX as i128));
    to_string_of!("ts_i32", "fn ts_i32(x: i32) -> String { f\"{x}\" }", i32, |c| gi(c, i32::MIN as i128, i32::MAX as i128));
    to_string_of!("ts_i64", "fn ts_i64(x: i64) -> String { x.to_string() }", i64, |c| gi(c, i64::MIN as i128, i64::MAX as i128));
    to_string_of!("ts_bool", "fn ts_bool(x: bool) -> String { x.to_string() }", bool, |c| c.chance(128));
    to_string_of!("ts_char", "fn ts_char(x: char) -> String { x.to_string() }", char, |c| ['a', 'é', '日', '\n', '\0', '\u{10FFFF}'][c.below(6)]);
    fn gf64(c: &mut Choices) -> f64 {
        match c.below(12) {
            0 => 0.0,
            1 => -0.0,
            2 => 1.0,
            3 => f64::INFINITY,
            4 => f64::NEG_INFINITY,
            5 => f64::NAN,
            6 => f64::MIN_POSITIVE,
            7 => f64::MAX,
            8 => 0.5,
            9 => -2.5,
            10 => 1e21,
            _ => f64::from_bits(c.u64()),
        }
    }
    fn gf32(c: &mut Choices) -> f32 {
        match c.below(12) {
            0 => 0.0,
            1 => -0.0,
            2 => 1.0,
            3 => f32::INFINITY,
            4 => f32::NEG_INFINITY,
            5 => f32::NAN,
            6 => f32::MIN_POSITIVE,
            7 => f32::MAX,
            8 => 0.5,
            9 => -2.5,
            10 => 1.5e-40,
            _ => f32::from_bits(c.u64() as u32),
        }
    }
    to_string_of!("ts_f32", "fn ts_f32(x: f32) -> String { x.to_string() }", f32, gf32);
    to_string_of!("ts_f64", "fn ts_f64(x: f64) -> String { f\"{x}\" }", f64, gf64);
    to_string_of!("ts_ip", "fn ts_ip(x: IpAddr) -> String { x.to_string() }", IpAddr, gen_ip);
    to_string_of!("ts_asn", "fn ts_asn(x: Asn) -> String { x.to_string() }", Asn, |c| Asn::from_u32(c.u64() as u32));
    to_string_of!("ts_prefix", "fn ts_prefix(x: Prefix) -> String { x.to_string() }", Prefix, |c| {
        let ip = gen_ip(c);
        let max = if ip.is_ipv4() { 32 } else { 128 };
        Prefix::new_relaxed(ip, c.below(max + 1) as u8).unwrap()
    });
    // ---------------------------------------------------------------- float methods
    macro_rules! float_unary {
        ($name:literal, $src:literal, $t:ty, $gen:expr, $f:expr) => {
            v.push(Builtin { name: $name, src: $src, run: |cx| {
                let x: $t = $gen(cx.c);
                let f = get!(cx, $name, fn($t) -> $t);
                cx.nontrivial = x.fract() != 0.0 || !x.is_finite();
                let g: fn($t) -> $t = $f;
                let (got, exp) = (f.call(x), g(x));
                let same = (got.is_nan() && exp.is_nan()) || got.to_bits() == exp.to_bits();
                if cx.mode == Mode::Semantic && !same {
                    return Err((format!("wrong-result:{}", $name), format!("{}({x:?}) returned {got:?}, Rust gives {exp:?}", $name)));
                }
                cx.sample = format!("{}({x:?}) = {got:?}", $name);
                Ok(())
            }});
        };
    }
    float_unary!("f64_floor", "fn f64_floor(x: f64) -> f64 { x.floor() }", f64, gf64, |x| x.floor());
    float_unary!("f64_ceil", "fn f64_ceil(x: f64) -> f64 { x.ceil() }", f64, gf64, |x| x.ceil());
    float_unary!("f64_round", "fn f64_round(x: f64) -> f64 { x.round() }", f64, gf64, |x| x.round());
    float_unary!("f64_abs", "fn f64_abs(x: f64) -> f64 { x.abs() }", f64, gf64, |x| x.abs());
    float_unary!("f64_sqrt", "fn f64_sqrt(x: f64) -> f64 { x.sqrt() }", f64, gf64, |x| x.sqrt());
    float_unary!("f32_floor", "fn f32_floor(x: f32) -> f32 { x.floor() }", f32, gf32, |x| x.floor());
    float_unary!("f32_ceil", "fn f32_ceil(x: f32) -> f32 { x.ceil() }", f32, gf32, |x| x.ceil());
    float_unary!("f32_round", "fn f32_round(x: f32) -> f32 { x.round() }", f32, gf32, |x| x.round());
    float_unary!("f32_abs", "fn f32_abs(x: f32) -> f32 { x.abs() }", f32, gf32, |x| x.abs());
    float_unary!("f32_sqrt", "fn f32_sqrt(x: f32) -> f32 { x.sqrt() }", f32, gf32, |x| x.sqrt());
    v.push(Builtin { name: "f64_pow", src: "fn f64_pow(x: f64, y: f64) -> f64 { x.pow(y) }", run: |cx| {
        let (x, y) = (gf64(cx.c), gf64(cx.c));
        let f = get!(cx, "f64_pow", fn(f64, f64) -> f64);
        let (got, exp) = (f.call(x, y), x.powf(y));
        cx.nontrivial = true;
        if cx.mode == Mode::Semantic && !((got.is_nan() && exp.is_nan()) || got.to_bits() == exp.to_bits()) {
            return Err(("wrong-result:f64_pow".into(), format!("f64_pow({x:?}, {y:?}) returned {got:?}, Rust gives {exp:?}")));
        }
        cx.sample = format!("f64_pow({x:?}, {y:?}) = {got:?}");
        Ok(())
    }});
    v.push(Builtin { name: "f32_pow", src: "fn f32_pow(x: f32, y: f32) -> f32 { x.pow(y) }", run: |cx| {
        let (x, y) = (gf32(cx.c), gf32(cx.c));
        let f = get!(cx, "f32_pow", fn(f32, f32) -> f32);
        let (got, exp) = (f.call(x, y), x.powf(y));
        cx.nontrivial = true;
        if cx.mode == Mode::Semantic && !((got.is_nan() && exp.is_nan()) || got.to_bits() == exp.to_bits()) {
            return Err(("wrong-result:f32_pow".into(), format!("f32_pow({x:?}, {y:?}) returned {got:?}, Rust gives {exp:?}")));
        }
        cx.sample = format!("f32_pow({x:?}, {y:?}) = {got:?}");
        Ok(())
    }});
    macro_rules! float_pred {
        ($name:literal, $src:literal, $t:ty, $gen:expr, $f:expr) => {
            v.push(Builtin { name: $name, src: $src, run: |cx| {
                let x: $t = $gen(cx.c);
                let f = get!(cx, $name, fn($t) -> bool);
                cx.nontrivial = !x.is_finite();
                let g: fn($t) -> bool = $f;
                expect_eq!(cx, $name, f.call(x), g(x), "{x:?}");
                Ok(())
            }});
        };
    }
    float_pred!("f64_is_nan", "fn f64_is_nan(x: f64) -> bool { x.is_nan() }", f64, gf64, |x| x.is_nan());
    float_pred!("f64_is_infinite", "fn f64_is_infinite(x: f64) -> bool { x.is_infinite() }", f64, gf64, |x| x.is_infinite());
    float_pred!("f64_is_finite", "fn f64_is_finite(x: f64) -> bool { x.is_finite() }", f64, gf64, |x| x.is_finite());
    float_pred!("f32_is_nan", "fn f32_is_nan(x: f32) -> bool { x.is_nan() }", f32, gf32, |x| x.is_nan());
    float_pred!("f32_is_infinite", "fn f32_is_infinite(x: f32) -> bool { x.is_infinite() }", f32, gf32, |x| x.is_infinite());
    float_pred!("f32_is_finite", "fn f32_is_finite(x: f32) -> bool { x.is_finite() }", f32, gf32, |x| x.is_finite());
    // ---------------------------------------------------------------- IpAddr / Prefix
    v.push(Builtin { name: "ip_eq", src: "fn ip_eq(a: IpAddr, b: IpAddr) -> bool { a.eq(b) && a == b }", run: |cx| {
        let a = gen_ip(cx.c);
        let b = if cx.c.chance(100) { a } else { gen_ip(cx.c) };
        let f = get!(cx, "ip_eq", fn(IpAddr, IpAddr) -> bool);
        cx.nontrivial = a.is_ipv6() != b.is_ipv6() || a == b;
        expect_eq!(cx, "ip_eq", f.call(a, b), a == b, "{a}, {b}");
        Ok(())
    }});
    v.push(Builtin { name: "ip_is_ipv4", src: "fn ip_is_ipv4(a: IpAddr) -> bool { a.is_ipv4() }", run: |cx| {
        let a = gen_ip(cx.c);
        let f = get!(cx, "ip_is_ipv4", fn(IpAddr) -> bool);
        cx.nontrivial = true;
        expect_eq!(cx, "ip_is_ipv4", f.call(a), a.is_ipv4(), "{a}");
        Ok(())
    }});
    v.push(Builtin { name: "ip_is_ipv6", src: "fn ip_is_ipv6(a: IpAddr) -> bool { a.is_ipv6() }", run: |cx| {
        let a = gen_ip(cx.c);
        let f = get!(cx, "ip_is_ipv6", fn(IpAddr) -> bool);
        cx.nontrivial = true;
        expect_eq!(cx, "ip_is_ipv6", f.call(a), a.is_ipv6(), "{a}");
        Ok(())
    }});
    v.push(Builtin { name: "ip_to_canonical", src: "fn ip_to_canonical(a: IpAddr) -> IpAddr { a.to_canonical() }", run: |cx| {
        let a = gen_ip(cx.c);
        let f = get!(cx, "ip_to_canonical", fn(IpAddr) -> IpAddr);
        cx.nontrivial = a.to_canonical() != a;
        expect_eq!(cx, "ip_to_canonical", f.call(a), a.to_canonical(), "{a}");
        Ok(())
    }});
    v.push(Builtin { name: "ip_localhost", src: "fn ip_localhost(v6: bool) -> IpAddr { if v6 { IpAddr.LOCALHOSTV6 } else { IpAddr.LOCALHOSTV4 } }", run: |cx| {
        let v6 = cx.c.chance(128);
        let f = get!(cx, "ip_localhost", fn(bool) -> IpAddr);
        cx.nontrivial = true;
        expect_eq!(cx, "ip_localhost", f.call(v6), if v6 { IpAddr::V6(Ipv6Addr::LOCALHOST) } else { IpAddr::V4(Ipv4Addr::LOCALHOST) }, "{v6}");
        Ok(())
    }});
    v.push(Builtin { name: "prefix_new", src: "fn prefix_new(a: IpAddr, l: u8) -> Prefix { Prefix.new(a, l) }", run: |cx| {
        let a = gen_ip(cx.c);
        let max = if a.is_ipv4() { 32u8 } else { 128 };
        // Semantic: lengths valid for the family; Survive: the whole u8 domain
        let l = if cx.mode == Mode::Semantic { [0, 1, max / 2, max - 1, max][cx.c.below(5)] } else { [0, 1, max, max + 1, 200, 255, cx.c.byte()][cx.c.below(7)] };
        let f = get!(cx, "prefix_new", fn(IpAddr, u8) -> Prefix);
        cx.nontrivial = l == 0 || l >= max;
        if l > max {
            eprintln!("@@ctx prefix-length-out-of-range");
        }
        let got = f.call(a, l);
        if cx.mode == Mode::Semantic {
            let exp = Prefix::new_relaxed(a, l).unwrap();
            if got != exp {
                return Err(("wrong-result:prefix_new".into(), format!("Prefix.new({a}, {l}) returned {got}, inetnum gives {exp}")));
            }
        }
        cx.sample = format!("Prefix.new({a}, {l}) = {got}");
        Ok(())
    }});
    v.push(Builtin { name: "prefix_div", src: "fn prefix_div(a: IpAddr, l: u8) -> Prefix { a / l }", run: |cx| {
        let a = gen_ip(cx.c);
        let max = if a.is_ipv4() { 32u8 } else { 128 };
        let l = if cx.mode == Mode::Semantic { [0, 1, max / 2, max - 1, max][cx.c.below(5)] } else { [0, 1, max, max + 1, 200, 255, cx.c.byte()][cx.c.below(7)] };
        let f = get!(cx, "prefix_div", fn(IpAddr, u8) -> Prefix);
        cx.nontrivial = l == 0 || l >= max;
        if l > max {
            eprintln!("@@ctx prefix-length-out-of-range");
        }
        let got = f.call(a, l);
        if cx.mode == Mode::Semantic {
            let exp = Prefix::new_relaxed(a, l).unwrap();
            if got != exp {
                return Err(("wrong-result:prefix_div".into(), format!("{a} / {l} returned {got}, inetnum gives {exp}")));
            }
        }
        cx.sample = format!("{a} / {l} = {got}");
        Ok(())
    }});
    v.push(Builtin { name: "prefix_parts", src: "fn prefix_addr(p: Prefix) -> IpAddr { p.addr() }\nfn prefix_min(p: Prefix) -> IpAddr { p.min_addr() }\nfn prefix_max(p: Prefix) -> IpAddr { p.max_addr() }\nfn prefix_len(p: Prefix) -> u8 { p.len() }\nfn prefix_eq(p: Prefix, q: Prefix) -> bool { p.eq(q) && p == q }", run: |cx| {
        let a = gen_ip(cx.c);
        let max = if a.is_ipv4() { 32 } else { 128 };
        let p = Prefix::new_relaxed(a, cx.c.below(max + 1) as u8).unwrap();
        let q = if cx.c.chance(100) { p } else { Prefix::new_relaxed(gen_ip(cx.c), cx.c.below(33) as u8).unwrap() };
        cx.nontrivial = true;
        let f = get!(cx, "prefix_addr", fn(Prefix) -> IpAddr);
        expect_eq!(cx, "prefix_addr", f.call(p), p.addr(), "{p}");
        let f = get!(cx, "prefix_min", fn(Prefix) -> IpAddr);
        expect_eq!(cx, "prefix_min", f.call(p), p.min_addr(), "{p}");
        let f = get!(cx, "prefix_max", fn(Prefix) -> IpAddr);
        expect_eq!(cx, "prefix_max", f.call(p), p.max_addr(), "{p}");
        let f = get!(cx, "prefix_len", fn(Prefix) -> u8);
        expect_eq!(cx, "prefix_len", f.call(p), p.len(), "{p}");
        let f = get!(cx, "prefix_eq", fn(Prefix, Prefix) -> bool);
        expect_eq!(cx, "prefix_eq", f.call(p, q), p == q, "{p}, {q}");
        Ok(())
    }});
    v
}

pub fn full_source(cat: &[Builtin]) -> String {
    cat.iter().map(|b| b.src).collect::<Vec<_>>().join("\n")
}

pub fn compile_catalogue(rt: &Runtime<NoCtx>, cat: &[Builtin]) -> Result<Package<NoCtx>, String> {
    crate::host::compile(rt, &full_source(cat))
}

/// Compile the catalogue; entries whose (documented) usage the compiler rejects are left out
/// and returned with the compiler's message, so that the rest can still be checked.
pub fn compile_catalogue_lenient(rt: &Runtime<NoCtx>, cat: &[Builtin]) -> Result<(Package<NoCtx>, Vec<(&'static str, String)>), String> {
    if let Ok(p) = compile_catalogue(rt, cat) {
        return Ok((p, Vec::new()));
    }
    let mut broken = Vec::new();
    let mut src = String::new();
    for b in cat {
        match crate::host::compile(rt, b.src) {
            Ok(_) => {
                src.push_str(b.src);
                src.push('\n');
            }
            Err(e) => broken.push((b.name, e)),
        }
    }
    crate::host::compile(rt, &src).map(|p| (p, broken))
}
