//! Host runtime registered into roto: typed input/output functions, effect
//! markers and drop-tracked types.  All state is thread-local so that worker
//! threads (C12) do not interfere.

use std::cell::{Cell, RefCell};
use std::collections::HashMap;

use roto::{List, Runtime, RotoString, Val, library};

use crate::model::{Ev, V, decode_input};

// ---------------------------------------------------------------------------
// counting allocator (net bytes per thread while enabled)

pub struct CountingAlloc;

thread_local! {
    static ALLOC_ON: Cell<bool> = const { Cell::new(false) };
    static ALLOC_NET: Cell<i64> = const { Cell::new(0) };
    static ALLOC_COUNT: Cell<u64> = const { Cell::new(0) };
}

/// When set, freed memory is overwritten before it goes back to the system allocator,
/// so that a read through a stale pointer sees garbage (a tracked value's magic number
/// no longer matches) instead of the old, plausible contents.
pub static POISON: std::sync::atomic::AtomicBool = std::sync::atomic::AtomicBool::new(false);

/// Page-aligned allocations that are alive in the whole process (count, bytes).  cranelift-jit takes
/// the memory for machine code and read-only data from the global allocator with page alignment
/// and nothing else in roto or the harness does, so this is the amount of JIT memory in use (C11).
pub static PAGE_REGIONS: std::sync::atomic::AtomicI64 = std::sync::atomic::AtomicI64::new(0);
pub static PAGE_BYTES: std::sync::atomic::AtomicI64 = std::sync::atomic::AtomicI64::new(0);

pub fn page_regions() -> (i64, i64) {
    use std::sync::atomic::Ordering::SeqCst;
    (PAGE_REGIONS.load(SeqCst), PAGE_BYTES.load(SeqCst))
}

#[inline]
fn page_account(l: &std::alloc::Layout, sign: i64) {
    if l.align() >= 4096 {
        use std::sync::atomic::Ordering::SeqCst;
        PAGE_REGIONS.fetch_add(sign, SeqCst);
        PAGE_BYTES.fetch_add(sign * l.size() as i64, SeqCst);
    }
}

pub fn poison_freed_memory(on: bool) {
    POISON.store(on, std::sync::atomic::Ordering::SeqCst);
}

unsafe impl std::alloc::GlobalAlloc for CountingAlloc {
    unsafe fn alloc(&self, l: std::alloc::Layout) -> *mut u8 {
        let p = unsafe { std::alloc::System.alloc(l) };
        if !p.is_null() {
            page_account(&l, 1);
        }
        let _ = ALLOC_ON.try_with(|on| {
            if on.get() {
                let _ = ALLOC_NET.try_with(|n| n.set(n.get() + l.size() as i64));
                let _ = ALLOC_COUNT.try_with(|n| n.set(n.get() + 1));
            }
        });
        p
    }
    unsafe fn dealloc(&self, p: *mut u8, l: std::alloc::Layout) {
        page_account(&l, -1);
        if POISON.load(std::sync::atomic::Ordering::Relaxed) {
            unsafe { std::ptr::write_bytes(p, 0xDE, l.size()) };
        }
        unsafe { std::alloc::System.dealloc(p, l) };
        let _ = ALLOC_ON.try_with(|on| {
            if on.get() {
                let _ = ALLOC_NET.try_with(|n| n.set(n.get() - l.size() as i64));
            }
        });
    }
    unsafe fn realloc(&self, p: *mut u8, l: std::alloc::Layout, new: usize) -> *mut u8 {
        let q = if POISON.load(std::sync::atomic::Ordering::Relaxed) {
            // always move, so that the old block can be overwritten
            let nl = unsafe { std::alloc::Layout::from_size_align_unchecked(new, l.align()) };
            let q = unsafe { std::alloc::System.alloc(nl) };
            if !q.is_null() {
                unsafe {
                    std::ptr::copy_nonoverlapping(p, q, l.size().min(new));
                    std::ptr::write_bytes(p, 0xDE, l.size());
                    std::alloc::System.dealloc(p, l);
                }
            }
            q
        } else {
            unsafe { std::alloc::System.realloc(p, l, new) }
        };
        if l.align() >= 4096 && !q.is_null() {
            PAGE_BYTES.fetch_add(new as i64 - l.size() as i64, std::sync::atomic::Ordering::SeqCst);
        }
        let _ = ALLOC_ON.try_with(|on| {
            if on.get() {
                let _ = ALLOC_NET.try_with(|n| n.set(n.get() + new as i64 - l.size() as i64));
            }
        });
        q
    }
}

pub fn alloc_window_start() {
    ALLOC_NET.with(|n| n.set(0));
    ALLOC_COUNT.with(|n| n.set(0));
    ALLOC_ON.with(|o| o.set(true));
}

/// returns (net bytes, allocation count)
pub fn alloc_window_end() -> (i64, u64) {
    ALLOC_ON.with(|o| o.set(false));
    (ALLOC_NET.with(|n| n.get()), ALLOC_COUNT.with(|n| n.get()))
}

/// Run harness-internal bookkeeping with allocation counting suspended.
pub fn uncounted<R>(f: impl FnOnce() -> R) -> R {
    let was = ALLOC_ON.with(|o| o.replace(false));
    let r = f();
    ALLOC_ON.with(|o| o.set(was));
    r
}

// ---------------------------------------------------------------------------
// thread-local host state

#[derive(Default)]
pub struct HostState {
    pub inputs: Vec<u64>,
    pub log: Vec<Ev>,
}

/// Tracking of drop-tracked values is process-wide: a value may be dropped on another
/// thread than the one that created it (C11, C12).
#[derive(Default)]
pub struct Tracking {
    /// live tracked instances: id -> tag
    pub live: HashMap<u64, i32>,
    pub next_id: u64,
    /// ownership anomalies (double drop, drop of garbage, use after drop)
    pub anomalies: Vec<String>,
    pub tz_live: i64,
    pub created: u64,
    pub dropped: u64,
}

thread_local! {
    pub static HOST: RefCell<HostState> = RefCell::new(HostState::default());
}

pub static TRACK: std::sync::LazyLock<std::sync::Mutex<Tracking>> = std::sync::LazyLock::new(|| std::sync::Mutex::new(Tracking::default()));

pub fn track<R>(f: impl FnOnce(&mut Tracking) -> R) -> R {
    let mut g = TRACK.lock().unwrap_or_else(|e| e.into_inner());
    f(&mut g)
}

pub fn reset(inputs: Vec<u64>) {
    uncounted(|| {
        HOST.with(|h| {
            let mut h = h.borrow_mut();
            h.inputs = inputs;
            h.log.clear();
        });
        track(|t| t.anomalies.clear());
    })
}

/// Like `reset` but leaves the process-global anomaly list alone (used by threads of one case).
pub fn reset_local(inputs: Vec<u64>) {
    uncounted(|| {
        HOST.with(|h| {
            let mut h = h.borrow_mut();
            h.inputs = inputs;
            h.log.clear();
        });
    })
}

pub fn take_log() -> Vec<Ev> {
    uncounted(|| HOST.with(|h| std::mem::take(&mut h.borrow_mut().log)))
}

pub fn live_count() -> (usize, i64) {
    track(|t| (t.live.len(), t.tz_live))
}

pub fn anomalies() -> Vec<String> {
    uncounted(|| track(|t| t.anomalies.clone()))
}

fn log_with(f: impl FnOnce() -> Ev) {
    uncounted(|| {
        let ev = f();
        if std::env::var_os("VERIF_TRACE").is_some() {
            eprintln!("host: {}", crate::model::show_ev(&ev));
        }
        HOST.with(|h| h.borrow_mut().log.push(ev))
    })
}

fn input(k: u32) -> u64 {
    HOST.with(|h| {
        let h = h.borrow();
        if h.inputs.is_empty() { 0 } else { h.inputs[k as usize % h.inputs.len()] }
    })
}

// ---------------------------------------------------------------------------
// tracked types

const MAGIC: u64 = 0x5452_4143_4b45_4421; // "TRACKED!"

/// 24-byte clone type whose every instance has a unique id in the live set.
#[derive(Debug)]
pub struct Tr {
    pub id: u64,
    pub magic: u64,
    pub tag: i64,
}

impl Tr {
    pub fn new(tag: i32) -> Tr {
        let id = uncounted(|| {
            track(|h| {
                h.next_id += 1;
                let id = h.next_id;
                h.live.insert(id, tag);
                h.created += 1;
                id
            })
        });
        Tr { id, magic: MAGIC, tag: tag as i64 }
    }
    /// check that this instance is alive (called on every use)
    pub fn touch(&self, what: &str) {
        uncounted(|| {
            track(|h| {
                if self.magic != MAGIC {
                    h.anomalies.push(format!("{what}: use of garbage Tr (magic {:#x})", self.magic));
                } else if !h.live.contains_key(&self.id) {
                    h.anomalies.push(format!("{what}: use after drop of Tr id {} tag {}", self.id, self.tag));
                }
            })
        })
    }
}

/// extra work inside `Tr::clone`, after the source has been looked at once and before it is looked
/// at again (C16 stress: a slow user Clone widens the window in which the buffer may not move)
static CLONE_SPIN: std::sync::atomic::AtomicU32 = std::sync::atomic::AtomicU32::new(0);

pub fn set_clone_spin(n: u32) {
    CLONE_SPIN.store(n, std::sync::atomic::Ordering::SeqCst);
}

impl Clone for Tr {
    fn clone(&self) -> Self {
        self.touch("clone");
        let n = CLONE_SPIN.load(std::sync::atomic::Ordering::Relaxed);
        if n > 0 {
            for _ in 0..n {
                std::hint::spin_loop();
            }
            // the source must still be what it was
            self.touch("clone (after the pause)");
        }
        Tr::new(self.tag as i32)
    }
}

/// extra work per element comparison (C16 stress: a slow user PartialEq widens race windows)
static EQ_SPIN: std::sync::atomic::AtomicU32 = std::sync::atomic::AtomicU32::new(0);

pub fn set_eq_spin(n: u32) {
    EQ_SPIN.store(n, std::sync::atomic::Ordering::SeqCst);
}

impl PartialEq for Tr {
    fn eq(&self, other: &Self) -> bool {
        let n = EQ_SPIN.load(std::sync::atomic::Ordering::Relaxed);
        for _ in 0..n {
            std::hint::spin_loop();
        }
        self.touch("eq");
        other.touch("eq");
        self.tag == other.tag
    }
}

impl Drop for Tr {
    fn drop(&mut self) {
        uncounted(|| {
            track(|h| {
                if self.magic != MAGIC {
                    h.anomalies.push(format!("drop of garbage Tr (magic {:#x}, id {:#x})", self.magic, self.id));
                } else if h.live.remove(&self.id).is_none() {
                    h.anomalies.push(format!("double drop of Tr id {} tag {}", self.id, self.tag));
                } else {
                    h.dropped += 1;
                }
            });
        })
    }
}

/// zero-sized copy type (a marker without state)
#[derive(Debug, Clone, Copy, PartialEq)]
pub struct Tzc;

/// zero-sized clone type, counted only.  Zero-sized but aligned to 4 bytes: as a field it takes no
/// room but still moves what follows it to the next multiple of four (`()` is the zero-sized type
/// without an alignment of its own in the generated programs).
#[derive(Debug)]
pub struct Tz([u32; 0]);

impl Tz {
    pub fn new() -> Tz {
        uncounted(|| track(|h| h.tz_live += 1));
        Tz([])
    }
}
impl Clone for Tz {
    fn clone(&self) -> Self {
        Tz::new()
    }
}
impl PartialEq for Tz {
    fn eq(&self, _: &Self) -> bool {
        true
    }
}
impl Drop for Tz {
    fn drop(&mut self) {
        uncounted(|| {
            track(|h| {
                h.tz_live -= 1;
                if h.tz_live < 0 {
                    h.anomalies.push("more Tz drops than creations".into());
                }
            })
        });
    }
}

/// 3-byte copy type (odd size, alignment 1)
#[derive(Clone, Copy, PartialEq, Debug)]
pub struct Tc(pub u8, pub u8, pub u8);

/// 8-byte copy type
#[derive(Clone, Copy, PartialEq, Debug)]
pub struct T8(pub u64);

// ---------------------------------------------------------------------------
// the runtime

macro_rules! scalar_io {
    ($lib:ident, $( ($t:ty, $name:literal, $inn:ident, $outn:ident, $conv:expr, $back:expr) ),* $(,)?) => {
        $(
            $lib.add(roto::Function::new(
                concat!("in_", $name), "", vec!["k"],
                (|k: u32| -> $t { let v = decode_input($name, input(k)); ($back)(v) }) as fn(u32) -> $t,
                roto::location!()).unwrap().into());
            $lib.add(roto::Function::new(
                concat!("out_", $name), "", vec!["v"],
                (|v: $t| { log_with(|| Ev::Out(($conv)(v))); }) as fn($t),
                roto::location!()).unwrap().into());
            // same observation, but returning a value (the IR evaluator cannot call unit functions)
            $lib.add(roto::Function::new(
                concat!("ov_", $name), "", vec!["v"],
                (|v: $t| -> i32 { log_with(|| Ev::Out(($conv)(v))); 0 }) as fn($t) -> i32,
                roto::location!()).unwrap().into());
        )*
    };
}

pub fn int_v<T: Into<i128>>(ty: crate::ast::IntTy, v: T) -> V {
    V::Int(ty, v.into())
}

pub fn build_runtime() -> Runtime<roto::NoCtx> {
    use crate::ast::IntTy::*;
    let mut rt = Runtime::new();
    rt.add_io_functions();

    let mut lib = roto::Library::new();
    scalar_io!(
        lib,
        (u8, "u8", in_u8, out_u8, |v: u8| V::Int(U8, v as i128), |v: V| match v { V::Int(_, x) => x as u8, _ => 0 }),
        (u16, "u16", in_u16, out_u16, |v: u16| V::Int(U16, v as i128), |v: V| match v { V::Int(_, x) => x as u16, _ => 0 }),
        (u32, "u32", in_u32, out_u32, |v: u32| V::Int(U32, v as i128), |v: V| match v { V::Int(_, x) => x as u32, _ => 0 }),
        (u64, "u64", in_u64, out_u64, |v: u64| V::Int(U64, v as i128), |v: V| match v { V::Int(_, x) => x as u64, _ => 0 }),
        (i8, "i8", in_i8, out_i8, |v: i8| V::Int(I8, v as i128), |v: V| match v { V::Int(_, x) => x as i8, _ => 0 }),
        (i16, "i16", in_i16, out_i16, |v: i16| V::Int(I16, v as i128), |v: V| match v { V::Int(_, x) => x as i16, _ => 0 }),
        (i32, "i32", in_i32, out_i32, |v: i32| V::Int(I32, v as i128), |v: V| match v { V::Int(_, x) => x as i32, _ => 0 }),
        (i64, "i64", in_i64, out_i64, |v: i64| V::Int(I64, v as i128), |v: V| match v { V::Int(_, x) => x as i64, _ => 0 }),
        (f32, "f32", in_f32, out_f32, |v: f32| V::F32(v), |v: V| match v { V::F32(x) => x, _ => 0.0 }),
        (f64, "f64", in_f64, out_f64, |v: f64| V::F64(v), |v: V| match v { V::F64(x) => x, _ => 0.0 }),
        (bool, "bool", in_bool, out_bool, |v: bool| V::Bool(v), |v: V| match v { V::Bool(x) => x, _ => false }),
        (char, "char", in_char, out_char, |v: char| V::Char(v), |v: V| match v { V::Char(x) => x, _ => 'a' }),
    );
    rt.add(lib).expect("register scalar io");

    rt.add(library! {
        fn in_String(k: u32) -> RotoString {
            match decode_input("String", input(k)) { V::Str(s) => RotoString::from(s), _ => RotoString::from("") }
        }
        fn out_String(v: RotoString) {
            log_with(|| Ev::Out(V::Str(v.to_string())));
        }
        fn ov_String(v: RotoString) -> i32 {
            log_with(|| Ev::Out(V::Str(v.to_string())));
            0
        }
        fn out_IpAddr(v: std::net::IpAddr) {
            log_with(|| Ev::Out(V::Str(format!("ip:{v}"))));
        }
        fn out_Prefix(v: inetnum::addr::Prefix) {
            log_with(|| Ev::Out(V::Str(format!("prefix:{v}"))));
        }
        fn out_Asn(v: inetnum::asn::Asn) {
            log_with(|| Ev::Out(V::Str(format!("asn:{}", v.into_u32()))));
        }
        fn out_unit() {
            log_with(|| Ev::Out(V::Unit));
        }

        /// effect markers
        fn e(k: i32) -> i32 {
            log_with(|| Ev::Eff("e".into(), vec![V::i32(k)]));
            k
        }
        fn eb(k: i32, b: bool) -> bool {
            log_with(|| Ev::Eff("eb".into(), vec![V::i32(k), V::Bool(b)]));
            b
        }
        fn es(k: i32) -> RotoString {
            log_with(|| Ev::Eff("es".into(), vec![V::i32(k)]));
            RotoString::from(format!("s{k}"))
        }

        #[clone] type Tr = Val<Tr>;
        #[clone] type Tz = Val<Tz>;
        #[copy] type Tc = Val<Tc>;
        #[copy] type T8 = Val<T8>;
        #[copy] type Tzc = Val<Tzc>;

        /// widen a narrow integer on the host side: the callee relies on the calling convention's
        /// extension of narrow arguments (no detour through memory here, that would re-extend it)
        fn w_i8(x: i8) -> i64 { x as i64 }
        fn w_i16(x: i16) -> i64 { x as i64 }
        fn w_i32(x: i32) -> i64 { x as i64 }
        fn w_u8(x: u8) -> i64 { x as i64 }
        fn w_u16(x: u16) -> i64 { x as i64 }
        fn w_u32(x: u32) -> i64 { x as i64 }

        fn mkzc() -> Val<Tzc> {
            Val(Tzc)
        }
        /// zero-sized copy argument in front of / between other arguments
        fn hzc2(z: Val<Tzc>, x: i32) -> i32 {
            let _ = z;
            x
        }
        fn hzc3(a: i32, z: Val<Tzc>, b: i32) -> i32 {
            let _ = z;
            a.wrapping_mul(31).wrapping_add(b)
        }

        fn et(k: i32) -> Val<Tr> {
            log_with(|| Ev::Eff("et".into(), vec![V::i32(k)]));
            Val(Tr::new(k))
        }
        fn mk(k: i32) -> Val<Tr> {
            Val(Tr::new(k))
        }
        fn mkz() -> Val<Tz> {
            Val(Tz::new())
        }
        fn mkc(k: u32) -> Val<Tc> {
            Val(Tc(k as u8, (k >> 8) as u8, (k >> 16) as u8))
        }
        fn mk8(k: u64) -> Val<T8> {
            Val(T8(k))
        }
        fn out_Tr(v: Val<Tr>) {
            v.0.touch("out_Tr");
            log_with(|| Ev::Out(V::Tr(v.0.tag as i32)));
        }
        fn out_Tz(_v: Val<Tz>) {
            log_with(|| Ev::Out(V::Tz));
        }
        fn out_Tc(v: Val<Tc>) {
            log_with(|| Ev::Out(V::Tc(v.0.0, v.0.1, v.0.2)));
        }
        fn out_T8(v: Val<T8>) {
            log_with(|| Ev::Out(V::T8(v.0.0)));
        }

        impl Val<Tr> {
            fn tag(self) -> i32 {
                self.0.touch("tag");
                self.0.tag as i32
            }
            fn m(self, a: i32, b: i32) -> i32 {
                self.0.touch("m");
                let t = self.0.tag as i32;
                log_with(|| Ev::Eff("Tr.m".into(), vec![V::i32(t), V::i32(a), V::i32(b)]));
                t.wrapping_add(a).wrapping_add(b)
            }
            fn to_string(self) -> RotoString {
                self.0.touch("to_string");
                // an observable call: f-strings convert each part where it stands
                let tag = self.0.tag;
                log_with(|| Ev::Eff("Tr.to_string".into(), vec![V::i32(tag as i32)]));
                RotoString::from(format!("Tr({})", self.0.tag))
            }
        }
        impl Val<Tz> {
            fn to_string(self) -> RotoString {
                RotoString::from("Tz")
            }
        }
        /// zero-sized argument in front of / between other arguments
        fn hz2(z: Val<Tz>, x: i32) -> i32 {
            let _ = z;
            x
        }
        fn hz3(a: i32, z: Val<Tz>, b: i32) -> i32 {
            let _ = z;
            a.wrapping_mul(31).wrapping_add(b)
        }
        impl Val<Tc> {
            fn first(self) -> u8 {
                self.0.0
            }
            fn to_string(self) -> RotoString {
                RotoString::from(format!("Tc({},{},{})", self.0.0, self.0.1, self.0.2))
            }
        }
        impl Val<T8> {
            fn val(self) -> u64 {
                self.0.0
            }
            fn to_string(self) -> RotoString {
                RotoString::from(format!("T8({})", self.0.0))
            }
        }
    })
    .expect("register host library");
    // types whose `to_string` does not have the signature an f-string needs (only used by the
    // ill-typed snippets of C07): an extra parameter, another result type, no receiver
    rt.add(library! {
        #[copy] type Tpad = Val<Tpad>;
        #[copy] type Tnum = Val<Tnum>;
        fn mkpad() -> Val<Tpad> { Val(Tpad(1)) }
        fn mknum() -> Val<Tnum> { Val(Tnum(2)) }
        impl Val<Tpad> {
            fn to_string(self, width: u64) -> RotoString {
                RotoString::from(format!("{:>1$}", self.0.0, width as usize % 16))
            }
        }
        impl Val<Tnum> {
            fn to_string(self) -> u32 {
                self.0.0
            }
        }
    })
    .expect("register odd to_string types");
    rt
}

#[derive(Debug, Clone, Copy, PartialEq)]
pub struct Tpad(pub u32);
#[derive(Debug, Clone, Copy, PartialEq)]
pub struct Tnum(pub u32);

/// Render a report without colour.
pub fn render_report(r: &roto::RotoReport) -> String {
    let mut s = String::new();
    let _ = r.write(&mut s, false);
    s
}

pub fn compile(rt: &Runtime<roto::NoCtx>, src: &str) -> Result<roto::Package<roto::NoCtx>, String> {
    roto::FileTree::test_file("case.roto", src, 0).compile(rt).map_err(|r| render_report(&r))
}

#[allow(dead_code)]
pub fn list_to_v<T: roto::Value + Clone>(l: &List<T>, f: impl Fn(T) -> V) -> V {
    V::list(l.to_vec().into_iter().map(f).collect())
}
