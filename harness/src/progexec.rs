//! Compile a generated program and call its `main` under the typed signature
//! the generator chose.

use roto::{NoCtx, Package, RotoString, Runtime, TypedFunc};

use crate::ast::*;
use crate::model::V;

macro_rules! main_family {
    ($( ($t:ty, $v0:ident, $v2:ident, $pat:pat, $to_v:expr, $from_w:expr) ),* $(,)?) => {
        #[derive(Clone)]
        pub enum MainFn {
            $( $v0(TypedFunc<NoCtx, fn() -> $t>), $v2(TypedFunc<NoCtx, fn($t, $t) -> $t>), )*
            Unit0(TypedFunc<NoCtx, fn() -> ()>),
            Str0(TypedFunc<NoCtx, fn() -> RotoString>),
        }

        pub fn get_main(pkg: &mut Package<NoCtx>, ret: &Ty, with_args: bool) -> Result<MainFn, String> {
            match (ret, with_args) {
                $(
                    ($pat, false) => pkg.get_function::<fn() -> $t>("main").map(MainFn::$v0).map_err(|e| format!("{e}")),
                    ($pat, true) => pkg.get_function::<fn($t, $t) -> $t>("main").map(MainFn::$v2).map_err(|e| format!("{e}")),
                )*
                (Ty::Unit, _) => pkg.get_function::<fn() -> ()>("main").map(MainFn::Unit0).map_err(|e| format!("{e}")),
                (Ty::Str, _) => pkg.get_function::<fn() -> RotoString>("main").map(MainFn::Str0).map_err(|e| format!("{e}")),
                _ => Err("unsupported main signature".into()),
            }
        }

        /// the handle turned into a plain closure (`TypedFunc::into_func`), which must keep the
        /// compiled code alive on its own
        pub fn main_closure(f: MainFn) -> Box<dyn Fn(u64, u64) -> V> {
            match f {
                $(
                    MainFn::$v0(f) => { let g = f.into_func(); Box::new(move |_a: u64, _b: u64| ($to_v)(g())) }
                    MainFn::$v2(f) => { let g = f.into_func(); Box::new(move |a: u64, b: u64| ($to_v)(g(($from_w)(a), ($from_w)(b)))) }
                )*
                MainFn::Unit0(f) => { let g = f.into_func(); Box::new(move |_a: u64, _b: u64| { g(); V::Unit }) }
                MainFn::Str0(f) => { let g = f.into_func(); Box::new(move |_a: u64, _b: u64| V::Str(g().to_string())) }
            }
        }

        /// call main; argument words are decoded like inputs
        pub fn call_main(f: &MainFn, a: u64, b: u64) -> V {
            match f {
                $(
                    MainFn::$v0(f) => ($to_v)(f.call()),
                    MainFn::$v2(f) => ($to_v)(f.call(($from_w)(a), ($from_w)(b))),
                )*
                MainFn::Unit0(f) => { f.call(); V::Unit }
                MainFn::Str0(f) => V::Str(f.call().to_string()),
            }
        }
    };
}

fn w_char(w: u64) -> char {
    match crate::model::decode_input("char", w) {
        V::Char(c) => c,
        _ => 'a',
    }
}

main_family!(
    (u8, U8a0, U8a2, Ty::Int(IntTy::U8), |v: u8| V::Int(IntTy::U8, v as i128), |w: u64| w as u8),
    (u16, U16a0, U16a2, Ty::Int(IntTy::U16), |v: u16| V::Int(IntTy::U16, v as i128), |w: u64| w as u16),
    (u32, U32a0, U32a2, Ty::Int(IntTy::U32), |v: u32| V::Int(IntTy::U32, v as i128), |w: u64| w as u32),
    (u64, U64a0, U64a2, Ty::Int(IntTy::U64), |v: u64| V::Int(IntTy::U64, v as i128), |w: u64| w),
    (i8, I8a0, I8a2, Ty::Int(IntTy::I8), |v: i8| V::Int(IntTy::I8, v as i128), |w: u64| w as i8),
    (i16, I16a0, I16a2, Ty::Int(IntTy::I16), |v: i16| V::Int(IntTy::I16, v as i128), |w: u64| w as i16),
    (i32, I32a0, I32a2, Ty::Int(IntTy::I32), |v: i32| V::Int(IntTy::I32, v as i128), |w: u64| w as i32),
    (i64, I64a0, I64a2, Ty::Int(IntTy::I64), |v: i64| V::Int(IntTy::I64, v as i128), |w: u64| w as i64),
    (f32, F32a0, F32a2, Ty::F32, |v: f32| V::F32(v), |w: u64| f32::from_bits(w as u32)),
    (f64, F64a0, F64a2, Ty::F64, |v: f64| V::F64(v), |w: u64| f64::from_bits(w)),
    (bool, Boola0, Boola2, Ty::Bool, |v: bool| V::Bool(v), |w: u64| w & 1 == 1),
    (char, Chara0, Chara2, Ty::Char, |v: char| V::Char(v), w_char),
);

/// the model-side values of main's two arguments
pub fn main_args(ret: &Ty, a: u64, b: u64) -> Vec<V> {
    let name = match ret {
        Ty::Int(t) => t.name(),
        Ty::F32 => "f32",
        Ty::F64 => "f64",
        Ty::Bool => "bool",
        Ty::Char => "char",
        _ => return vec![],
    };
    vec![crate::model::decode_input(name, a), crate::model::decode_input(name, b)]
}

pub fn compile_program(rt: &Runtime<NoCtx>, prog: &Program, parens: Parens) -> (String, Result<(Package<NoCtx>, MainFn), String>) {
    let src = print_program(prog, parens);
    let r = crate::host::compile(rt, &src).and_then(|mut pkg| {
        let main = &prog.funcs[0];
        let f = get_main(&mut pkg, &main.ret, !main.params.is_empty())?;
        Ok((pkg, f))
    });
    (src, r)
}

/// Input words: boundary patterns that are meaningful after truncation to any width,
/// plus float bit patterns.
pub const INPUT_WORDS: [u64; 32] = [
    0,
    1,
    2,
    3,
    0x7f,
    0x80,
    0xff,
    0x100,
    0x7fff,
    0x8000,
    0xffff,
    0x7fff_ffff,
    0x8000_0000,
    0xffff_ffff,
    0x7fff_ffff_ffff_ffff,
    0x8000_0000_0000_0000,
    0xffff_ffff_ffff_ffff,
    0xffff_ffff_ffff_fffe,
    0x7ff0_0000_0000_0000, // f64 inf
    0x7ff8_0000_0000_0000, // f64 nan
    0x3ff0_0000_0000_0000, // f64 1.0
    0xbff8_0000_7f80_0000, // f64 -1.5.., f32 inf
    0x0000_0000_7fc0_0000, // f32 nan
    0x0000_0001_3f80_0000, // f32 1.0
    0x0010_0000_0000_0001,
    0xfff0_0000_8000_0001, // f64 -inf, f32 -subnormal
    0x4059_0000_0000_0041, // 100.0, 'A'
    0x0000_0000_0000_d7ff,
    0x0000_0000_0010_ffff,
    0x5555_5555_5555_5555,
    0x0123_4567_89ab_cdef,
    10,
];

/// decode an input vector from a byte chunk: each slot is a boundary word or random
pub fn decode_inputs(chunk: &[u8], slots: usize) -> Vec<u64> {
    let mut c = crate::core::Choices::new(chunk);
    let mut out = Vec::new();
    for _ in 0..slots {
        let k = c.below(INPUT_WORDS.len() + 8);
        if k < INPUT_WORDS.len() {
            out.push(INPUT_WORDS[k]);
        } else {
            out.push(c.u64());
        }
    }
    out
}
