//! Library half of the harness: everything except the command-line entry point, so that the
//! coverage-guided targets under /verif/fuzz can call the same generators, models and oracles.
pub mod ast;
pub mod builtins;
pub mod core;
pub mod pgen;
pub mod grid;
pub mod host;
pub mod model;
pub mod illtyped;
pub mod lgen;
pub mod mutate;
pub mod progexec;
pub mod reduce;
pub mod props;
pub mod runner;
pub mod untyped;
pub mod worker;
pub mod cg;
