//! Untyped program generator: syntactically valid programs that are mostly
//! ill-typed (and sometimes well-typed), used to exercise the type checker's
//! error paths (C06) -- recursive types, diverging scrutinees, constructors
//! used as values, self-referential lists, ...

use crate::ast::*;
use crate::core::Choices;
use crate::model::V;

pub struct UGen<'c> {
    c: Choices<'c>,
    n_decls: usize,
    n_funcs: usize,
    budget: i32,
}

const VARS: &[&str] = &["x", "y", "z", "l", "r", "o", "s", "undefined_name", "main", "R0", "E0", "Option", "A"];
const METHODS: &[&str] = &["to_string", "len", "push", "get", "contains", "tag", "first", "abs", "append", "chars", "new", "x", "f0"];
const HOSTS: &[&str] = &["e", "eb", "out_i32", "out_String", "mk", "in_u8", "print", "Prefix.new", "String.from_chars", "List.new", "nope"];
const VARIANTS: &[&str] = &["Some", "None", "Ok", "Err", "Accept", "Reject", "V0x0", "V0x1", "V1x0", "Nope"];
const CTOR_TYPES: &[&str] = &["Option", "Result", "Verdict", "E0", "E1", "R0", "", "pkg", "std"];

impl<'c> UGen<'c> {
    pub fn new(data: &'c [u8]) -> Self {
        UGen { c: Choices::new(data), n_decls: 0, n_funcs: 0, budget: 120 }
    }

    fn ty(&mut self, depth: u32) -> Ty {
        let k = self.c.below(14);
        match k {
            0 => Ty::Int(IntTy::I32),
            1 => Ty::Int(IntTy::U8),
            2 => Ty::Bool,
            3 => Ty::Str,
            4 => Ty::Unit,
            5 if depth > 0 => Ty::opt(self.ty(depth - 1)),
            6 if depth > 0 => Ty::list(self.ty(depth - 1)),
            7 | 8 if self.n_decls > 0 => {
                // any declaration, including the one being defined and later ones
                let i = self.c.below(self.n_decls);
                let n_args = self.c.below(3);
                let mut args = Vec::new();
                for _ in 0..n_args {
                    args.push(if depth > 0 { self.ty(depth - 1) } else { Ty::Bool });
                }
                if self.c.chance(128) { Ty::Rec(i, args) } else { Ty::Enum(i, args) }
            }
            9 => Ty::Param(0),
            10 if depth > 0 => {
                let a = self.ty(depth - 1);
                let b = self.ty(depth - 1);
                Ty::Result(Box::new(a), Box::new(b))
            }
            11 if depth > 0 => {
                let n = self.c.below(3);
                let mut fs = Vec::new();
                for i in 0..n {
                    fs.push((format!("a{i}"), self.ty(depth - 1)));
                }
                Ty::Anon(fs)
            }
            12 => Ty::F64,
            _ => Ty::Int(IntTy::I64),
        }
    }

    fn lit(&mut self) -> Expr {
        let k = self.c.below(9);
        let (v, t): (V, &str) = match k {
            0 => (V::i32(0), "0"),
            1 => (V::i32(1), "1"),
            2 => (V::Bool(true), "true"),
            3 => (V::Str("s".into()), "\"s\""),
            4 => (V::Unit, "()"),
            5 => (V::F64(1.5), "1.5"),
            6 => (V::Char('a'), "'a'"),
            7 => (V::Int(IntTy::U8, 255), "255u8"),
            _ => (V::i32(7), "1.1.1.1"),
        };
        Expr::Lit(Lit { v, text: t.to_string() })
    }

    fn block(&mut self, depth: u32) -> Block {
        let n = if depth == 0 { 0 } else { self.c.below(3) };
        let mut stmts = Vec::new();
        for _ in 0..n {
            if self.c.chance(128) {
                let name = VARS[self.c.below(7)].to_string();
                let t = if self.c.chance(100) { Some(self.ty(2)) } else { None };
                let e = self.expr(depth.saturating_sub(1));
                stmts.push(Stmt::Let(name, t, e));
            } else {
                let e = self.expr(depth.saturating_sub(1));
                stmts.push(Stmt::Expr(e));
            }
        }
        let tail = if self.c.chance(180) { Some(Box::new(self.expr(depth.saturating_sub(1)))) } else { None };
        Block { stmts, tail }
    }

    fn place(&mut self) -> Place {
        let var = VARS[self.c.below(VARS.len())].to_string();
        let nf = self.c.below(3);
        let fields = (0..nf).map(|_| METHODS[self.c.below(METHODS.len())].to_string()).collect();
        Place { var, fields }
    }

    pub fn expr(&mut self, depth: u32) -> Expr {
        self.budget -= 1;
        if depth == 0 || self.budget <= 0 {
            return if self.c.chance(128) { self.lit() } else { Expr::Var(VARS[self.c.below(VARS.len())].to_string()) };
        }
        let d = depth - 1;
        let b = |e: Expr| Box::new(e);
        match self.c.below(27) {
            0 => self.lit(),
            1 => Expr::Var(VARS[self.c.below(VARS.len())].to_string()),
            2 => Expr::Field(b(self.expr(d)), METHODS[self.c.below(METHODS.len())].to_string()),
            3 => Expr::Neg(b(self.expr(d))),
            4 => Expr::Not(b(self.expr(d))),
            5 | 6 => {
                let ops = [BinOp::Add, BinOp::Sub, BinOp::Mul, BinOp::Div, BinOp::Rem, BinOp::Eq, BinOp::Ne, BinOp::Lt, BinOp::Ge, BinOp::And, BinOp::Or];
                let op = ops[self.c.below(ops.len())];
                Expr::Bin(op, b(self.expr(d)), b(self.expr(d)))
            }
            7 => {
                let i = if self.n_funcs > 0 { self.c.below(self.n_funcs) } else { 0 };
                let n = self.c.below(3);
                Expr::Call(i, (0..n).map(|_| self.expr(d)).collect())
            }
            8 => {
                let n = self.c.below(3);
                Expr::Host(HOSTS[self.c.below(HOSTS.len())].to_string(), (0..n).map(|_| self.expr(d)).collect())
            }
            9 | 10 => {
                let r = self.expr(d);
                let n = self.c.below(3);
                Expr::Method(b(r), METHODS[self.c.below(METHODS.len())].to_string(), (0..n).map(|_| self.expr(d)).collect())
            }
            11 => {
                let c = self.expr(d);
                let t = self.block(d);
                let e = if self.c.chance(150) { Some(self.block(d)) } else { None };
                Expr::If(b(c), t, e)
            }
            12 | 13 => {
                let s = self.expr(d);
                let n = self.c.below(4);
                let mut arms = Vec::new();
                for _ in 0..n {
                    let variant = if self.c.chance(40) { None } else { Some(VARIANTS[self.c.below(VARIANTS.len())].to_string()) };
                    let nb = self.c.below(3);
                    let binds = (0..nb).map(|i| format!("b{i}")).collect();
                    let guard = if self.c.chance(60) { Some(self.expr(d)) } else { None };
                    let body = self.block(d);
                    arms.push(Arm { variant, binds, guard, body, braces: true });
                }
                Expr::Match(b(s), arms)
            }
            14 => Expr::Block(self.block(d)),
            15 => Expr::Return(if self.c.chance(150) { Some(b(self.expr(d))) } else { None }),
            16 => {
                if self.c.chance(128) {
                    Expr::Accept(if self.c.chance(128) { Some(b(self.expr(d))) } else { None })
                } else {
                    Expr::Reject(if self.c.chance(128) { Some(b(self.expr(d))) } else { None })
                }
            }
            17 => {
                let named = if self.c.chance(128) { Some(format!("R{}", self.c.below(3))) } else { None };
                let n = self.c.below(3);
                Expr::Record(named, (0..n).map(|i| (format!("f{i}"), self.expr(d))).collect())
            }
            18 | 19 => {
                let t = CTOR_TYPES[self.c.below(CTOR_TYPES.len())].to_string();
                let v = VARIANTS[self.c.below(VARIANTS.len())].to_string();
                let n = self.c.below(3);
                Expr::Ctor(t, v, (0..n).map(|_| self.expr(d)).collect())
            }
            20 => {
                let n = self.c.below(3);
                Expr::List((0..n).map(|_| self.expr(d)).collect())
            }
            21 => {
                let n = self.c.below(3);
                Expr::FStr(
                    (0..n)
                        .map(|_| if self.c.chance(128) { FPart::Text("t é".into()) } else { FPart::Expr(self.expr(d)) })
                        .collect(),
                )
            }
            22 => Expr::Try(b(self.expr(d))),
            23 => Expr::While(b(self.expr(d)), self.block(d)),
            24 => Expr::For("i".into(), b(self.expr(d)), self.block(d)),
            25 => Expr::Assign(self.place(), b(self.expr(d))),
            _ => Expr::Compound(self.place(), BinOp::Add, b(self.expr(d))),
        }
    }

    pub fn program(mut self) -> Program {
        let mut p = Program::default();
        self.n_decls = self.c.below(4);
        self.n_funcs = 1 + self.c.below(3);
        for d in 0..self.n_decls {
            let params: Vec<String> = if self.c.chance(90) { vec!["T0".into()] } else { vec![] };
            if self.c.chance(128) {
                let nf = self.c.below(4);
                let fields = (0..nf).map(|f| (format!("f{f}"), self.ty(2))).collect();
                p.decls.push(TypeDecl::Record { name: format!("R{d}"), params, fields });
            } else {
                let nv = self.c.below(4);
                let variants = (0..nv)
                    .map(|v| {
                        let nf = self.c.below(3);
                        (format!("V{d}x{v}"), (0..nf).map(|_| self.ty(2)).collect())
                    })
                    .collect();
                p.decls.push(TypeDecl::Enum { name: format!("E{d}"), params, variants });
            }
        }
        let nc = self.c.below(3);
        for i in 0..nc {
            let ty = self.ty(1);
            let init = self.expr(2);
            p.consts.push(ConstDecl { name: format!("C{i}"), ty, init });
        }
        for i in 0..self.n_funcs {
            let kind = match self.c.below(6) {
                0 => FnKind::FilterMap,
                1 => FnKind::Test,
                _ => FnKind::Fn,
            };
            let np = self.c.below(3);
            let params = (0..np).map(|k| (VARS[k].to_string(), self.ty(2))).collect();
            let ret = self.ty(2);
            let body = self.block(4);
            p.funcs.push(Func { kind, name: if i == 0 { "main".into() } else { format!("f{i}") }, params, ret, body });
        }
        // keep type indices printable
        p
    }
}

/// Make every declaration index valid for the printer (indices are taken modulo).
pub fn print_untyped(p: &Program) -> String {
    fn fix(t: &Ty, n: usize) -> Ty {
        match t {
            Ty::Rec(i, a) | Ty::Enum(i, a) => {
                let a: Vec<Ty> = a.iter().map(|t| fix(t, n)).collect();
                if n == 0 {
                    Ty::Bool
                } else if matches!(t, Ty::Rec(..)) {
                    Ty::Rec(*i % n, a)
                } else {
                    Ty::Enum(*i % n, a)
                }
            }
            Ty::Opt(t) => Ty::opt(fix(t, n)),
            Ty::List(t) => Ty::list(fix(t, n)),
            Ty::Result(a, b) => Ty::Result(Box::new(fix(a, n)), Box::new(fix(b, n))),
            Ty::Verdict(a, b) => Ty::Verdict(Box::new(fix(a, n)), Box::new(fix(b, n))),
            Ty::Anon(fs) => Ty::Anon(fs.iter().map(|(k, t)| (k.clone(), fix(t, n))).collect()),
            t => t.clone(),
        }
    }
    let n = p.decls.len();
    let mut q = p.clone();
    for d in q.decls.iter_mut() {
        match d {
            TypeDecl::Record { fields, .. } => {
                for (_, t) in fields.iter_mut() {
                    *t = fix(t, n);
                }
            }
            TypeDecl::Enum { variants, .. } => {
                for (_, ts) in variants.iter_mut() {
                    for t in ts.iter_mut() {
                        *t = fix(t, n);
                    }
                }
            }
        }
    }
    for c in q.consts.iter_mut() {
        c.ty = fix(&c.ty, n);
    }
    fn fix_block(b: &mut Block, n: usize) {
        for s in b.stmts.iter_mut() {
            if let Stmt::Let(_, Some(t), _) = s {
                *t = fix(t, n);
            }
        }
    }
    for f in q.funcs.iter_mut() {
        f.ret = fix(&f.ret, n);
        for (_, t) in f.params.iter_mut() {
            *t = fix(t, n);
        }
        fix_block(&mut f.body, n);
    }
    // nested lets keep their (possibly out-of-range) indices: normalise by printing through a
    // program whose decl list is padded
    while q.decls.len() < 4 {
        let k = q.decls.len();
        q.decls.push(TypeDecl::Record { name: format!("Pad{k}"), params: vec![], fields: vec![("p".into(), Ty::Bool)] });
    }
    print_program(&q, Parens::Minimal)
}
