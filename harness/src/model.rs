//! Reference interpreter for the harness's program tree, written from the
//! language reference and the property statements (not from roto's lowering).

use std::cell::RefCell;
use std::collections::HashMap;
use std::rc::Rc;

use crate::ast::*;

#[derive(Clone, Debug)]
pub enum V {
    Int(IntTy, i128),
    F32(f32),
    F64(f64),
    Bool(bool),
    Char(char),
    Unit,
    Str(String),
    /// record value: (field, value)
    Rec(Vec<(String, V)>),
    /// enum value (also Option / Result / Verdict): variant name, payload
    Enum(String, Vec<V>),
    /// shared list handle
    List(Rc<RefCell<Vec<V>>>),
    /// tracked clone type with a tag
    Tr(i32),
    /// zero-sized tracked clone type
    Tz,
    /// 3-byte copy type
    Tc(u8, u8, u8),
    /// 8-byte copy type
    T8(u64),
}

impl V {
    pub fn some(v: V) -> V {
        V::Enum("Some".into(), vec![v])
    }
    pub fn none() -> V {
        V::Enum("None".into(), vec![])
    }
    pub fn list(v: Vec<V>) -> V {
        V::List(Rc::new(RefCell::new(v)))
    }
    pub fn i32(v: i32) -> V {
        V::Int(IntTy::I32, v as i128)
    }
    pub fn u64(v: u64) -> V {
        V::Int(IntTy::U64, v as i128)
    }
    /// deep snapshot (lists copied) for logging
    pub fn snapshot(&self) -> V {
        match self {
            V::List(l) => V::list(l.borrow().iter().map(|x| x.snapshot()).collect()),
            V::Rec(fs) => V::Rec(fs.iter().map(|(n, v)| (n.clone(), v.snapshot())).collect()),
            V::Enum(n, vs) => V::Enum(n.clone(), vs.iter().map(|v| v.snapshot()).collect()),
            v => v.clone(),
        }
    }
}

/// Strings and lists that double in a loop outgrow every step budget long before the steps run
/// out: values beyond this size are outside the modelled domain (reported like an exhausted
/// step budget, the input vector is skipped).
fn data_budget(n: usize) -> Result<(), Stop> {
    if n > 1 << 16 { Err(Stop::Budget) } else { Ok(()) }
}

/// Language-level `==` (IEEE for floats, structural otherwise).
pub fn lang_eq(a: &V, b: &V) -> bool {
    match (a, b) {
        (V::Int(_, x), V::Int(_, y)) => x == y,
        (V::F32(x), V::F32(y)) => x == y,
        (V::F64(x), V::F64(y)) => x == y,
        (V::Bool(x), V::Bool(y)) => x == y,
        (V::Char(x), V::Char(y)) => x == y,
        (V::Unit, V::Unit) => true,
        (V::Str(x), V::Str(y)) => x == y,
        (V::Rec(x), V::Rec(y)) => {
            x.len() == y.len()
                && x.iter().all(|(n, v)| y.iter().find(|(m, _)| m == n).map(|(_, w)| lang_eq(v, w)).unwrap_or(false))
        }
        (V::Enum(n, x), V::Enum(m, y)) => n == m && x.len() == y.len() && x.iter().zip(y).all(|(a, b)| lang_eq(a, b)),
        (V::List(x), V::List(y)) => {
            if Rc::ptr_eq(x, y) {
                // same storage: element-wise comparison of a list with itself
                let x = x.borrow();
                return x.iter().all(|a| lang_eq(a, a));
            }
            let x = x.borrow();
            let y = y.borrow();
            x.len() == y.len() && x.iter().zip(y.iter()).all(|(a, b)| lang_eq(a, b))
        }
        (V::Tr(x), V::Tr(y)) => x == y,
        (V::Tz, V::Tz) => true,
        (V::Tc(a, b, c), V::Tc(d, e, f)) => (a, b, c) == (d, e, f),
        (V::T8(x), V::T8(y)) => x == y,
        _ => false,
    }
}

/// `==` where the documentation and the properties leave the answer open: a list that holds a
/// NaN compared with itself (same storage). Element-wise IEEE comparison says "not equal",
/// roto answers "equal" because it compares the storage first; neither is asserted.
/// `None` = the answer depends on that choice.
pub fn lang_eq_spec(a: &V, b: &V) -> Option<bool> {
    fn all(rs: impl Iterator<Item = Option<bool>>) -> Option<bool> {
        let mut open = false;
        for r in rs {
            match r {
                Some(false) => return Some(false),
                None => open = true,
                Some(true) => {}
            }
        }
        if open { None } else { Some(true) }
    }
    match (a, b) {
        (V::Rec(x), V::Rec(y)) => {
            if x.len() != y.len() {
                return Some(false);
            }
            all(x.iter().map(|(n, v)| match y.iter().find(|(m, _)| m == n) {
                Some((_, w)) => lang_eq_spec(v, w),
                None => Some(false),
            }))
        }
        (V::Enum(n, x), V::Enum(m, y)) => {
            if n != m || x.len() != y.len() {
                return Some(false);
            }
            all(x.iter().zip(y).map(|(a, b)| lang_eq_spec(a, b)))
        }
        (V::List(x), V::List(y)) => {
            if Rc::ptr_eq(x, y) {
                let x = x.borrow();
                return if x.iter().all(|a| lang_eq(a, a)) { Some(true) } else { None };
            }
            let x = x.borrow();
            let y = y.borrow();
            if x.len() != y.len() {
                return Some(false);
            }
            all(x.iter().zip(y.iter()).map(|(a, b)| lang_eq_spec(a, b)))
        }
        _ => Some(lang_eq(a, b)),
    }
}

/// Harness-level comparison of observed vs expected values: exact, bitwise for
/// floats except that any NaN equals any NaN.
pub fn same(a: &V, b: &V) -> bool {
    match (a, b) {
        (V::Int(t, x), V::Int(u, y)) => t == u && x == y,
        (V::F32(x), V::F32(y)) => (x.is_nan() && y.is_nan()) || x.to_bits() == y.to_bits(),
        (V::F64(x), V::F64(y)) => (x.is_nan() && y.is_nan()) || x.to_bits() == y.to_bits(),
        (V::Rec(x), V::Rec(y)) => {
            x.len() == y.len()
                && x.iter().all(|(n, v)| y.iter().find(|(m, _)| m == n).map(|(_, w)| same(v, w)).unwrap_or(false))
        }
        (V::Enum(n, x), V::Enum(m, y)) => n == m && x.len() == y.len() && x.iter().zip(y).all(|(a, b)| same(a, b)),
        (V::List(x), V::List(y)) => {
            let x = x.borrow();
            let y = y.borrow();
            x.len() == y.len() && x.iter().zip(y.iter()).all(|(a, b)| same(a, b))
        }
        (V::Bool(x), V::Bool(y)) => x == y,
        (V::Char(x), V::Char(y)) => x == y,
        (V::Unit, V::Unit) => true,
        (V::Str(x), V::Str(y)) => x == y,
        (V::Tr(x), V::Tr(y)) => x == y,
        (V::Tz, V::Tz) => true,
        (V::Tc(a, b, c), V::Tc(d, e, f)) => (a, b, c) == (d, e, f),
        (V::T8(x), V::T8(y)) => x == y,
        _ => false,
    }
}

pub fn show(v: &V) -> String {
    match v {
        V::Int(t, x) => format!("{}{}", x, t.name()),
        V::F32(x) => format!("{:?}f32[{:#x}]", x, x.to_bits()),
        V::F64(x) => format!("{:?}f64[{:#x}]", x, x.to_bits()),
        V::Bool(b) => format!("{b}"),
        V::Char(c) => format!("{:?}", c),
        V::Unit => "()".into(),
        V::Str(s) => format!("{:?}", s),
        V::Rec(fs) => format!("{{{}}}", fs.iter().map(|(n, v)| format!("{}: {}", n, show(v))).collect::<Vec<_>>().join(", ")),
        V::Enum(n, vs) => {
            if vs.is_empty() {
                n.clone()
            } else {
                format!("{}({})", n, vs.iter().map(show).collect::<Vec<_>>().join(", "))
            }
        }
        V::List(l) => format!("[{}]", l.borrow().iter().map(show).collect::<Vec<_>>().join(", ")),
        V::Tr(t) => format!("Tr({t})"),
        V::Tz => "Tz".into(),
        V::Tc(a, b, c) => format!("Tc({a},{b},{c})"),
        V::T8(x) => format!("T8({x})"),
    }
}

/// The text `to_string()` / f-string interpolation gives (Rust's Display, as documented).
pub fn to_string(v: &V) -> Option<String> {
    Some(match v {
        V::Int(_, x) => format!("{x}"),
        V::F32(x) => format!("{x}"),
        V::F64(x) => format!("{x}"),
        V::Bool(b) => format!("{b}"),
        V::Char(c) => format!("{c}"),
        V::Str(s) => s.clone(),
        V::Tr(t) => format!("Tr({t})"),
        V::Tz => "Tz".into(),
        V::Tc(a, b, c) => format!("Tc({a},{b},{c})"),
        V::T8(x) => format!("T8({x})"),
        _ => return None,
    })
}

#[derive(Clone, Debug)]
pub enum Ev {
    /// out_<ty>(v)
    Out(V),
    /// effect marker: name, argument values
    Eff(String, Vec<V>),
}

pub fn ev_same(a: &Ev, b: &Ev) -> bool {
    match (a, b) {
        (Ev::Out(x), Ev::Out(y)) => same(x, y),
        (Ev::Eff(n, x), Ev::Eff(m, y)) => n == m && x.len() == y.len() && x.iter().zip(y).all(|(a, b)| same(a, b)),
        _ => false,
    }
}

pub fn show_ev(e: &Ev) -> String {
    match e {
        Ev::Out(v) => format!("out({})", show(v)),
        Ev::Eff(n, vs) => format!("{}({})", n, vs.iter().map(show).collect::<Vec<_>>().join(", ")),
    }
}

/// Decode input word `w` as a value of scalar-ish type named `ty` (shared with the host side;
/// this is harness plumbing, not behaviour under test).
pub fn decode_input(ty: &str, w: u64) -> V {
    match ty {
        "bool" => V::Bool(w & 1 == 1),
        "char" => {
            let c = char::from_u32((w % 0x110000) as u32).unwrap_or('\u{fffd}');
            V::Char(c)
        }
        "f32" => V::F32(f32::from_bits(w as u32)),
        "f64" => V::F64(f64::from_bits(w)),
        "String" => V::Str(input_string(w)),
        t => {
            let it = IntTy::from_name(t).expect("int type");
            V::Int(it, it.wrap(w as i128))
        }
    }
}

pub fn input_string(w: u64) -> String {
    const PARTS: [&str; 8] = ["", "a", "é", "日本", "x y", "\n", "roto", "Ω"];
    let n = (w % 4) as usize;
    let mut s = String::new();
    let mut x = w / 4;
    for _ in 0..n {
        s.push_str(PARTS[(x % 8) as usize]);
        x /= 8;
    }
    s
}

#[derive(Debug)]
pub enum Stop {
    Return(V),
    /// the language leaves this undefined / the process would trap: (kind)
    Trap(&'static str),
    Budget,
    /// the result depends on something neither the documentation nor the properties fix
    Unspecified(&'static str),
    Unsupported(String),
}

type R = Result<V, Stop>;

pub struct Interp<'a> {
    pub prog: &'a Program,
    pub inputs: Vec<u64>,
    pub log: Vec<Ev>,
    pub consts: HashMap<String, V>,
    consts_ready: bool,
    pub steps: u64,
    pub budget: u64,
    pub depth: u32,
    /// path classification counters
    pub path: PathInfo,
}

#[derive(Default, Clone, Debug)]
pub struct PathInfo {
    pub nonint32_ops: u32,
    pub float_ops: u32,
    pub control: u32,
    pub calls: u32,
    pub short_circuit_skips: u32,
    pub loop_iters: u32,
    pub guards_failed: u32,
    pub early_exits: u32,
    pub try_none: u32,
    pub try_some: u32,
    pub copies_mutated: u32,
    pub field_writes: u32,
    pub list_mutations: u32,
    pub host_calls: u32,
    pub cmp_ops: u32,
    pub not_ops: u32,
    pub aggregate_access: u32,
}

struct Env {
    vars: Vec<(String, V)>,
    marks: Vec<usize>,
}

impl Env {
    fn new() -> Self {
        Env { vars: Vec::new(), marks: Vec::new() }
    }
    fn push(&mut self) {
        self.marks.push(self.vars.len());
    }
    fn pop(&mut self) {
        let m = self.marks.pop().unwrap_or(0);
        self.vars.truncate(m);
    }
    fn bind(&mut self, n: &str, v: V) {
        self.vars.push((n.to_string(), v));
    }
    fn get(&self, n: &str) -> Option<&V> {
        self.vars.iter().rev().find(|(m, _)| m == n).map(|(_, v)| v)
    }
    fn get_mut(&mut self, n: &str) -> Option<&mut V> {
        self.vars.iter_mut().rev().find(|(m, _)| m == n).map(|(_, v)| v)
    }
}

impl<'a> Interp<'a> {
    pub fn new(prog: &'a Program, inputs: Vec<u64>, budget: u64) -> Self {
        Interp {
            prog,
            inputs,
            log: Vec::new(),
            consts: HashMap::new(),
            consts_ready: false,
            steps: 0,
            budget,
            depth: 0,
            path: PathInfo::default(),
        }
    }

    fn tick(&mut self) -> Result<(), Stop> {
        self.steps += 1;
        if self.steps > self.budget { Err(Stop::Budget) } else { Ok(()) }
    }

    /// Evaluate script constants in dependency order (each exactly once).
    pub fn eval_consts(&mut self) -> Result<(), Stop> {
        // constants may refer to each other in any order: evaluate on demand
        let names: Vec<String> = self.prog.consts.iter().map(|c| c.name.clone()).collect();
        for n in names {
            self.const_value(&n)?;
        }
        Ok(())
    }

    fn const_value(&mut self, name: &str) -> R {
        if let Some(v) = self.consts.get(name) {
            return Ok(v.clone());
        }
        let Some(c) = self.prog.consts.iter().find(|c| c.name == name) else {
            return Err(Stop::Unsupported(format!("unknown name {name}")));
        };
        let mut env = Env::new();
        let v = match self.expr(&c.init, &mut env) {
            Err(Stop::Return(_)) => return Err(Stop::Unsupported("return in const".into())),
            r => r?,
        };
        self.consts.insert(name.to_string(), v.clone());
        Ok(v)
    }

    pub fn call_fn(&mut self, idx: usize, args: Vec<V>) -> R {
        if self.depth == 0 && !self.consts_ready {
            // constants are evaluated while the script is compiled: what their initialisers
            // log is not part of any call
            self.consts_ready = true;
            let r = self.eval_consts();
            self.log.clear();
            r?;
        }
        self.tick()?;
        self.depth += 1;
        if self.depth > 200 {
            return Err(Stop::Budget);
        }
        let f = &self.prog.funcs[idx];
        let mut env = Env::new();
        for ((n, _), v) in f.params.iter().zip(args) {
            env.bind(n, v);
        }
        let r = self.block(&f.body, &mut env);
        self.depth -= 1;
        match r {
            Ok(v) => Ok(v),
            Err(Stop::Return(v)) => Ok(v),
            Err(e) => Err(e),
        }
    }

    fn block(&mut self, b: &Block, env: &mut Env) -> R {
        env.push();
        let r = self.block_inner(b, env);
        env.pop();
        r
    }

    fn block_inner(&mut self, b: &Block, env: &mut Env) -> R {
        for s in &b.stmts {
            match s {
                Stmt::Let(n, _, e) => {
                    let v = self.expr(e, env)?;
                    env.bind(n, v);
                }
                Stmt::Expr(e) => {
                    self.expr(e, env)?;
                }
            }
        }
        match &b.tail {
            Some(e) => self.expr(e, env),
            None => Ok(V::Unit),
        }
    }

    fn bool(&mut self, e: &Expr, env: &mut Env) -> Result<bool, Stop> {
        match self.expr(e, env)? {
            V::Bool(b) => Ok(b),
            v => Err(Stop::Unsupported(format!("expected bool, got {}", show(&v)))),
        }
    }

    pub fn arith(&mut self, op: BinOp, a: &V, b: &V) -> R {
        match (a, b) {
            (V::Int(t, x), V::Int(u, y)) if t == u => {
                if *t != IntTy::I32 {
                    self.path.nonint32_ops += 1;
                }
                let r = match op {
                    BinOp::Add => x + y,
                    BinOp::Sub => x - y,
                    BinOp::Mul => x.wrapping_mul(*y),
                    BinOp::Div => {
                        if *y == 0 {
                            return Err(Stop::Trap("div-by-zero"));
                        }
                        // truncating division; MIN / -1 does not fit and wraps like every other
                        // operation (the i128 quotient is wrapped to the width below)
                        x / y
                    }
                    BinOp::Rem => {
                        if *y == 0 {
                            return Err(Stop::Trap("rem-by-zero"));
                        }
                        // MIN % -1 is mathematically 0 and is a value like any other
                        x % y
                    }
                    _ => return Err(Stop::Unsupported("arith op".into())),
                };
                Ok(V::Int(*t, t.wrap(r)))
            }
            (V::F32(x), V::F32(y)) => {
                self.path.float_ops += 1;
                Ok(V::F32(match op {
                    BinOp::Add => x + y,
                    BinOp::Sub => x - y,
                    BinOp::Mul => x * y,
                    BinOp::Div => x / y,
                    _ => return Err(Stop::Unsupported("float op".into())),
                }))
            }
            (V::F64(x), V::F64(y)) => {
                self.path.float_ops += 1;
                Ok(V::F64(match op {
                    BinOp::Add => x + y,
                    BinOp::Sub => x - y,
                    BinOp::Mul => x * y,
                    BinOp::Div => x / y,
                    _ => return Err(Stop::Unsupported("float op".into())),
                }))
            }
            (V::Str(x), V::Str(y)) if op == BinOp::Add => {
                data_budget(x.len() + y.len())?;
                Ok(V::Str(format!("{x}{y}")))
            }
            (V::List(x), V::List(y)) if op == BinOp::Add => {
                data_budget(x.borrow().len() + y.borrow().len())?;
                let mut v: Vec<V> = x.borrow().iter().cloned().collect();
                v.extend(y.borrow().iter().cloned());
                Ok(V::list(v))
            }
            _ => Err(Stop::Unsupported(format!("arith {:?} on {} and {}", op, show(a), show(b)))),
        }
    }

    pub fn compare(&mut self, op: BinOp, a: &V, b: &V) -> R {
        self.path.cmp_ops += 1;
        if matches!(op, BinOp::Eq | BinOp::Ne) && lang_eq_spec(a, b).is_none() {
            return Err(Stop::Unspecified("a list holding a NaN is compared with itself"));
        }
        let r = match op {
            BinOp::Eq => lang_eq(a, b),
            BinOp::Ne => !lang_eq(a, b),
            _ => {
                let ord: Option<std::cmp::Ordering> = match (a, b) {
                    (V::Int(t, x), V::Int(u, y)) if t == u => {
                        if *t != IntTy::I32 {
                            self.path.nonint32_ops += 1;
                        }
                        Some(x.cmp(y))
                    }
                    (V::F32(x), V::F32(y)) => {
                        self.path.float_ops += 1;
                        x.partial_cmp(y)
                    }
                    (V::F64(x), V::F64(y)) => {
                        self.path.float_ops += 1;
                        x.partial_cmp(y)
                    }
                    _ => return Err(Stop::Unsupported("ordering on non-number".into())),
                };
                use std::cmp::Ordering::*;
                match (op, ord) {
                    (_, None) => false,
                    (BinOp::Lt, Some(o)) => o == Less,
                    (BinOp::Le, Some(o)) => o != Greater,
                    (BinOp::Gt, Some(o)) => o == Greater,
                    (BinOp::Ge, Some(o)) => o != Less,
                    _ => unreachable!(),
                }
            }
        };
        Ok(V::Bool(r))
    }

    fn place_mut<'e>(env: &'e mut Env, p: &Place) -> Result<&'e mut V, Stop> {
        let mut cur = env.get_mut(&p.var).ok_or_else(|| Stop::Unsupported(format!("unbound {}", p.var)))?;
        for f in &p.fields {
            match cur {
                V::Rec(fs) => {
                    cur = fs
                        .iter_mut()
                        .find(|(n, _)| n == f)
                        .map(|(_, v)| v)
                        .ok_or_else(|| Stop::Unsupported(format!("no field {f}")))?;
                }
                _ => return Err(Stop::Unsupported("field of non-record".into())),
            }
        }
        Ok(cur)
    }

    fn read_place(env: &Env, p: &Place) -> R {
        let mut cur = env.get(&p.var).ok_or_else(|| Stop::Unsupported(format!("unbound {}", p.var)))?;
        for f in &p.fields {
            match cur {
                V::Rec(fs) => {
                    cur = fs
                        .iter()
                        .find(|(n, _)| n == f)
                        .map(|(_, v)| v)
                        .ok_or_else(|| Stop::Unsupported(format!("no field {f}")))?;
                }
                _ => return Err(Stop::Unsupported("field of non-record".into())),
            }
        }
        Ok(cur.clone())
    }

    pub fn expr(&mut self, e: &Expr, env: &mut Env) -> R {
        self.tick()?;
        match e {
            Expr::Lit(l) => Ok(l.v.clone()),
            Expr::Paren(a) => self.expr(a, env),
            Expr::Var(n) => {
                if let Some(v) = env.get(n) {
                    return Ok(v.clone());
                }
                self.const_value(n)
            }
            Expr::Field(a, f) => {
                let v = self.expr(a, env)?;
                self.path.aggregate_access += 1;
                match v {
                    V::Rec(fs) => fs
                        .into_iter()
                        .find(|(n, _)| n == f)
                        .map(|(_, v)| v)
                        .ok_or_else(|| Stop::Unsupported(format!("no field {f}"))),
                    v => Err(Stop::Unsupported(format!("field {f} of {}", show(&v)))),
                }
            }
            Expr::Neg(a) => match self.expr(a, env)? {
                V::Int(t, x) if t.signed() => {
                    if t != IntTy::I32 {
                        self.path.nonint32_ops += 1;
                    }
                    Ok(V::Int(t, t.wrap(-x)))
                }
                V::F32(x) => {
                    self.path.float_ops += 1;
                    Ok(V::F32(-x))
                }
                V::F64(x) => {
                    self.path.float_ops += 1;
                    Ok(V::F64(-x))
                }
                v => Err(Stop::Unsupported(format!("neg of {}", show(&v)))),
            },
            Expr::Not(a) => {
                let b = self.bool(a, env)?;
                self.path.not_ops += 1;
                Ok(V::Bool(!b))
            }
            Expr::Bin(op, l, r) => match op {
                BinOp::And => {
                    if !self.bool(l, env)? {
                        self.path.short_circuit_skips += 1;
                        return Ok(V::Bool(false));
                    }
                    Ok(V::Bool(self.bool(r, env)?))
                }
                BinOp::Or => {
                    if self.bool(l, env)? {
                        self.path.short_circuit_skips += 1;
                        return Ok(V::Bool(true));
                    }
                    Ok(V::Bool(self.bool(r, env)?))
                }
                op if op.is_cmp() => {
                    let a = self.expr(l, env)?;
                    let b = self.expr(r, env)?;
                    self.compare(*op, &a, &b)
                }
                op => {
                    let a = self.expr(l, env)?;
                    let b = self.expr(r, env)?;
                    self.arith(*op, &a, &b)
                }
            },
            Expr::Call(i, args) => {
                let mut vs = Vec::new();
                for a in args {
                    vs.push(self.expr(a, env)?);
                }
                self.path.calls += 1;
                self.call_fn(*i, vs)
            }
            Expr::Host(n, args) => {
                let mut vs = Vec::new();
                for a in args {
                    vs.push(self.expr(a, env)?);
                }
                self.host(n, vs)
            }
            Expr::Method(r, m, args) => {
                let recv = self.expr(r, env)?;
                let mut vs = Vec::new();
                for a in args {
                    vs.push(self.expr(a, env)?);
                }
                self.method(recv, m, vs)
            }
            Expr::If(c, t, el) => {
                self.path.control += 1;
                if self.bool(c, env)? {
                    let v = self.block(t, env)?;
                    Ok(if el.is_some() { v } else { V::Unit })
                } else if let Some(el) = el {
                    self.block(el, env)
                } else {
                    Ok(V::Unit)
                }
            }
            Expr::Match(s, arms) => {
                self.path.control += 1;
                let v = self.expr(s, env)?;
                let V::Enum(variant, payload) = v else {
                    return Err(Stop::Unsupported("match on non-enum".into()));
                };
                for arm in arms {
                    let hit = match &arm.variant {
                        None => true,
                        Some(n) => *n == variant,
                    };
                    if !hit {
                        continue;
                    }
                    env.push();
                    if arm.variant.is_some() {
                        for (b, pv) in arm.binds.iter().zip(payload.iter()) {
                            env.bind(b, pv.clone());
                        }
                    }
                    if let Some(g) = &arm.guard {
                        let ok = match self.bool(g, env) {
                            Ok(b) => b,
                            Err(e) => {
                                env.pop();
                                return Err(e);
                            }
                        };
                        if !ok {
                            self.path.guards_failed += 1;
                            env.pop();
                            continue;
                        }
                    }
                    let r = self.block(&arm.body, env);
                    env.pop();
                    return r;
                }
                Err(Stop::Unsupported("no arm matched".into()))
            }
            Expr::Block(b) => self.block(b, env),
            Expr::Return(v) => {
                let v = match v {
                    Some(e) => self.expr(e, env)?,
                    None => V::Unit,
                };
                self.path.early_exits += 1;
                Err(Stop::Return(v))
            }
            Expr::Accept(v) => {
                let v = match v {
                    Some(e) => self.expr(e, env)?,
                    None => V::Unit,
                };
                self.path.early_exits += 1;
                Err(Stop::Return(V::Enum("Accept".into(), vec![v])))
            }
            Expr::Reject(v) => {
                let v = match v {
                    Some(e) => self.expr(e, env)?,
                    None => V::Unit,
                };
                self.path.early_exits += 1;
                Err(Stop::Return(V::Enum("Reject".into(), vec![v])))
            }
            Expr::Record(_, fields) => {
                let mut out = Vec::new();
                for (n, fe) in fields {
                    let v = self.expr(fe, env)?;
                    out.push((n.clone(), v));
                }
                Ok(V::Rec(out))
            }
            Expr::Ctor(_, variant, args) => {
                let mut vs = Vec::new();
                for a in args {
                    vs.push(self.expr(a, env)?);
                }
                Ok(V::Enum(variant.clone(), vs))
            }
            Expr::List(es) => {
                let mut vs = Vec::new();
                for a in es {
                    vs.push(self.expr(a, env)?);
                }
                Ok(V::list(vs))
            }
            Expr::FStr(parts) => {
                let mut s = String::new();
                for p in parts {
                    match p {
                        FPart::Text(t) => s.push_str(t),
                        FPart::Expr(e) => {
                            let v = self.expr(e, env)?;
                            if let V::Tr(t) = &v {
                                // the conversion of a host type is a host call, made where the part stands
                                self.path.host_calls += 1;
                                self.log.push(Ev::Eff("Tr.to_string".into(), vec![V::i32(*t)]));
                            }
                            s.push_str(&to_string(&v).ok_or_else(|| Stop::Unsupported("to_string".into()))?);
                        }
                    }
                }
                data_budget(s.len())?;
                Ok(V::Str(s))
            }
            Expr::Try(a) => match self.expr(a, env)? {
                V::Enum(n, mut p) if n == "Some" && p.len() == 1 => {
                    self.path.try_some += 1;
                    Ok(p.pop().unwrap())
                }
                V::Enum(n, _) if n == "None" => {
                    self.path.try_none += 1;
                    self.path.early_exits += 1;
                    Err(Stop::Return(V::none()))
                }
                v => Err(Stop::Unsupported(format!("? on {}", show(&v)))),
            },
            Expr::While(c, b) => {
                self.path.control += 1;
                loop {
                    if !self.bool(c, env)? {
                        break;
                    }
                    self.path.loop_iters += 1;
                    self.block(b, env)?;
                }
                Ok(V::Unit)
            }
            Expr::For(var, l, b) => {
                self.path.control += 1;
                let V::List(h) = self.expr(l, env)? else {
                    return Err(Stop::Unsupported("for over non-list".into()));
                };
                let mut i = 0usize;
                loop {
                    let item = {
                        let g = h.borrow();
                        if i >= g.len() {
                            break;
                        }
                        g[i].clone()
                    };
                    self.path.loop_iters += 1;
                    env.push();
                    env.bind(var, item);
                    let r = self.block(b, env);
                    env.pop();
                    r?;
                    i += 1;
                    self.tick()?;
                }
                Ok(V::Unit)
            }
            Expr::Assign(p, v) => {
                let v = self.expr(v, env)?;
                if !p.fields.is_empty() {
                    self.path.field_writes += 1;
                }
                *Self::place_mut(env, p)? = v;
                Ok(V::Unit)
            }
            Expr::Compound(p, op, v) => {
                // reads its target before evaluating the right-hand side
                let old = Self::read_place(env, p)?;
                let rhs = self.expr(v, env)?;
                let new = self.arith(*op, &old, &rhs)?;
                if !p.fields.is_empty() {
                    self.path.field_writes += 1;
                }
                *Self::place_mut(env, p)? = new;
                Ok(V::Unit)
            }
        }
    }

    fn input(&self, k: &V) -> u64 {
        let k = match k {
            V::Int(_, k) => *k as u64,
            _ => 0,
        };
        if self.inputs.is_empty() { 0 } else { self.inputs[(k as usize) % self.inputs.len()] }
    }

    pub fn host(&mut self, name: &str, args: Vec<V>) -> R {
        self.path.host_calls += 1;
        if let Some(ty) = name.strip_prefix("in_") {
            let w = self.input(&args[0]);
            return Ok(decode_input(ty, w));
        }
        if name.starts_with("out_") {
            self.log.push(Ev::Out(args[0].snapshot()));
            return Ok(V::Unit);
        }
        if name.starts_with("ov_") {
            self.log.push(Ev::Out(args[0].snapshot()));
            return Ok(V::i32(0));
        }
        match name {
            "e" => {
                let r = args[0].clone();
                self.log.push(Ev::Eff("e".into(), args));
                Ok(r)
            }
            "eb" => {
                let r = args[1].clone();
                self.log.push(Ev::Eff("eb".into(), args));
                Ok(r)
            }
            "es" => {
                let k = match &args[0] {
                    V::Int(_, k) => *k,
                    _ => 0,
                };
                self.log.push(Ev::Eff("es".into(), args));
                Ok(V::Str(format!("s{k}")))
            }
            "et" => {
                let k = match &args[0] {
                    V::Int(_, k) => *k as i32,
                    _ => 0,
                };
                self.log.push(Ev::Eff("et".into(), args));
                Ok(V::Tr(k))
            }
            "mk" => {
                let k = match &args[0] {
                    V::Int(_, k) => *k as i32,
                    _ => 0,
                };
                Ok(V::Tr(k))
            }
            "mkz" => Ok(V::Tz),
            "mkc" => {
                let k = match &args[0] {
                    V::Int(_, k) => *k as u32,
                    _ => 0,
                };
                Ok(V::Tc(k as u8, (k >> 8) as u8, (k >> 16) as u8))
            }
            "mk8" => {
                let k = match &args[0] {
                    V::Int(_, k) => *k as u64,
                    _ => 0,
                };
                Ok(V::T8(k))
            }
            _ => Err(Stop::Unsupported(format!("host fn {name}"))),
        }
    }

    pub fn method(&mut self, recv: V, m: &str, args: Vec<V>) -> R {
        match (&recv, m) {
            (V::Tr(t), "tag") => Ok(V::i32(*t)),
            (V::Tr(t), "m") => {
                self.path.host_calls += 1;
                let mut a = vec![V::i32(*t)];
                a.extend(args.iter().cloned());
                self.log.push(Ev::Eff("Tr.m".into(), a));
                let s = args.iter().fold(*t, |acc, v| match v {
                    V::Int(_, x) => acc.wrapping_add(*x as i32),
                    _ => acc,
                });
                Ok(V::i32(s))
            }
            (V::Tc(a, _, _), "first") => Ok(V::Int(IntTy::U8, *a as i128)),
            (V::T8(x), "val") => Ok(V::u64(*x)),
            (V::List(l), "push") => {
                self.path.list_mutations += 1;
                l.borrow_mut().push(args[0].clone());
                Ok(V::Unit)
            }
            (V::List(l), "len") => Ok(V::u64(l.borrow().len() as u64)),
            (V::List(l), "is_empty") => Ok(V::Bool(l.borrow().is_empty())),
            (V::List(l), "get") => {
                let V::Int(_, i) = &args[0] else { return Err(Stop::Unsupported("get idx".into())) };
                let g = l.borrow();
                Ok(match usize::try_from(*i).ok().and_then(|i| g.get(i)) {
                    Some(v) => V::some(v.clone()),
                    None => V::none(),
                })
            }
            (V::List(l), "swap") => {
                let (V::Int(_, i), V::Int(_, j)) = (&args[0], &args[1]) else {
                    return Err(Stop::Unsupported("swap idx".into()));
                };
                let mut g = l.borrow_mut();
                let n = g.len();
                if let (Ok(i), Ok(j)) = (usize::try_from(*i), usize::try_from(*j)) {
                    if i < n && j < n {
                        self.path.list_mutations += 1;
                        g.swap(i, j);
                    }
                }
                Ok(V::Unit)
            }
            (V::List(l), "contains") => Ok(V::Bool(l.borrow().iter().any(|x| lang_eq(x, &args[0])))),
            (V::List(l), "index") => Ok(match l.borrow().iter().position(|x| lang_eq(x, &args[0])) {
                Some(i) => V::some(V::u64(i as u64)),
                None => V::none(),
            }),
            (V::List(l), "concat") => {
                let V::List(o) = &args[0] else { return Err(Stop::Unsupported("concat".into())) };
                data_budget(l.borrow().len() + o.borrow().len())?;
                let mut v: Vec<V> = l.borrow().iter().cloned().collect();
                v.extend(o.borrow().iter().cloned());
                Ok(V::list(v))
            }
            (V::List(l), "join") => {
                let V::Str(sep) = &args[0] else { return Err(Stop::Unsupported("join".into())) };
                let parts: Vec<String> = l
                    .borrow()
                    .iter()
                    .map(|x| match x {
                        V::Str(s) => s.clone(),
                        _ => String::new(),
                    })
                    .collect();
                Ok(V::Str(parts.join(sep)))
            }
            (V::Str(s), "append") => match &args[0] {
                V::Str(o) => {
                    data_budget(s.len() + o.len())?;
                    Ok(V::Str(format!("{s}{o}")))
                }
                _ => Err(Stop::Unsupported("append".into())),
            },
            (V::Str(s), "contains") => match &args[0] {
                V::Str(o) => Ok(V::Bool(s.contains(o.as_str()))),
                _ => Err(Stop::Unsupported("contains".into())),
            },
            (V::Str(s), "starts_with") => match &args[0] {
                V::Str(o) => Ok(V::Bool(s.starts_with(o.as_str()))),
                _ => Err(Stop::Unsupported("starts_with".into())),
            },
            (V::Str(s), "ends_with") => match &args[0] {
                V::Str(o) => Ok(V::Bool(s.ends_with(o.as_str()))),
                _ => Err(Stop::Unsupported("ends_with".into())),
            },
            (V::Str(s), "to_uppercase") => Ok(V::Str(s.to_uppercase())),
            (V::Str(s), "to_lowercase") => Ok(V::Str(s.to_lowercase())),
            (V::Str(s), "trim") => Ok(V::Str(s.trim().to_string())),
            (V::Str(s), "eq") => match &args[0] {
                V::Str(o) => Ok(V::Bool(s == o)),
                _ => Err(Stop::Unsupported("eq".into())),
            },
            (V::F32(x), "abs") => Ok(V::F32(x.abs())),
            (V::F64(x), "abs") => Ok(V::F64(x.abs())),
            (V::F32(x), "floor") => Ok(V::F32(x.floor())),
            (V::F64(x), "floor") => Ok(V::F64(x.floor())),
            (V::F32(x), "is_nan") => Ok(V::Bool(x.is_nan())),
            (V::F64(x), "is_nan") => Ok(V::Bool(x.is_nan())),
            (V::Tr(t), "to_string") => {
                self.path.host_calls += 1;
                self.log.push(Ev::Eff("Tr.to_string".into(), vec![V::i32(*t)]));
                Ok(V::Str(format!("Tr({t})")))
            }
            (v, "to_string") => to_string(v).map(V::Str).ok_or_else(|| Stop::Unsupported("to_string".into())),
            _ => Err(Stop::Unsupported(format!("method {m} on {}", show(&recv)))),
        }
    }
}

pub fn new_env_for_test() -> impl Sized {
    Env::new()
}
