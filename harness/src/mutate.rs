//! Type-breaking edits for C07: each edit makes a well-typed program ill-typed
//! by construction under the documented typing rules.

use crate::ast::*;
use crate::core::Choices;
use crate::model::V;

fn lit(v: V, s: &str) -> Expr {
    Expr::Lit(Lit { v, text: s.to_string() })
}

/// a literal whose type cannot equal `t`
fn disjoint_literal(t: &Ty) -> Expr {
    match t {
        Ty::Str => lit(V::Bool(true), "true"),
        _ => lit(V::Str("zz".into()), "\"zz\""),
    }
}

pub fn walk_block_mut(b: &mut Block, fe: &mut dyn FnMut(&mut Expr), fb: &mut dyn FnMut(&mut Block)) {
    fb(b);
    for s in b.stmts.iter_mut() {
        match s {
            Stmt::Let(_, _, e) | Stmt::Expr(e) => walk_expr_mut(e, fe, fb),
        }
    }
    if let Some(t) = &mut b.tail {
        walk_expr_mut(t, fe, fb);
    }
}

pub fn walk_expr_mut(e: &mut Expr, fe: &mut dyn FnMut(&mut Expr), fb: &mut dyn FnMut(&mut Block)) {
    fe(e);
    match e {
        Expr::Lit(_) | Expr::Var(_) => {}
        Expr::Field(a, _) | Expr::Neg(a) | Expr::Not(a) | Expr::Try(a) | Expr::Paren(a) => walk_expr_mut(a, fe, fb),
        Expr::Bin(_, l, r) => {
            walk_expr_mut(l, fe, fb);
            walk_expr_mut(r, fe, fb);
        }
        Expr::Call(_, args) | Expr::Host(_, args) | Expr::Ctor(_, _, args) | Expr::List(args) => {
            for a in args.iter_mut() {
                walk_expr_mut(a, fe, fb);
            }
        }
        Expr::Method(r, _, args) => {
            walk_expr_mut(r, fe, fb);
            for a in args.iter_mut() {
                walk_expr_mut(a, fe, fb);
            }
        }
        Expr::If(c, t, el) => {
            walk_expr_mut(c, fe, fb);
            walk_block_mut(t, fe, fb);
            if let Some(b) = el {
                walk_block_mut(b, fe, fb);
            }
        }
        Expr::Match(s, arms) => {
            walk_expr_mut(s, fe, fb);
            for a in arms.iter_mut() {
                if let Some(g) = &mut a.guard {
                    walk_expr_mut(g, fe, fb);
                }
                walk_block_mut(&mut a.body, fe, fb);
            }
        }
        Expr::Block(b) => walk_block_mut(b, fe, fb),
        Expr::Return(v) | Expr::Accept(v) | Expr::Reject(v) => {
            if let Some(v) = v {
                walk_expr_mut(v, fe, fb);
            }
        }
        Expr::Record(_, fs) => {
            for (_, v) in fs.iter_mut() {
                walk_expr_mut(v, fe, fb);
            }
        }
        Expr::FStr(parts) => {
            for p in parts.iter_mut() {
                if let FPart::Expr(x) = p {
                    walk_expr_mut(x, fe, fb);
                }
            }
        }
        Expr::While(c, b) => {
            walk_expr_mut(c, fe, fb);
            walk_block_mut(b, fe, fb);
        }
        Expr::For(_, l, b) => {
            walk_expr_mut(l, fe, fb);
            walk_block_mut(b, fe, fb);
        }
        Expr::Assign(_, v) | Expr::Compound(_, _, v) => walk_expr_mut(v, fe, fb),
    }
}

/// does the block mention variable `name` (as a value or as the root of an assigned place)?
pub fn block_mentions(b: &mut Block, name: &str) -> bool {
    let mut found = false;
    let mut fe = |e: &mut Expr| match e {
        Expr::Var(n) if n == name => found = true,
        Expr::Assign(p, _) | Expr::Compound(p, _, _) if p.var == name => found = true,
        _ => {}
    };
    let mut fb = |_b: &mut Block| {};
    walk_block_mut(b, &mut fe, &mut fb);
    found
}

pub fn expr_mentions(e: &mut Expr, name: &str) -> bool {
    let mut found = false;
    let mut fe = |e: &mut Expr| match e {
        Expr::Var(n) if n == name => found = true,
        Expr::Assign(p, _) | Expr::Compound(p, _, _) if p.var == name => found = true,
        _ => {}
    };
    let mut fb = |_b: &mut Block| {};
    walk_expr_mut(e, &mut fe, &mut fb);
    found
}

pub const N_KINDS: usize = 32;

pub fn kind_name(k: usize) -> &'static str {
    [
        "let-initialiser-of-wrong-type",
        "if-condition-not-bool",
        "while-condition-not-bool",
        "call-with-extra-argument",
        "call-with-missing-argument",
        "function-result-of-wrong-type",
        "host-call-argument-of-wrong-type",
        "use-of-undefined-name",
        "use-after-scope",
        "record-literal-missing-field",
        "record-literal-duplicate-field",
        "record-literal-unknown-field",
        "match-missing-arm",
        "match-arm-after-default",
        "negate-unsigned",
        "arithmetic-on-non-number",
        "remainder-on-float",
        "ordering-on-non-number",
        "question-mark-outside-option-fn",
        "accept-in-plain-function",
        "assign-to-function-name",
        "field-assign-on-non-record",
        "redeclare-in-same-scope",
        "recursive-type-or-constant",
        "assign-to-constant",
        "return-in-constant-initialiser",
        "pattern-with-too-few-binders",
        "pattern-with-an-extra-binder",
        "pattern-of-an-unknown-variant",
        "then-local-used-in-else-branch",
        "arm-binder-used-in-another-arm",
        "loop-variable-used-after-the-loop",
    ][k]
}

/// Apply edit `kind` at the `site`-th applicable position (modulo the number of sites).
/// Returns the mutated program and a description, or None when the edit has no site.
pub fn apply(prog: &Program, kind: usize, c: &mut Choices) -> Option<(Program, String)> {
    let mut p = prog.clone();
    let nf = p.funcs.len();
    // the operator of the operator edits: every member of the class, not one representative
    let ord_op = [BinOp::Lt, BinOp::Le, BinOp::Gt, BinOp::Ge][c.below(4)];
    let arith_op = [BinOp::Mul, BinOp::Add, BinOp::Sub, BinOp::Div][c.below(4)];
    let op_text = |o: BinOp| match o {
        BinOp::Lt => "<",
        BinOp::Le => "<=",
        BinOp::Gt => ">",
        BinOp::Ge => ">=",
        BinOp::Mul => "*",
        BinOp::Add => "+",
        BinOp::Sub => "-",
        _ => "/",
    };
    // count pass then apply pass: sites are counted with the same traversal
    let mut target: Option<usize> = None;
    let mut desc = String::new();
    for pass in 0..2 {
        let mut count = 0usize;
        let mut applied = false;
        for fi in 0..nf {
            let ret = p.funcs[fi].ret.clone();
            let fkind = p.funcs[fi].kind;
            let fname = p.funcs[fi].name.clone();
            let n_params = p.funcs[fi].params.len();
            let funcs_sig: Vec<(usize, FnKind)> = p.funcs.iter().map(|f| (f.params.len(), f.kind)).collect();
            let decls = p.decls.clone();
            let mut body = std::mem::take(&mut p.funcs[fi].body);
            let mut hit = |count: &mut usize| -> bool {
                let h = pass == 1 && target == Some(*count);
                *count += 1;
                h
            };
            // function-level sites
            match kind {
                5 => {
                    // tail of a function with a non-unit result
                    if fkind == FnKind::Fn && ret != Ty::Unit && body.tail.is_some() && hit(&mut count) {
                        body.tail = Some(Box::new(disjoint_literal(&ret)));
                        desc = format!("tail of `{fname}` (declared -> {}) replaced by a literal of another type", ty_str(prog, &ret));
                        applied = true;
                    }
                }
                18 => {
                    if fkind == FnKind::Fn && !matches!(ret, Ty::Opt(_)) && hit(&mut count) {
                        let e = Expr::Try(Box::new(Expr::Ctor("Option".into(), "Some".into(), vec![lit(V::i32(1), "1")])));
                        body.stmts.insert(0, Stmt::Let("zz".into(), None, e));
                        desc = format!("`?` inserted in `{fname}`, which does not return an Option");
                        applied = true;
                    }
                }
                19 => {
                    if fkind == FnKind::Fn && !matches!(ret, Ty::Verdict(..)) && hit(&mut count) {
                        let cond = lit(V::Bool(false), "false");
                        let blk = Block { stmts: vec![Stmt::Expr(Expr::Accept(None))], tail: None };
                        body.stmts.insert(0, Stmt::Expr(Expr::If(Box::new(cond), blk, None)));
                        desc = format!("`accept` inserted in plain function `{fname}`");
                        applied = true;
                    }
                }
                20 => {
                    if hit(&mut count) {
                        let target_fn = if nf > 1 { "f1" } else { "main" };
                        body.stmts.insert(
                            0,
                            Stmt::Expr(Expr::Assign(Place { var: target_fn.into(), fields: vec![] }, Box::new(lit(V::i32(3), "3")))),
                        );
                        desc = format!("assignment to the function name `{target_fn}` inserted in `{fname}`");
                        applied = true;
                    }
                }
                _ => {}
            }
            let _ = n_params;
            if !applied {
                let mut fe = |e: &mut Expr| {
                    if applied {
                        return;
                    }
                    match (kind, &mut *e) {
                        (1, Expr::If(c, _, _)) => {
                            if hit(&mut count) {
                                **c = lit(V::Int(IntTy::U8, 1), "1u8");
                                desc = "if condition replaced by `1u8`".into();
                                applied = true;
                            }
                        }
                        (2, Expr::While(c, _)) => {
                            if hit(&mut count) {
                                **c = lit(V::Str("zz".into()), "\"zz\"");
                                desc = "while condition replaced by a string".into();
                                applied = true;
                            }
                        }
                        (3, Expr::Call(i, args)) => {
                            if funcs_sig.get(*i).map(|s| s.1) == Some(FnKind::Fn) && hit(&mut count) {
                                args.push(lit(V::i32(0), "0"));
                                desc = "extra argument added to a script function call".into();
                                applied = true;
                            }
                        }
                        (4, Expr::Call(_, args)) => {
                            if !args.is_empty() && hit(&mut count) {
                                args.pop();
                                desc = "last argument removed from a script function call".into();
                                applied = true;
                            }
                        }
                        (6, Expr::Host(n, args)) => {
                            if (n.starts_with("out_") || n == "e" || n == "mk") && args.len() == 1 && hit(&mut count) {
                                let wrong = if n == "out_String" { lit(V::Bool(true), "true") } else { lit(V::Str("zz".into()), "\"zz\"") };
                                args[0] = wrong;
                                desc = format!("argument of host function `{n}` replaced by a value of another type");
                                applied = true;
                            }
                        }
                        (7, Expr::Var(n)) => {
                            if hit(&mut count) {
                                desc = format!("use of `{n}` renamed to the undefined name `zz_undefined`");
                                *n = "zz_undefined".into();
                                applied = true;
                            }
                        }
                        (9, Expr::Record(Some(_), fs)) => {
                            if !fs.is_empty() && hit(&mut count) {
                                let (n, _) = fs.remove(0);
                                desc = format!("field `{n}` dropped from a named record literal");
                                applied = true;
                            }
                        }
                        (10, Expr::Record(_, fs)) => {
                            if !fs.is_empty() && hit(&mut count) {
                                let f = fs[0].clone();
                                desc = format!("field `{}` duplicated in a record literal", f.0);
                                fs.push(f);
                                applied = true;
                            }
                        }
                        (11, Expr::Record(Some(_), fs)) => {
                            if !fs.is_empty() && hit(&mut count) {
                                desc = format!("field `{}` renamed to the unknown field `zz_field`", fs[0].0);
                                fs[0].0 = "zz_field".into();
                                applied = true;
                            }
                        }
                        (12, Expr::Match(_, arms)) => {
                            // remove the only unguarded arm of a variant when there is no default arm
                            let has_default = arms.iter().any(|a| a.variant.is_none() && a.guard.is_none());
                            if !has_default {
                                let idx = arms.iter().position(|a| {
                                    a.guard.is_none()
                                        && a.variant.is_some()
                                        && arms.iter().filter(|b| b.variant == a.variant && b.guard.is_none()).count() == 1
                                });
                                if let Some(idx) = idx {
                                    if hit(&mut count) {
                                        desc = format!("the only unguarded arm for variant `{}` removed (no `_` arm present)", arms[idx].variant.clone().unwrap());
                                        arms.remove(idx);
                                        applied = true;
                                    }
                                }
                            }
                        }
                        (26, Expr::Match(_, arms)) => {
                            // drop the last binder of an arm whose body does not mention it
                            let idx = arms.iter_mut().position(|a| {
                                a.variant.is_some() && !a.binds.is_empty() && {
                                    let b = a.binds.last().unwrap().clone();
                                    !(block_mentions(&mut a.body, &b) || a.guard.as_mut().map(|g| expr_mentions(g, &b)).unwrap_or(false))
                                }
                            });
                            if let Some(idx) = idx {
                                if hit(&mut count) {
                                    let b = arms[idx].binds.pop().unwrap();
                                    desc = format!("binder `{b}` dropped from the pattern of variant `{}` (the variant has more fields than binders now)", arms[idx].variant.clone().unwrap());
                                    applied = true;
                                }
                            }
                        }
                        (27, Expr::Match(_, arms)) => {
                            if let Some(idx) = arms.iter().position(|a| a.variant.is_some()) {
                                if hit(&mut count) {
                                    arms[idx].binds.push("zz_extra".into());
                                    desc = format!("an extra binder added to the pattern of variant `{}`", arms[idx].variant.clone().unwrap());
                                    applied = true;
                                }
                            }
                        }
                        (28, Expr::Match(_, arms)) => {
                            if let Some(idx) = arms.iter().position(|a| a.variant.is_some()) {
                                if hit(&mut count) {
                                    desc = format!("pattern `{}` renamed to the unknown variant `ZzNoVariant`", arms[idx].variant.clone().unwrap());
                                    arms[idx].variant = Some("ZzNoVariant".into());
                                    applied = true;
                                }
                            }
                        }
                        (29, Expr::If(_, then, Some(els))) => {
                            let local = then.stmts.iter().find_map(|s| match s {
                                Stmt::Let(n, _, _) => Some(n.clone()),
                                _ => None,
                            });
                            if let Some(n) = local {
                                if hit(&mut count) {
                                    els.stmts.insert(0, Stmt::Let("zz".into(), None, Expr::Var(n.clone())));
                                    desc = format!("`{n}`, declared in the then-branch, used in the else-branch");
                                    applied = true;
                                }
                            }
                        }
                        (30, Expr::Match(_, arms)) => {
                            let from = arms.iter().position(|a| !a.binds.is_empty());
                            if let Some(i) = from {
                                if arms.len() >= 2 && hit(&mut count) {
                                    let b = arms[i].binds[0].clone();
                                    let j = if i + 1 < arms.len() { i + 1 } else { 0 };
                                    arms[j].body.stmts.insert(0, Stmt::Let("zz".into(), None, Expr::Var(b.clone())));
                                    arms[j].braces = true;
                                    desc = format!("`{b}`, bound by one match arm, used in another arm");
                                    applied = true;
                                }
                            }
                        }
                        (13, Expr::Match(_, arms)) => {
                            if let Some(pos) = arms.iter().position(|a| a.variant.is_none() && a.guard.is_none()) {
                                if hit(&mut count) {
                                    let mut extra = arms[pos].clone();
                                    extra.binds.clear();
                                    arms.push(extra);
                                    desc = "an arm added after the unguarded `_` arm".into();
                                    applied = true;
                                }
                            }
                        }
                        _ => {}
                    }
                };
                let mut fb = |_b: &mut Block| {};
                walk_block_mut(&mut body, &mut fe, &mut fb);
            }
            if !applied {
                // block-level sites (statements)
                let mut fe = |_e: &mut Expr| {};
                let mut fb = |b: &mut Block| {
                    if applied {
                        return;
                    }
                    let mut i = 0;
                    while i < b.stmts.len() {
                        let (name, ty) = match &b.stmts[i] {
                            Stmt::Let(n, Some(t), _) => (n.clone(), t.clone()),
                            _ => {
                                i += 1;
                                continue;
                            }
                        };
                        match kind {
                            0 => {
                                if !matches!(ty, Ty::Param(_)) && hit(&mut count) {
                                    if let Stmt::Let(_, _, e) = &mut b.stmts[i] {
                                        *e = disjoint_literal(&ty);
                                    }
                                    desc = format!("initialiser of `let {name}: {}` replaced by a literal of another type", ty_str(prog, &ty));
                                    applied = true;
                                    return;
                                }
                            }
                            8 => {
                                // use after the block that declared it: only for nested blocks (handled below)
                            }
                            14 => {
                                if matches!(ty, Ty::Int(t) if !t.signed()) && hit(&mut count) {
                                    if let Stmt::Let(_, _, e) = &mut b.stmts[i] {
                                        let old = std::mem::replace(e, lit(V::Unit, "()"));
                                        *e = Expr::Neg(Box::new(Expr::Paren(Box::new(old))));
                                    }
                                    desc = format!("initialiser of the unsigned `let {name}: {}` negated", ty_str(prog, &ty));
                                    applied = true;
                                    return;
                                }
                            }
                            15 => {
                                if matches!(ty, Ty::Bool | Ty::Char | Ty::Unit) && hit(&mut count) {
                                    let v = Expr::Var(name.clone());
                                    b.stmts.insert(i + 1, Stmt::Let("zz".into(), None, Expr::Bin(arith_op, Box::new(v.clone()), Box::new(v))));
                                    desc = format!("`{name} {} {name}` inserted for `{name}: {}`", op_text(arith_op), ty_str(prog, &ty));
                                    applied = true;
                                    return;
                                }
                            }
                            16 => {
                                if matches!(ty, Ty::F32 | Ty::F64) && hit(&mut count) {
                                    let v = Expr::Var(name.clone());
                                    b.stmts.insert(i + 1, Stmt::Let("zz".into(), None, Expr::Bin(BinOp::Rem, Box::new(v.clone()), Box::new(v))));
                                    desc = format!("`{name} % {name}` inserted for the float `{name}`");
                                    applied = true;
                                    return;
                                }
                            }
                            17 => {
                                if matches!(ty, Ty::Bool | Ty::Char | Ty::Str | Ty::Rec(..) | Ty::Anon(_)) && hit(&mut count) {
                                    let v = Expr::Var(name.clone());
                                    b.stmts.insert(i + 1, Stmt::Let("zz".into(), None, Expr::Bin(ord_op, Box::new(v.clone()), Box::new(v))));
                                    desc = format!("`{name} {} {name}` inserted for `{name}: {}`", op_text(ord_op), ty_str(prog, &ty));
                                    applied = true;
                                    return;
                                }
                            }
                            21 => {
                                if ty.is_scalar() && hit(&mut count) {
                                    b.stmts.insert(
                                        i + 1,
                                        Stmt::Expr(Expr::Assign(Place { var: name.clone(), fields: vec!["zz_field".into()] }, Box::new(lit(V::i32(1), "1")))),
                                    );
                                    desc = format!("field assignment `{name}.zz_field = 1` inserted for the scalar `{name}`");
                                    applied = true;
                                    return;
                                }
                            }
                            22 => {
                                if hit(&mut count) {
                                    let s = b.stmts[i].clone();
                                    b.stmts.insert(i + 1, s);
                                    desc = format!("`let {name}` declared twice in the same scope");
                                    applied = true;
                                    return;
                                }
                            }
                            _ => {}
                        }
                        i += 1;
                    }
                    if kind == 31 {
                        for i in 0..b.stmts.len() {
                            if let Stmt::Expr(Expr::For(x, _, _)) = &b.stmts[i] {
                                let x = x.clone();
                                if hit(&mut count) {
                                    b.stmts.insert(i + 1, Stmt::Let("zz".into(), None, Expr::Var(x.clone())));
                                    desc = format!("loop variable `{x}` used after the `for` loop");
                                    applied = true;
                                    return;
                                }
                            }
                        }
                    }
                    if kind == 8 {
                        // a nested block statement that declares a variable: use it after the block
                        for i in 0..b.stmts.len() {
                            let declared: Option<String> = match &b.stmts[i] {
                                Stmt::Expr(Expr::Block(inner)) | Stmt::Expr(Expr::If(_, inner, _)) | Stmt::Expr(Expr::While(_, inner)) => {
                                    inner.stmts.iter().find_map(|s| match s {
                                        Stmt::Let(n, _, _) => Some(n.clone()),
                                        _ => None,
                                    })
                                }
                                _ => None,
                            };
                            if let Some(n) = declared {
                                // the name must not be visible from an outer scope (names are unique in generated programs)
                                if hit(&mut count) {
                                    b.stmts.insert(i + 1, Stmt::Let("zz".into(), None, Expr::Var(n.clone())));
                                    desc = format!("`{n}` used after the block that declared it");
                                    applied = true;
                                    return;
                                }
                            }
                        }
                    }
                };
                walk_block_mut(&mut body, &mut fe, &mut fb);
            }
            p.funcs[fi].body = body;
            let _ = &decls;
            if applied {
                break;
            }
        }
        if kind == 23 && !applied {
            // program-level: recursive type or constant
            if pass == 0 {
                count = 6;
            } else {
                match target.unwrap_or(0) % 6 {
                    4 | 5 => {
                        // a constant that reaches itself only through one or two functions
                        let hops = if target.unwrap_or(0) % 6 == 4 { 1 } else { 2 };
                        let nf = p.funcs.len();
                        p.consts.push(ConstDecl { name: "ZCA".into(), ty: Ty::Int(IntTy::I32), init: Expr::Call(nf, vec![]) });
                        for h in 0..hops {
                            let tail = if h + 1 < hops {
                                Expr::Call(nf + h + 1, vec![])
                            } else {
                                Expr::Bin(BinOp::Add, Box::new(Expr::Var("ZCA".into())), Box::new(lit(V::i32(1), "1")))
                            };
                            p.funcs.push(Func {
                                kind: FnKind::Fn,
                                name: format!("zz_cf{h}"),
                                params: vec![],
                                ret: Ty::Int(IntTy::I32),
                                body: Block { stmts: vec![], tail: Some(Box::new(tail)) },
                            });
                        }
                        desc = format!("constant ZCA that depends on itself through {hops} function(s) added");
                    }
                    3 => {
                        // a generated cycle of 1-3 declarations; every link goes through one of the
                        // forms a type can be mentioned in (directly, optional, list, anonymous record,
                        // Result, or as the argument of a generic wrapper that uses its parameter in
                        // one of these forms)
                        let base = p.decls.len();
                        let n = 1 + c.below(3);
                        let wrap_form = c.below(5);
                        let wrapper = base + n;
                        let mut used_wrapper = false;
                        let mut forms = Vec::new();
                        let through = |c: &mut Choices, target: Ty, used_wrapper: &mut bool| -> (Ty, &'static str) {
                            match c.below(7) {
                                0 => (target, "directly"),
                                1 => (Ty::opt(target), "through `?`"),
                                2 => (Ty::list(target), "through List"),
                                3 => (Ty::Anon(vec![("v".into(), target)]), "through an anonymous record"),
                                4 => (Ty::Result(Box::new(Ty::Int(IntTy::I32)), Box::new(target)), "through Result"),
                                _ => {
                                    *used_wrapper = true;
                                    (Ty::Rec(wrapper, vec![target]), "as the argument of a generic record")
                                }
                            }
                        };
                        for i in 0..n {
                            let next = base + (i + 1) % n;
                            let next_is_enum = (i + 1) % n % 2 == 1;
                            let target = if next_is_enum { Ty::Enum(next, vec![]) } else { Ty::Rec(next, vec![]) };
                            let (t, how) = through(c, target, &mut used_wrapper);
                            forms.push(how);
                            if i % 2 == 1 {
                                p.decls.push(TypeDecl::Enum { name: format!("ZC{i}"), params: vec![], variants: vec![("ZCa".to_string() + &i.to_string(), vec![Ty::Int(IntTy::U8), t]), ("ZCb".to_string() + &i.to_string(), vec![])] });
                            } else {
                                p.decls.push(TypeDecl::Record { name: format!("ZC{i}"), params: vec![], fields: vec![("k".into(), Ty::Int(IntTy::U8)), ("x".into(), t)] });
                            }
                        }
                        if used_wrapper {
                            let inner = match wrap_form {
                                0 => Ty::Param(0),
                                1 => Ty::opt(Ty::Param(0)),
                                2 => Ty::list(Ty::Param(0)),
                                3 => Ty::Anon(vec![("v".into(), Ty::Param(0))]),
                                _ => Ty::Result(Box::new(Ty::Param(0)), Box::new(Ty::Bool)),
                            };
                            p.decls.push(TypeDecl::Record { name: "ZCW".into(), params: vec!["T0".into()], fields: vec![("inner".into(), inner)] });
                        }
                        desc = format!("a cycle of {n} type declaration(s) added, linked {}{}", forms.join(", "), if used_wrapper { format!(" (generic wrapper form {wrap_form})") } else { String::new() });
                    }
                    0 => {
                        let i = p.decls.len();
                        p.decls.push(TypeDecl::Record { name: "ZZ".into(), params: vec![], fields: vec![("x".into(), Ty::Rec(i, vec![]))] });
                        desc = "directly recursive record `record ZZ { x: ZZ }` added".into();
                    }
                    1 => {
                        let i = p.decls.len();
                        p.decls.push(TypeDecl::Record { name: "ZA".into(), params: vec![], fields: vec![("x".into(), Ty::opt(Ty::Enum(i + 1, vec![])))] });
                        p.decls.push(TypeDecl::Enum { name: "ZB".into(), params: vec![], variants: vec![("ZV".into(), vec![Ty::Rec(i, vec![])])] });
                        desc = "mutually recursive types `record ZA { x: ZB? }` / `enum ZB { ZV(ZA) }` added".into();
                    }
                    _ => {
                        p.consts.push(ConstDecl { name: "ZCA".into(), ty: Ty::Int(IntTy::I32), init: Expr::Var("ZCB".into()) });
                        p.consts.push(ConstDecl {
                            name: "ZCB".into(),
                            ty: Ty::Int(IntTy::I32),
                            init: Expr::Bin(BinOp::Add, Box::new(Expr::Var("ZCA".into())), Box::new(lit(V::i32(1), "1"))),
                        });
                        desc = "mutually recursive constants ZCA / ZCB added".into();
                    }
                }
                applied = true;
            }
        }
        if (kind == 24 || kind == 25) && !applied {
            if pass == 0 {
                count = 1;
            } else if kind == 24 {
                p.consts.push(ConstDecl { name: "ZK".into(), ty: Ty::Int(IntTy::I32), init: lit(V::i32(1), "1") });
                let compound = c.chance(128);
                let st = if compound {
                    Expr::Compound(Place { var: "ZK".into(), fields: vec![] }, BinOp::Add, Box::new(lit(V::i32(1), "1")))
                } else {
                    Expr::Assign(Place { var: "ZK".into(), fields: vec![] }, Box::new(lit(V::i32(6), "6")))
                };
                p.funcs[0].body.stmts.insert(0, Stmt::Expr(st));
                desc = "assignment to the script constant `ZK` inserted in main".into();
                applied = true;
            } else {
                let blk = Block { stmts: vec![Stmt::Expr(Expr::Return(Some(Box::new(lit(V::i32(1), "1")))))], tail: Some(Box::new(lit(V::i32(2), "2"))) };
                p.consts.push(ConstDecl { name: "ZR".into(), ty: Ty::Int(IntTy::I32), init: Expr::Block(blk) });
                desc = "constant whose initialiser contains `return` added".into();
                applied = true;
            }
        }
        if pass == 0 {
            if count == 0 {
                return None;
            }
            target = Some(c.below(count));
            // restart from a clean copy for the apply pass
            p = prog.clone();
        } else if !applied {
            return None;
        }
    }
    Some((p, desc))
}
