//! Layout-directed program generator for C02: declares records and enums with fields
//! of mixed sizes and alignments (nested, generic, optional, with strings), builds a
//! value from input words and literals, and then addresses every component of it
//! through every route the language offers: field paths, match bindings, copies that
//! are then mutated, equality against a value differing in exactly one leaf, passing
//! through a function, an Option, an if-expression and a list.  Every leaf is sent to
//! `out_<ty>` so the reference interpreter's log pins each component down exactly.

use crate::ast::*;
use crate::core::Choices;
use crate::model::V;

pub struct LGen<'c> {
    c: Choices<'c>,
    prog: Program,
    next: u32,
    allow_str: bool,
    pub allow_lists: bool,
    /// `fn main() -> i32 { ..; 0 }` instead of a unit main (the IR evaluator cannot return unit)
    pub main_returns_i32: bool,
    /// observe leaves through `ov_<ty>(x) -> i32` instead of the unit functions `out_<ty>(x)`
    pub value_returning_outs: bool,
    /// leaves are literals only (constant initialisers must not read inputs)
    literal_only: bool,
}

const SCALARS: [Ty; 13] = [
    Ty::Int(IntTy::U8),
    Ty::Int(IntTy::U16),
    Ty::Int(IntTy::U32),
    Ty::Int(IntTy::U64),
    Ty::Int(IntTy::I8),
    Ty::Int(IntTy::I16),
    Ty::Int(IntTy::I32),
    Ty::Int(IntTy::I64),
    Ty::F32,
    Ty::F64,
    Ty::Bool,
    Ty::Char,
    Ty::Int(IntTy::U8),
];

fn short(t: &Ty) -> String {
    crate::pgen::ty_short(t)
}

impl<'c> LGen<'c> {
    pub fn new(stream: &'c [u8], allow_str: bool) -> Self {
        LGen { c: Choices::new(stream), prog: Program::default(), next: 0, allow_str, allow_lists: true, main_returns_i32: false, value_returning_outs: false, literal_only: false }
    }

    fn fresh(&mut self, p: &str) -> String {
        self.next += 1;
        format!("{p}{}", self.next)
    }

    fn scalar(&mut self) -> Ty {
        SCALARS[self.c.below(SCALARS.len())].clone()
    }

    /// a field type: mostly small scalars of different sizes, sometimes an earlier
    /// declaration, an option, an anonymous record or a string
    fn field_ty(&mut self, depth: u32, param: bool) -> Ty {
        let k = self.c.below(20);
        match k {
            0..=9 => self.scalar(),
            11 if param => Ty::Param(0),
            // zero-sized fields between the others: `()` has no alignment of its own, the host type Tz
            // is zero-sized but aligned to four bytes
            10 if self.allow_str && !self.value_returning_outs && !self.literal_only => {
                if self.c.chance(128) { Ty::Unit } else { Ty::Tz }
            }
            12 | 13 if !self.prog.decls.is_empty() && depth > 0 => {
                let i = self.c.below(self.prog.decls.len());
                self.inst(i)
            }
            14 | 15 if depth > 0 => Ty::opt(self.field_ty(depth - 1, false)),
            16 if depth > 0 => {
                let n = 1 + self.c.below(3);
                let mut fs = Vec::new();
                for i in 0..n {
                    fs.push((format!("a{i}"), self.field_ty(depth - 1, false)));
                }
                Ty::Anon(fs)
            }
            17 | 18 | 19 if self.allow_str => Ty::Str,
            _ => self.scalar(),
        }
    }

    fn inst(&mut self, i: usize) -> Ty {
        let args = if self.prog.decls[i].params().is_empty() { vec![] } else { vec![self.scalar()] };
        match &self.prog.decls[i] {
            TypeDecl::Record { .. } => Ty::Rec(i, args),
            TypeDecl::Enum { .. } => Ty::Enum(i, args),
        }
    }

    fn decls(&mut self) {
        let n = 1 + self.c.below(3);
        for d in 0..n {
            let generic = self.c.chance(60);
            let params = if generic { vec!["T0".to_string()] } else { vec![] };
            if self.c.chance(128) {
                let nv = 1 + self.c.below(4);
                let mut variants = Vec::new();
                let mut param_used = false;
                for v in 0..nv {
                    let nf = self.c.below(5);
                    let mut ts = Vec::new();
                    for _ in 0..nf {
                        let t = self.field_ty(2, generic);
                        param_used |= t == Ty::Param(0);
                        ts.push(t);
                    }
                    variants.push((format!("V{d}x{v}"), ts));
                }
                let _ = param_used;
                self.prog.decls.push(TypeDecl::Enum { name: format!("E{d}"), params, variants });
            } else {
                let nf = 1 + self.c.below(6);
                let mut fields = Vec::new();
                for f in 0..nf {
                    fields.push((format!("f{f}"), self.field_ty(2, generic)));
                }
                self.prog.decls.push(TypeDecl::Record { name: format!("R{d}"), params, fields });
            }
        }
    }

    fn fields_of(&self, t: &Ty) -> Vec<(String, Ty)> {
        match t {
            Ty::Rec(i, args) => self.prog.decls[*i].fields().iter().map(|(n, t)| (n.clone(), t.subst(args))).collect(),
            Ty::Anon(fs) => fs.clone(),
            _ => vec![],
        }
    }

    fn variants_of(&self, t: &Ty) -> Vec<(String, Vec<Ty>)> {
        match t {
            Ty::Enum(i, args) => self.prog.decls[*i].variants().iter().map(|(n, ts)| (n.clone(), ts.iter().map(|t| t.subst(args)).collect())).collect(),
            Ty::Opt(t) => vec![("Some".into(), vec![(**t).clone()]), ("None".into(), vec![])],
            _ => vec![],
        }
    }

    fn lit(&mut self, t: &Ty) -> Expr {
        let (v, text) = match t {
            Ty::Int(it) => {
                let raw = match self.c.below(4) {
                    // integer literals are parsed as i64 first: larger u64 values cannot be spelled
                    0 => it.max_val().min(i64::MAX as i128),
                    1 => it.min_val(),
                    _ => self.c.below(200) as i128,
                };
                let v = it.wrap(raw);
                if v < 0 {
                    // the magnitude of the minimum is not a literal of the type: use MIN + 1
                    let v = if v == it.min_val() { v + 1 } else { v };
                    (V::Int(*it, v), format!("-{}{}", -v, it.name()))
                } else {
                    (V::Int(*it, v), format!("{v}{}", it.name()))
                }
            }
            Ty::F32 => {
                let x = [0.0f32, -0.0, 1.5, -2.25, 1e10][self.c.below(5)];
                (V::F32(x), format!("{x:?}f32"))
            }
            Ty::F64 => {
                let x = [0.0f64, -0.0, 1.5, -2.25, 1e100][self.c.below(5)];
                (V::F64(x), format!("{x:?}f64"))
            }
            Ty::Bool => {
                let b = self.c.chance(128);
                (V::Bool(b), format!("{b}"))
            }
            Ty::Char => {
                let ch = ['a', 'Z', '0', 'é', '日'][self.c.below(5)];
                (V::Char(ch), format!("'{ch}'"))
            }
            Ty::Str => {
                let s = ["", "a", "hello world, this is longer", "é日本"][self.c.below(4)];
                (V::Str(s.to_string()), format!("\"{s}\""))
            }
            _ => (V::Unit, "()".to_string()),
        };
        Expr::Lit(Lit { v, text })
    }

    fn leaf(&mut self, t: &Ty) -> Expr {
        if *t == Ty::Tz {
            return Expr::Host("mkz".into(), vec![]);
        }
        if *t == Ty::Unit {
            return self.lit(t);
        }
        if !self.literal_only && self.c.chance(150) {
            let k = self.c.below(6);
            let kl = Expr::Lit(Lit { v: V::Int(IntTy::U32, k as i128), text: format!("{k}") });
            Expr::Host(format!("in_{}", short(t)), vec![kl])
        } else {
            self.lit(t)
        }
    }

    /// an expression building a value of type `t`; `pick` fixes the enum variants so
    /// that two builds can share a shape
    fn build(&mut self, t: &Ty, shape: &mut Vec<usize>, replay: &mut Option<(&[usize], usize)>) -> Expr {
        match t {
            Ty::Rec(i, _) => {
                let name = self.prog.decls[*i].name().to_string();
                let fs = self.fields_of(t);
                let mut vals: Vec<(String, Expr)> = fs.iter().map(|(n, ft)| (n.clone(), self.build(ft, shape, replay))).collect();
                self.maybe_shuffle(&mut vals);
                Expr::Record(Some(name), vals)
            }
            Ty::Anon(fs) => {
                let mut vals: Vec<(String, Expr)> = fs.iter().map(|(n, ft)| (n.clone(), self.build(ft, shape, replay))).collect();
                self.maybe_shuffle(&mut vals);
                Expr::Record(None, vals)
            }
            Ty::Enum(..) | Ty::Opt(_) => {
                let vs = self.variants_of(t);
                let k = match replay {
                    Some((r, pos)) => {
                        let k = r.get(*pos).copied().unwrap_or(0) % vs.len();
                        *pos += 1;
                        k
                    }
                    None => self.c.below(vs.len()),
                };
                shape.push(k);
                let (vn, ts) = vs[k].clone();
                let args = ts.iter().map(|ft| self.build(ft, shape, replay)).collect();
                let path = match t {
                    Ty::Enum(i, _) => self.prog.decls[*i].name().to_string(),
                    _ => "Option".to_string(),
                };
                Expr::Ctor(path, vn, args)
            }
            _ => self.leaf(t),
        }
    }

    /// record literals may list their fields in any order
    fn maybe_shuffle(&mut self, vals: &mut Vec<(String, Expr)>) {
        if vals.len() >= 2 && self.c.chance(110) {
            for i in (1..vals.len()).rev() {
                let j = self.c.below(i + 1);
                vals.swap(i, j);
            }
        }
    }

    /// statements sending every leaf of `e: t` to an out function
    fn dump(&mut self, e: Expr, t: &Ty, out: &mut Vec<Stmt>) {
        match t {
            Ty::Rec(..) | Ty::Anon(_) => {
                for (n, ft) in self.fields_of(t) {
                    self.dump(Expr::Field(Box::new(e.clone()), n), &ft, out);
                }
            }
            Ty::Enum(..) | Ty::Opt(_) => {
                let mut arms = Vec::new();
                for (k, (vn, ts)) in self.variants_of(t).into_iter().enumerate() {
                    let mut binds = Vec::new();
                    let mut body = Vec::new();
                    // which variant was taken is observable as well
                    let f = if self.value_returning_outs { "ov_u8" } else { "out_u8" };
                    body.push(Stmt::Expr(Expr::Host(f.into(), vec![Expr::Lit(Lit { v: V::Int(IntTy::U8, k as i128), text: format!("{k}u8") })])));
                    for ft in ts.iter() {
                        let b = self.fresh("b");
                        binds.push(b.clone());
                        self.dump(Expr::Var(b), ft, &mut body);
                    }
                    arms.push(Arm { variant: Some(vn), binds, guard: None, body: Block { stmts: body, tail: None }, braces: true });
                }
                out.push(Stmt::Expr(Expr::Match(Box::new(e), arms)));
            }
            Ty::Unit => {}
            _ => {
                let pre = if self.value_returning_outs { "ov" } else { "out" };
                out.push(Stmt::Expr(Expr::Host(format!("{pre}_{}", short(t)), vec![e])))
            }
        }
    }

    /// all assignable leaf paths reachable through record fields only
    fn leaf_paths(&self, t: &Ty, cur: Vec<String>, out: &mut Vec<(Vec<String>, Ty)>) {
        match t {
            Ty::Rec(..) | Ty::Anon(_) => {
                for (n, ft) in self.fields_of(t) {
                    let mut p = cur.clone();
                    p.push(n);
                    self.leaf_paths(&ft, p, out);
                }
            }
            Ty::Unit => {}
            _ => {
                if !cur.is_empty() {
                    out.push((cur, t.clone()));
                }
            }
        }
    }

    pub fn program(mut self) -> Program {
        self.decls();
        let last = self.prog.decls.len() - 1;
        let t = self.inst(last);
        let mut stmts = Vec::new();
        let mut shape = Vec::new();
        let v_init = self.build(&t, &mut shape, &mut None);
        stmts.push(Stmt::Let("v".into(), Some(t.clone()), v_init));
        // a second value of the same shape (same variants), other leaves
        let mut shape2 = Vec::new();
        let shape_c = shape.clone();
        let v2_init = if self.c.chance(200) {
            self.build(&t, &mut shape2, &mut Some((&shape_c, 0)))
        } else {
            self.build(&t, &mut shape2, &mut None)
        };
        stmts.push(Stmt::Let("v2".into(), Some(t.clone()), v2_init));
        // copy, then mutate the copy: the original must not change
        stmts.push(Stmt::Let("w".into(), None, Expr::Var("v".into())));
        let mut paths = Vec::new();
        self.leaf_paths(&t, vec![], &mut paths);
        let n_mut = if paths.is_empty() { 0 } else { 1 + self.c.below(2) };
        for _ in 0..n_mut {
            let (p, pt) = paths[self.c.below(paths.len())].clone();
            let val = if matches!(pt, Ty::Enum(..) | Ty::Opt(_)) {
                let mut s = Vec::new();
                self.build(&pt, &mut s, &mut None)
            } else {
                self.leaf(&pt)
            };
            stmts.push(Stmt::Expr(Expr::Assign(Place { var: "w".into(), fields: p }, Box::new(val))));
        }
        let mut routes: Vec<u32> = (0..11).collect();
        // a random subset / order of the observation routes
        for i in (1..routes.len()).rev() {
            let j = self.c.below(i + 1);
            routes.swap(i, j);
        }
        let n_routes = 3 + self.c.below(6);
        let mut id_fn_needed = false;
        for r in routes.into_iter().take(n_routes) {
            match r {
                0 => self.dump(Expr::Var("v".into()), &t, &mut stmts),
                1 => self.dump(Expr::Var("w".into()), &t, &mut stmts),
                2 => {
                    for (a, b) in [("v", "v2"), ("v", "w"), ("v", "v")] {
                        let eq = Expr::Bin(BinOp::Eq, Box::new(Expr::Var(a.into())), Box::new(Expr::Var(b.into())));
                        let ob = if self.value_returning_outs { "ov_bool" } else { "out_bool" };
                        stmts.push(Stmt::Expr(Expr::Host(ob.into(), vec![eq])));
                        let ne = Expr::Bin(BinOp::Ne, Box::new(Expr::Var(a.into())), Box::new(Expr::Var(b.into())));
                        stmts.push(Stmt::Expr(Expr::Host(ob.into(), vec![ne])));
                    }
                }
                3 => {
                    id_fn_needed = true;
                    let x = self.fresh("x");
                    stmts.push(Stmt::Let(x.clone(), Some(t.clone()), Expr::Call(1, vec![Expr::Var("v2".into())])));
                    self.dump(Expr::Var(x), &t, &mut stmts);
                }
                4 => {
                    let o = self.fresh("o");
                    let ot = Ty::opt(t.clone());
                    stmts.push(Stmt::Let(o.clone(), Some(ot.clone()), Expr::Ctor("Option".into(), "Some".into(), vec![Expr::Var("w".into())])));
                    self.dump(Expr::Var(o), &ot, &mut stmts);
                }
                5 => {
                    let z = self.fresh("z");
                    let kl = Expr::Lit(Lit { v: V::Int(IntTy::U32, 0), text: "0".into() });
                    let cond = Expr::Host("in_bool".into(), vec![kl]);
                    let e = Expr::If(
                        Box::new(cond),
                        Block { stmts: vec![], tail: Some(Box::new(Expr::Var("v".into()))) },
                        Some(Block { stmts: vec![], tail: Some(Box::new(Expr::Var("v2".into()))) }),
                    );
                    stmts.push(Stmt::Let(z.clone(), Some(t.clone()), e));
                    self.dump(Expr::Var(z), &t, &mut stmts);
                }
                6 if self.allow_lists => {
                    let l = self.fresh("l");
                    let lt = Ty::list(t.clone());
                    stmts.push(Stmt::Let(l.clone(), Some(lt), Expr::List(vec![Expr::Var("v".into()), Expr::Var("v2".into()), Expr::Var("w".into())])));
                    let idx = self.c.below(4);
                    let il = Expr::Lit(Lit { v: V::Int(IntTy::U64, idx as i128), text: format!("{idx}") });
                    let got = Expr::Method(Box::new(Expr::Var(l)), "get".into(), vec![il]);
                    let g = self.fresh("g");
                    let ot = Ty::opt(t.clone());
                    stmts.push(Stmt::Let(g.clone(), Some(ot.clone()), got));
                    self.dump(Expr::Var(g), &ot, &mut stmts);
                }
                7 => {
                    // a record holding two of them side by side
                    let pt = Ty::Anon(vec![("p".into(), t.clone()), ("k".into(), Ty::Int(IntTy::U8)), ("q".into(), t.clone())]);
                    let p = self.fresh("p");
                    let k = self.lit(&Ty::Int(IntTy::U8));
                    stmts.push(Stmt::Let(
                        p.clone(),
                        Some(pt.clone()),
                        Expr::Record(None, vec![("p".into(), Expr::Var("v".into())), ("k".into(), k), ("q".into(), Expr::Var("v2".into()))]),
                    ));
                    self.dump(Expr::Var(p), &pt, &mut stmts);
                }
                10 => {
                    // a script constant of the type: copies of it are modified, the constant itself never changes
                    // (main is called several times on one package)
                    self.literal_only = true;
                    let mut sh = Vec::new();
                    let init = self.build(&t, &mut sh, &mut None);
                    self.literal_only = false;
                    self.prog.consts.push(ConstDecl { name: "ZK".into(), ty: t.clone(), init });
                    let cvar = self.fresh("c");
                    stmts.push(Stmt::Let(cvar.clone(), None, Expr::Var("ZK".into())));
                    let mut ps = Vec::new();
                    self.leaf_paths(&t, vec![], &mut ps);
                    if !ps.is_empty() {
                        for _ in 0..(1 + self.c.below(2)) {
                            let (p, pt) = ps[self.c.below(ps.len())].clone();
                            let val = if matches!(pt, Ty::Enum(..) | Ty::Opt(_)) {
                                let mut s2 = Vec::new();
                                self.build(&pt, &mut s2, &mut None)
                            } else {
                                self.leaf(&pt)
                            };
                            stmts.push(Stmt::Expr(Expr::Assign(Place { var: cvar.clone(), fields: p }, Box::new(val))));
                        }
                    } else {
                        stmts.push(Stmt::Expr(Expr::Assign(Place { var: cvar.clone(), fields: vec![] }, Box::new(Expr::Var("v".into())))));
                    }
                    self.dump(Expr::Var(cvar), &t, &mut stmts);
                    self.dump(Expr::Var("ZK".into()), &t, &mut stmts);
                }
                9 => {
                    // two un-annotated anonymous records with the same fields written in different orders
                    // meet in an assignment and in a comparison
                    let (p, q) = (self.fresh("p"), self.fresh("q"));
                    let k1 = self.lit(&Ty::Int(IntTy::U8));
                    let k2 = self.lit(&Ty::Int(IntTy::U8));
                    let w1 = self.lit(&Ty::Int(IntTy::U64));
                    let w2 = self.lit(&Ty::Int(IntTy::U64));
                    stmts.push(Stmt::Let(p.clone(), None, Expr::Record(None, vec![("k".into(), k1), ("val".into(), Expr::Var("v".into())), ("w".into(), w1)])));
                    stmts.push(Stmt::Let(q.clone(), None, Expr::Record(None, vec![("w".into(), w2), ("val".into(), Expr::Var("v2".into())), ("k".into(), k2)])));
                    let pt = Ty::Anon(vec![("k".into(), Ty::Int(IntTy::U8)), ("val".into(), t.clone()), ("w".into(), Ty::Int(IntTy::U64))]);
                    let ob = if self.value_returning_outs { "ov_bool" } else { "out_bool" };
                    let eq = Expr::Bin(BinOp::Eq, Box::new(Expr::Var(p.clone())), Box::new(Expr::Var(q.clone())));
                    stmts.push(Stmt::Expr(Expr::Host(ob.into(), vec![eq])));
                    self.dump(Expr::Var(p.clone()), &pt, &mut stmts);
                    stmts.push(Stmt::Expr(Expr::Assign(Place { var: p.clone(), fields: vec![] }, Box::new(Expr::Var(q.clone())))));
                    self.dump(Expr::Var(p), &pt, &mut stmts);
                    self.dump(Expr::Var(q), &pt, &mut stmts);
                }
                _ => {
                    // whole-value assignment is a copy too
                    let y = self.fresh("y");
                    stmts.push(Stmt::Let(y.clone(), Some(t.clone()), Expr::Var("v2".into())));
                    stmts.push(Stmt::Expr(Expr::Assign(Place { var: y.clone(), fields: vec![] }, Box::new(Expr::Var("w".into())))));
                    self.dump(Expr::Var(y), &t, &mut stmts);
                    self.dump(Expr::Var("v2".into()), &t, &mut stmts);
                }
            }
        }
        let main = if self.main_returns_i32 {
            let zero = Expr::Lit(Lit { v: V::Int(IntTy::I32, 0), text: "0".into() });
            Func { kind: FnKind::Fn, name: "main".into(), params: vec![], ret: Ty::Int(IntTy::I32), body: Block { stmts, tail: Some(Box::new(zero)) } }
        } else {
            Func { kind: FnKind::Fn, name: "main".into(), params: vec![], ret: Ty::Unit, body: Block { stmts, tail: None } }
        };
        self.prog.funcs.push(main);
        let _ = id_fn_needed;
        self.prog.funcs.push(Func {
            kind: FnKind::Fn,
            name: "f1".into(),
            params: vec![("x".into(), t.clone())],
            ret: t,
            body: Block { stmts: vec![], tail: Some(Box::new(Expr::Var("x".into()))) },
        });
        self.prog
    }
}
