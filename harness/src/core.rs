//! Core types shared by the driver and the workers.

use serde_json::{Value as J, json};

/// A generated case: a list of byte chunks.  Program-shaped properties use a
/// few long chunks (structure stream, literal stream, input streams); history
/// shaped properties use one chunk per operation so that proptest shrinks whole
/// operations.
pub type Case = Vec<Vec<u8>>;

#[derive(Clone, Copy, Debug, PartialEq, Eq)]
pub enum Tier {
    Quick,
    Thorough,
}

impl Tier {
    pub fn name(self) -> &'static str {
        match self {
            Tier::Quick => "quick",
            Tier::Thorough => "thorough",
        }
    }
}

/// How proptest should draw a case.
#[derive(Clone, Debug)]
pub struct CaseShape {
    /// maximum lengths of the leading fixed chunks
    pub fixed: Vec<usize>,
    /// maximum number of trailing "operation" chunks
    pub ops_max: usize,
    /// exact length of each operation chunk
    pub op_len: usize,
}

impl CaseShape {
    pub fn streams(lens: &[usize]) -> Self {
        CaseShape { fixed: lens.to_vec(), ops_max: 0, op_len: 0 }
    }
    pub fn history(prefix: &[usize], ops_max: usize, op_len: usize) -> Self {
        CaseShape { fixed: prefix.to_vec(), ops_max, op_len }
    }
}

#[derive(Clone, Copy, Debug, PartialEq, Eq)]
pub enum Verdict {
    Pass,
    Fail,
    /// the generator could not build a valid case from these bytes, or the
    /// compiler disagreed with the generator about well-typedness
    Discard,
}

#[derive(Clone, Debug)]
pub struct Outcome {
    pub verdict: Verdict,
    /// human readable explanation (failures, discards)
    pub msg: String,
    /// stable failure signature used to match known findings
    pub sig: String,
    pub nontrivial: bool,
    /// hash of the rendered case (for distinctness)
    pub hash: u64,
    /// class labels for the histogram
    pub classes: Vec<String>,
    /// number of evaluations (e.g. inputs tried) inside this case
    pub evals: u64,
    /// rendered case (only when requested or on failure)
    pub render: Option<String>,
    /// how many sub-cases were excluded because of a known finding
    pub excluded: Vec<(String, u64)>,
}

impl Outcome {
    pub fn pass() -> Self {
        Outcome {
            verdict: Verdict::Pass,
            msg: String::new(),
            sig: String::new(),
            nontrivial: false,
            hash: 0,
            classes: Vec::new(),
            evals: 1,
            render: None,
            excluded: Vec::new(),
        }
    }
    pub fn fail(sig: impl Into<String>, msg: impl Into<String>) -> Self {
        let mut o = Self::pass();
        o.verdict = Verdict::Fail;
        o.sig = sig.into();
        o.msg = msg.into();
        o
    }
    pub fn discard(msg: impl Into<String>) -> Self {
        let mut o = Self::pass();
        o.verdict = Verdict::Discard;
        o.msg = msg.into();
        o.evals = 0;
        o
    }
    pub fn class(mut self, c: impl Into<String>) -> Self {
        self.classes.push(c.into());
        self
    }

    pub fn to_json(&self) -> J {
        json!({
            "v": match self.verdict { Verdict::Pass => "pass", Verdict::Fail => "fail", Verdict::Discard => "discard" },
            "msg": self.msg,
            "sig": self.sig,
            "nt": self.nontrivial,
            "h": self.hash.to_string(),
            "cl": self.classes,
            "ev": self.evals,
            "r": self.render,
            "ex": self.excluded.iter().map(|(k, n)| json!([k, n])).collect::<Vec<_>>(),
        })
    }

    pub fn from_json(j: &J) -> Option<Self> {
        let verdict = match j.get("v")?.as_str()? {
            "pass" => Verdict::Pass,
            "fail" => Verdict::Fail,
            "discard" => Verdict::Discard,
            _ => return None,
        };
        Some(Outcome {
            verdict,
            msg: j.get("msg")?.as_str()?.to_string(),
            sig: j.get("sig")?.as_str()?.to_string(),
            nontrivial: j.get("nt")?.as_bool()?,
            hash: j.get("h")?.as_str()?.parse().ok()?,
            classes: j
                .get("cl")?
                .as_array()?
                .iter()
                .filter_map(|x| x.as_str().map(|s| s.to_string()))
                .collect(),
            evals: j.get("ev")?.as_u64()?,
            render: j.get("r").and_then(|x| x.as_str()).map(|s| s.to_string()),
            excluded: j
                .get("ex")
                .and_then(|x| x.as_array())
                .map(|a| {
                    a.iter()
                        .filter_map(|p| {
                            Some((
                                p.get(0)?.as_str()?.to_string(),
                                p.get(1)?.as_u64()?,
                            ))
                        })
                        .collect()
                })
                .unwrap_or_default(),
        })
    }
}

/// Worker-side state for one property.
pub trait WorkerState {
    fn run(&mut self, case: &Case, render: bool) -> Outcome;
    /// Render a case without executing it (used to describe cases that crash).
    fn render_only(&mut self, _case: &Case) -> String {
        String::new()
    }
    /// Reduce a failing case at the level of its own structure, keeping the failure
    /// signature; returns a rendering of the reduced case ("" = not supported).
    fn reduce(&mut self, _case: &Case, _sig: &str) -> String {
        String::new()
    }
}

/// A property check.
pub trait Prop: Sync {
    fn id(&self) -> &'static str;
    /// how cases are generated and what makes one non-trivial / distinct
    fn rule(&self) -> String;
    fn assumptions(&self) -> Vec<String>;
    /// number of random cases (total over all shards)
    fn cases(&self, tier: Tier) -> u32;
    fn shape(&self, tier: Tier) -> CaseShape;
    /// deterministic / exhaustive cases run before the random campaign
    fn fixed_cases(&self, _tier: Tier) -> Vec<Case> {
        Vec::new()
    }
    /// whether `fixed_cases` enumerates a finite space completely
    fn fixed_exhaustive(&self) -> bool {
        false
    }
    /// create the worker-side state; `excl` lists ids of known findings whose
    /// shapes must be kept out of the generated domain
    fn worker(&self, excl: &[String]) -> Box<dyn WorkerState>;
    /// per-case watchdog
    fn timeout_ms(&self) -> u64 {
        30_000
    }
    /// max shrink iterations
    fn max_shrink(&self) -> u32 {
        2000
    }
    /// discard rate above which the run is declared unhealthy (exit 2)
    fn max_discard_rate(&self) -> f64 {
        0.02
    }
}

pub fn hex(b: &[u8]) -> String {
    let mut s = String::with_capacity(b.len() * 2);
    for x in b {
        s.push_str(&format!("{:02x}", x));
    }
    s
}

pub fn unhex(s: &str) -> Option<Vec<u8>> {
    if s.len() % 2 != 0 {
        return None;
    }
    let b = s.as_bytes();
    let mut out = Vec::with_capacity(s.len() / 2);
    for i in (0..b.len()).step_by(2) {
        let h = (b[i] as char).to_digit(16)?;
        let l = (b[i + 1] as char).to_digit(16)?;
        out.push((h * 16 + l) as u8);
    }
    Some(out)
}

pub fn case_to_json(c: &Case) -> J {
    J::Array(c.iter().map(|ch| J::String(hex(ch))).collect())
}

pub fn case_from_json(j: &J) -> Option<Case> {
    j.as_array()?.iter().map(|x| unhex(x.as_str()?)).collect()
}

/// FNV-1a, used for distinctness hashes (stable across runs and processes).
pub fn fnv(data: &[u8]) -> u64 {
    let mut h: u64 = 0xcbf29ce484222325;
    for b in data {
        h ^= *b as u64;
        h = h.wrapping_mul(0x100000001b3);
    }
    h
}

/// splitmix64, used only to derive shard seeds from VERIF_SEED
pub fn mix(mut x: u64) -> u64 {
    x = x.wrapping_add(0x9E3779B97F4A7C15);
    let mut z = x;
    z = (z ^ (z >> 30)).wrapping_mul(0xBF58476D1CE4E5B9);
    z = (z ^ (z >> 27)).wrapping_mul(0x94D049BB133111EB);
    z ^ (z >> 31)
}

/// A reader of choices from a byte chunk.  Exhausted streams yield zeros, and
/// zero is always the simplest alternative.
pub struct Choices<'a> {
    data: &'a [u8],
    pos: usize,
}

impl<'a> Choices<'a> {
    pub fn new(data: &'a [u8]) -> Self {
        Choices { data, pos: 0 }
    }
    pub fn exhausted(&self) -> bool {
        self.pos >= self.data.len()
    }
    pub fn byte(&mut self) -> u8 {
        let b = self.data.get(self.pos).copied().unwrap_or(0);
        self.pos += 1;
        b
    }
    /// a value in 0..n (n >= 1); monotone in the byte value so shrinking works
    pub fn below(&mut self, n: usize) -> usize {
        debug_assert!(n >= 1);
        if n <= 1 {
            return 0;
        }
        if n <= 256 {
            (self.byte() as usize * n) >> 8
        } else {
            let v = self.u16() as usize;
            (v * n) >> 16
        }
    }
    pub fn u16(&mut self) -> u16 {
        let h = self.byte() as u16;
        let l = self.byte() as u16;
        (h << 8) | l
    }
    pub fn u64(&mut self) -> u64 {
        let mut v = 0u64;
        for _ in 0..8 {
            v = (v << 8) | self.byte() as u64;
        }
        v
    }
    /// true with probability num/256
    pub fn chance(&mut self, num: u32) -> bool {
        (self.byte() as u32) >= 256 - num.min(256)
    }
    pub fn pick<'b, T>(&mut self, xs: &'b [T]) -> &'b T {
        &xs[self.below(xs.len())]
    }
}

/// Strip the repository root (`/repo/`, or `$VERIF_REPO/` when the checks run against a scratch
/// copy) from a source location so that signatures are stable across checkouts.
pub fn strip_repo(loc: &str) -> &str {
    if let Ok(r) = std::env::var("VERIF_REPO") {
        let r = r.trim_end_matches('/');
        if let Some(rest) = loc.strip_prefix(r) {
            return rest.trim_start_matches('/');
        }
    }
    loc.strip_prefix("/repo/").unwrap_or(loc)
}
