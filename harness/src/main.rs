mod ast;
mod core;
mod grid;
mod host;
mod model;
mod props;
mod runner;
mod worker;

#[global_allocator]
static ALLOC: host::CountingAlloc = host::CountingAlloc;

fn usage() -> ! {
    eprintln!("usage: verif run <ID> <quick|thorough> | verif replay <ID> <path> | verif worker <ID> [--excl a,b] | verif list");
    std::process::exit(2)
}

fn main() {
    let args: Vec<String> = std::env::args().collect();
    if args.len() < 2 {
        usage();
    }
    match args[1].as_str() {
        "list" => {
            for p in props::all() {
                println!("{}", p.id());
            }
        }
        "worker" => {
            let Some(p) = args.get(2).and_then(|id| props::find(id)) else { usage() };
            let mut excl = Vec::new();
            if let Some(i) = args.iter().position(|a| a == "--excl") {
                if let Some(l) = args.get(i + 1) {
                    excl = l.split(',').filter(|s| !s.is_empty()).map(|s| s.to_string()).collect();
                }
            }
            std::process::exit(worker::worker_main(p, excl));
        }
        "run" => {
            let Some(p) = args.get(2).and_then(|id| props::find(id)) else { usage() };
            let tier = match args.get(3).map(|s| s.as_str()) {
                Some("thorough") => core::Tier::Thorough,
                _ => core::Tier::Quick,
            };
            let seed = std::env::var("VERIF_SEED").ok().and_then(|s| s.parse::<u64>().ok()).unwrap_or(0);
            std::process::exit(runner::run_check(p, tier, seed));
        }
        "replay" => {
            let Some(p) = args.get(2).and_then(|id| props::find(id)) else { usage() };
            let Some(path) = args.get(3) else { usage() };
            std::process::exit(runner::replay(p, std::path::Path::new(path)));
        }
        _ => usage(),
    }
}
