use roto_verif::{cg, core, host, model, props, runner, worker};

#[global_allocator]
static ALLOC: host::CountingAlloc = host::CountingAlloc;

struct StderrLogger;
impl log::Log for StderrLogger {
    fn enabled(&self, _: &log::Metadata) -> bool {
        true
    }
    fn log(&self, r: &log::Record) {
        eprintln!("[{}] {}", r.level(), r.args());
    }
    fn flush(&self) {}
}
static LOGGER: StderrLogger = StderrLogger;

fn usage() -> ! {
    eprintln!("usage: verif run <ID> <quick|thorough> | verif replay <ID> <path> | verif worker <ID> [--excl a,b] | verif list");
    std::process::exit(2)
}

fn main() {
    let args: Vec<String> = std::env::args().collect();
    if args.len() < 2 {
        usage();
    }
    match args[1].as_str() {
        "list" => {
            for p in props::all() {
                println!("{}", p.id());
            }
        }
        "worker" => {
            let Some(p) = args.get(2).and_then(|id| props::find(id)) else { usage() };
            let mut excl = Vec::new();
            if let Some(i) = args.iter().position(|a| a == "--excl") {
                if let Some(l) = args.get(i + 1) {
                    excl = l.split(',').filter(|s| !s.is_empty()).map(|s| s.to_string()).collect();
                }
            }
            std::process::exit(worker::worker_main(p, excl));
        }
        "run" => {
            let Some(p) = args.get(2).and_then(|id| props::find(id)) else { usage() };
            let tier = match args.get(3).map(|s| s.as_str()) {
                Some("thorough") => core::Tier::Thorough,
                _ => core::Tier::Quick,
            };
            let seed = std::env::var("VERIF_SEED").ok().and_then(|s| s.parse::<u64>().ok()).unwrap_or(0);
            std::process::exit(runner::run_check(p, tier, seed));
        }
        "tally" => {
            let Some(p) = args.get(2).and_then(|id| props::find(id)) else { usage() };
            let n = args.get(3).and_then(|s| s.parse().ok()).unwrap_or(500);
            let seed = args.get(4).and_then(|s| s.parse().ok()).unwrap_or(1);
            runner::tally(p, n, seed);
        }
        "compile" => {
            // debug: compile a script with the host runtime, optionally call `fn main()`
            worker::install_panic_hook();
            if std::env::var("VERIF_LOG").is_ok() {
                let _ = log::set_logger(&LOGGER);
                log::set_max_level(log::LevelFilter::Info);
            }
            let src = std::fs::read_to_string(&args[2]).expect("read script");
            let rt = host::build_runtime();
            match host::compile(&rt, &src) {
                Ok(mut pkg) => {
                    println!("compiled ok");
                    if let Ok(f) = pkg.get_function::<fn()>("main") {
                        host::reset(vec![1, 2, 3, 4, 5, 6]);
                        f.call();
                        for e in host::take_log() {
                            println!("  {}", model::show_ev(&e));
                        }
                        println!("live: {:?} anomalies: {:?}", host::live_count(), host::anomalies());
                    }
                }
                Err(e) => println!("{e}"),
            }
        }
        "eval" => {
            // debug: run fn main() of a script in the IR evaluator
            worker::install_panic_hook();
            let src = std::fs::read_to_string(&args[2]).expect("read script");
            let rt = host::build_runtime();
            match roto::FileTree::test_file("case.roto", &src, 0).parse().and_then(|p| p.typecheck(&rt)) {
                Ok(tc) => {
                    let l = tc.lower_to_mir().lower_to_lir();
                    host::reset(vec![1, 2, 3, 4, 5, 6]);
                    let r = l.verif_eval(&[]);
                    println!("evaluator: {:?}", r);
                    for e in host::take_log() {
                        println!("  {}", model::show_ev(&e));
                    }
                }
                Err(e) => println!("{}", host::render_report(&e)),
            }
        }
        "compiledir" => {
            worker::install_panic_hook();
            let rt = host::build_runtime();
            match roto::FileTree::read(&args[2]).and_then(|t| t.compile(&rt)) {
                Ok(mut pkg) => {
                    println!("compiled ok");
                    if let Ok(f) = pkg.get_function::<fn() -> i32>("main") {
                        println!("main() = {}", f.call());
                    }
                }
                Err(e) => println!("{}", host::render_report(&e)),
            }
        }
        "reduce" => {
            // debug: reduce a replay file in-process
            worker::install_panic_hook();
            let Some(p) = args.get(2).and_then(|id| props::find(id)) else { usage() };
            let j: serde_json::Value = serde_json::from_str(&std::fs::read_to_string(&args[3]).unwrap()).unwrap();
            let case = core::case_from_json(j.get("case").unwrap()).unwrap();
            let sig = j.get("sig").and_then(|x| x.as_str()).unwrap_or("").to_string();
            let mut w = p.worker(&[]);
            println!("{}", w.reduce(&case, &sig));
        }
        "cg-seeds" => {
            // seed corpus of the coverage-guided stage: proptest-generated cases as blobs
            let Some(p) = args.get(2).and_then(|id| props::find(id)) else { usage() };
            let n = args.get(3).and_then(|s| s.parse().ok()).unwrap_or(200);
            let Some(dir) = args.get(4) else { usage() };
            let seed = std::env::var("VERIF_SEED").ok().and_then(|s| s.parse::<u64>().ok()).unwrap_or(0);
            match cg::write_seeds(p, n, seed, std::path::Path::new(dir)) {
                Ok(k) => println!("{k} seed files, max_len {}", cg::max_len(&p.shape(core::Tier::Thorough))),
                Err(e) => {
                    eprintln!("{e}");
                    std::process::exit(2)
                }
            }
        }
        "cg-maxlen" => {
            let Some(p) = args.get(2).and_then(|id| props::find(id)) else { usage() };
            println!("{}", cg::max_len(&p.shape(core::Tier::Thorough)));
        }
        "cg-convert" => {
            // libFuzzer artifact -> replay file
            let Some(p) = args.get(2).and_then(|id| props::find(id)) else { usage() };
            let data = std::fs::read(&args[3]).expect("read artifact");
            let case = cg::blob_to_case(&p.shape(core::Tier::Thorough), &data);
            let j = serde_json::json!({"property": p.id(), "origin": "libfuzzer (coverage-guided stage)", "case": core::case_to_json(&case)});
            std::fs::write(&args[4], serde_json::to_string_pretty(&j).unwrap()).expect("write replay");
        }
        "replay" => {
            let Some(p) = args.get(2).and_then(|id| props::find(id)) else { usage() };
            let Some(path) = args.get(3) else { usage() };
            std::process::exit(runner::replay(p, std::path::Path::new(path)));
        }
        _ => usage(),
    }
}
