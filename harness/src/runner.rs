//! Driver: sharded proptest campaign over worker processes, shrinking, known
//! findings, replay files and evidence.

use std::collections::{BTreeMap, HashSet};
use std::io::{BufRead, BufReader, Write};
use std::os::unix::process::ExitStatusExt;
use std::path::{Path, PathBuf};
use std::process::{Child, ChildStdin, Command, Stdio};
use std::sync::atomic::{AtomicBool, Ordering};
use std::sync::mpsc::{Receiver, RecvTimeoutError, channel};
use std::sync::{Arc, Mutex};
use std::time::{Duration, Instant};

use proptest::collection::vec;
use proptest::prelude::*;
use proptest::test_runner::{Config, RngAlgorithm, RngSeed, TestCaseError, TestError, TestRunner};
use serde_json::{Value as J, json};

use crate::core::*;

pub const SHARDS: usize = 16;

pub fn verif_root() -> PathBuf {
    std::env::var("VERIF_ROOT").map(PathBuf::from).unwrap_or_else(|_| PathBuf::from("/verif"))
}

// ---------------------------------------------------------------------------
// worker handle

pub struct WorkerHandle {
    prop_id: String,
    excl: Vec<String>,
    child: Option<Child>,
    stdin: Option<ChildStdin>,
    rx: Option<Receiver<String>>,
    errlog: PathBuf,
    timeout: Duration,
    pub restarts: u64,
    reduce_sig: Option<String>,
}

#[derive(Debug)]
pub enum CaseResult {
    Done(Outcome),
    Timeout,
    Infra(String),
}

fn signal_name(s: i32) -> String {
    match s {
        4 => "SIGILL".into(),
        6 => "SIGABRT".into(),
        7 => "SIGBUS".into(),
        8 => "SIGFPE".into(),
        9 => "SIGKILL".into(),
        11 => "SIGSEGV".into(),
        5 => "SIGTRAP".into(),
        n => format!("SIG{n}"),
    }
}

impl WorkerHandle {
    pub fn new(prop_id: &str, excl: &[String], tag: &str, timeout_ms: u64) -> Self {
        let dir = verif_root().join("harness/target/worker-logs");
        let _ = std::fs::create_dir_all(&dir);
        WorkerHandle {
            prop_id: prop_id.to_string(),
            excl: excl.to_vec(),
            child: None,
            stdin: None,
            rx: None,
            errlog: dir.join(format!("{prop_id}-{tag}-{}.err", std::process::id())),
            timeout: Duration::from_millis(timeout_ms),
            restarts: 0,
            reduce_sig: None,
        }
    }

    fn ensure(&mut self) -> Result<(), String> {
        if self.child.is_some() {
            return Ok(());
        }
        let exe = std::env::current_exe().map_err(|e| e.to_string())?;
        let errf = std::fs::File::create(&self.errlog).map_err(|e| e.to_string())?;
        let mut cmd = Command::new(exe);
        cmd.arg("worker").arg(&self.prop_id);
        if !self.excl.is_empty() {
            cmd.arg("--excl").arg(self.excl.join(","));
        }
        let mut child = cmd
            .stdin(Stdio::piped())
            .stdout(Stdio::piped())
            .stderr(errf)
            .spawn()
            .map_err(|e| e.to_string())?;
        let stdout = child.stdout.take().unwrap();
        let (tx, rx) = channel();
        std::thread::spawn(move || {
            let mut r = BufReader::new(stdout);
            loop {
                let mut buf = Vec::new();
                match r.read_until(b'\n', &mut buf) {
                    Ok(0) | Err(_) => break,
                    Ok(_) => {
                        // a corrupted worker may emit bytes that are not UTF-8: pass them on
                        // (lossily) so that the driver sees a bad reply instead of a hang
                        let l = String::from_utf8_lossy(&buf).trim_end().to_string();
                        if tx.send(l).is_err() {
                            break;
                        }
                    }
                }
            }
        });
        self.stdin = child.stdin.take();
        self.child = Some(child);
        self.rx = Some(rx);
        self.restarts += 1;
        Ok(())
    }

    fn kill(&mut self) {
        if let Some(mut c) = self.child.take() {
            let _ = c.kill();
            let _ = c.wait();
        }
        self.stdin = None;
        self.rx = None;
    }

    fn stderr_tail(&self) -> String {
        let s = std::fs::read_to_string(&self.errlog).unwrap_or_default();
        let lines: Vec<&str> = s.lines().collect();
        let n = lines.len();
        lines[n.saturating_sub(14)..].join("\n")
    }

    pub fn render_only(&mut self, case: &Case) -> String {
        match self.request(case, false, true) {
            CaseResult::Done(o) => o.render.unwrap_or_default(),
            _ => String::new(),
        }
    }

    pub fn run(&mut self, case: &Case, render: bool) -> CaseResult {
        self.request(case, render, false)
    }

    pub fn reduce(&mut self, case: &Case, sig: &str) -> String {
        self.reduce_sig = Some(sig.to_string());
        let saved = self.timeout;
        self.timeout = Duration::from_secs(120);
        let r = self.request(case, false, false);
        self.timeout = saved;
        self.reduce_sig = None;
        match r {
            CaseResult::Done(o) => o.render.unwrap_or_default(),
            _ => String::new(),
        }
    }

    fn request(&mut self, case: &Case, render: bool, render_only: bool) -> CaseResult {
        if let Err(e) = self.ensure() {
            return CaseResult::Infra(format!("cannot start worker: {e}"));
        }
        let mut req = json!({"case": case_to_json(case), "render": render, "render_only": render_only});
        if let Some(s) = &self.reduce_sig {
            req["reduce_sig"] = J::String(s.clone());
        }
        let line = serde_json::to_string(&req).unwrap();
        let wrote = {
            let si = self.stdin.as_mut().unwrap();
            writeln!(si, "{line}").and_then(|_| si.flush())
        };
        let reply = if wrote.is_ok() {
            self.rx.as_ref().unwrap().recv_timeout(self.timeout)
        } else {
            Err(RecvTimeoutError::Disconnected)
        };
        match reply {
            Ok(l) => match serde_json::from_str::<J>(&l).ok().and_then(|j| Outcome::from_json(&j)) {
                Some(o) => CaseResult::Done(o),
                None => {
                    // the worker is alive but its reply is garbage: its memory was corrupted
                    // by the case in flight
                    self.kill();
                    let tail = self.stderr_tail();
                    CaseResult::Done(Outcome::fail(
                        "crash:corrupt-reply".to_string(),
                        format!(
                            "worker process answered with a corrupt reply (memory corruption); reply: {}\nstderr tail:\n{}",
                            l.chars().take(200).collect::<String>(),
                            tail
                        ),
                    ))
                }
            },
            Err(RecvTimeoutError::Timeout) => {
                self.kill();
                CaseResult::Timeout
            }
            Err(RecvTimeoutError::Disconnected) => {
                // worker died: classify (close its stdin first; kill it if it lingers)
                self.stdin = None;
                let status = self.child.as_mut().map(|c| {
                    for _ in 0..200 {
                        if let Ok(Some(st)) = c.try_wait() {
                            return Ok(st);
                        }
                        std::thread::sleep(Duration::from_millis(10));
                    }
                    let _ = c.kill();
                    c.wait()
                });
                self.child = None;
                self.stdin = None;
                self.rx = None;
                let tail = self.stderr_tail();
                let what = match status {
                    Some(Ok(st)) => {
                        if let Some(sig) = st.signal() {
                            signal_name(sig)
                        } else {
                            format!("exit{}", st.code().unwrap_or(-1))
                        }
                    }
                    _ => "unknown".into(),
                };
                let mut detail = String::new();
                if tail.contains("has overflowed its stack") {
                    detail = "stack-overflow".into();
                } else if let Some(l) = tail.lines().rev().find(|l| l.contains("panicked at ")) {
                    // "panicked at /repo/src/x.rs:12:5:" or "panicked at loc: msg"
                    let after = l.split("panicked at ").nth(1).unwrap_or("");
                    let loc = after.split(": ").next().unwrap_or(after);
                    let loc = loc.trim_end_matches(':');
                    // strip :line:col
                    let mut parts: Vec<&str> = loc.split(':').collect();
                    while parts.len() > 1 && parts.last().map(|p| p.chars().all(|c| c.is_ascii_digit())).unwrap_or(false) {
                        parts.pop();
                    }
                    let f = parts.join(":");
                    detail = crate::core::strip_repo(&f).to_string();
                }
                let ctx = tail
                    .lines()
                    .rev()
                    .find_map(|l| l.strip_prefix("@@ctx "))
                    .map(|c| format!(":ctx={c}"))
                    .unwrap_or_default();
                CaseResult::Done(Outcome::fail(
                    format!("crash:{what}:{detail}{ctx}"),
                    format!("worker process died ({what}); stderr tail:\n{tail}"),
                ))
            }
        }
    }
}

impl Drop for WorkerHandle {
    fn drop(&mut self) {
        self.kill();
        let _ = std::fs::remove_file(&self.errlog);
    }
}

// ---------------------------------------------------------------------------
// known findings

#[derive(Clone, Debug)]
pub struct Known {
    pub id: String,
    pub property: String,
    pub status: String, // "known" | "fixed"
    pub title: String,
    pub commit: String,
    /// all of these substrings must occur in the failure signature
    pub sig_contains: Vec<String>,
    /// reproducer case (replayed on every run)
    pub reproducer: Option<Case>,
}

pub fn load_known(prop: &str) -> Vec<Known> {
    let p = verif_root().join("known_findings.json");
    let Ok(s) = std::fs::read_to_string(&p) else {
        return Vec::new();
    };
    let Ok(j) = serde_json::from_str::<J>(&s) else {
        eprintln!("warning: known_findings.json does not parse");
        return Vec::new();
    };
    let mut out = Vec::new();
    for e in j.get("findings").and_then(|x| x.as_array()).cloned().unwrap_or_default() {
        let g = |k: &str| e.get(k).and_then(|x| x.as_str()).unwrap_or("").to_string();
        let affects: Vec<String> = e
            .get("affects")
            .and_then(|x| x.as_array())
            .map(|a| a.iter().filter_map(|s| s.as_str().map(|s| s.to_string())).collect())
            .unwrap_or_default();
        if g("property") != prop && !affects.iter().any(|a| a == prop) {
            continue;
        }
        out.push(Known {
            id: g("id"),
            property: g("property"),
            status: g("status"),
            title: g("title"),
            commit: g("commit"),
            sig_contains: e
                .get("sig_contains")
                .and_then(|x| x.as_array())
                .map(|a| a.iter().filter_map(|s| s.as_str().map(|s| s.to_string())).collect())
                .unwrap_or_default(),
            reproducer: e.get("reproducer").and_then(case_from_json).or_else(|| {
                // readable form: list of strings, each one chunk (UTF-8 bytes)
                e.get("reproducer_text")?
                    .as_array()?
                    .iter()
                    .map(|x| x.as_str().map(|s| s.as_bytes().to_vec()))
                    .collect()
            }),
        });
    }
    out
}

fn matches_known(k: &Known, sig: &str) -> bool {
    !k.sig_contains.is_empty() && k.sig_contains.iter().all(|s| sig.contains(s.as_str()))
}

// ---------------------------------------------------------------------------
// statistics

#[derive(Default)]
pub struct Stats {
    pub cases: u64,
    pub evals: u64,
    pub discards: u64,
    pub nontrivial_cases: u64,
    pub distinct: HashSet<u64>,
    pub classes: BTreeMap<String, u64>,
    pub excluded: BTreeMap<String, u64>,
    pub known_hits: BTreeMap<String, u64>,
    pub samples: Vec<String>,
    pub discard_samples: Vec<String>,
    pub timeouts: u64,
    pub infra: Vec<String>,
    pub crashes_restarts: u64,
}

impl Stats {
    fn absorb(&mut self, o: &Outcome) {
        self.cases += 1;
        self.evals += o.evals;
        if o.verdict == Verdict::Discard {
            self.discards += 1;
            if self.discard_samples.len() < 3 {
                self.discard_samples.push(o.msg.chars().take(600).collect());
            }
        }
        if o.nontrivial && o.verdict == Verdict::Pass {
            self.nontrivial_cases += 1;
            self.distinct.insert(o.hash);
        }
        for c in &o.classes {
            *self.classes.entry(c.clone()).or_default() += 1;
        }
        for (k, n) in &o.excluded {
            *self.excluded.entry(k.clone()).or_default() += n;
        }
    }
    fn merge(&mut self, other: Stats) {
        self.cases += other.cases;
        self.evals += other.evals;
        self.discards += other.discards;
        self.nontrivial_cases += other.nontrivial_cases;
        self.distinct.extend(other.distinct);
        for (k, v) in other.classes {
            *self.classes.entry(k).or_default() += v;
        }
        for (k, v) in other.excluded {
            *self.excluded.entry(k).or_default() += v;
        }
        for (k, v) in other.known_hits {
            *self.known_hits.entry(k).or_default() += v;
        }
        for s in other.samples {
            if self.samples.len() < 10 {
                self.samples.push(s);
            }
        }
        for s in other.discard_samples {
            if self.discard_samples.len() < 4 {
                self.discard_samples.push(s);
            }
        }
        self.timeouts += other.timeouts;
        self.infra.extend(other.infra);
        self.crashes_restarts += other.crashes_restarts;
    }
}

#[derive(Clone, Debug)]
pub struct Violation {
    pub case: Case,
    pub sig: String,
    pub msg: String,
    pub render: String,
    pub shard: usize,
    pub origin: String,
}

// ---------------------------------------------------------------------------
// one shard

struct ShardCtx<'a> {
    prop: &'a dyn Prop,
    known_active: &'a [Known],
    worker: WorkerHandle,
    stats: Stats,
    /// set once the first (unknown) failure has been seen: stop counting
    failing_sig: Option<String>,
    aborted: bool,
}

impl<'a> ShardCtx<'a> {
    /// Returns Ok(()) if the case passes (or is discarded / known), Err(sig) if it fails.
    fn eval(&mut self, case: &Case) -> Result<(), String> {
        if self.aborted {
            return Ok(());
        }
        let shrinking = self.failing_sig.is_some();
        let want_render = !shrinking && self.stats.samples.len() < 2 && self.stats.cases < 60;
        let res = self.worker.run(case, want_render);
        match res {
            CaseResult::Done(o) => {
                if let Some(sig) = &self.failing_sig {
                    // shrinking: keep only the same failure
                    return if o.verdict == Verdict::Fail && &o.sig == sig {
                        Err(sig.clone())
                    } else {
                        Ok(())
                    };
                }
                if o.verdict == Verdict::Fail {
                    if let Some(k) = self.known_active.iter().find(|k| matches_known(k, &o.sig)) {
                        *self.stats.known_hits.entry(k.id.clone()).or_default() += 1;
                        self.stats.cases += 1;
                        return Ok(());
                    }
                    self.failing_sig = Some(o.sig.clone());
                    return Err(o.sig);
                }
                if want_render && o.nontrivial {
                    if let Some(r) = &o.render {
                        self.stats.samples.push(r.clone());
                    }
                }
                self.stats.absorb(&o);
                Ok(())
            }
            CaseResult::Timeout => {
                if !shrinking {
                    self.stats.timeouts += 1;
                    // keep the whole case: `./check <ID> --replay <file>` re-runs it
                    let dir = verif_root().join("replays");
                    let _ = std::fs::create_dir_all(&dir);
                    let file = dir.join(format!("{}-timeout-{}.json", self.worker.prop_id, std::process::id()));
                    let _ = std::fs::write(&file, serde_json::to_string_pretty(&json!({"property": self.worker.prop_id, "origin": "watchdog", "case": case_to_json(case)})).unwrap_or_default());
                    self.stats.infra.push(format!(
                        "watchdog expired after {:?} on the case kept in {} ({}..)",
                        self.worker.timeout,
                        file.display(),
                        serde_json::to_string(&case_to_json(case)).unwrap_or_default().chars().take(120).collect::<String>()
                    ));
                    self.aborted = true;
                }
                Ok(())
            }
            CaseResult::Infra(e) => {
                if !shrinking {
                    self.stats.infra.push(e);
                    self.aborted = true;
                }
                Ok(())
            }
        }
    }
}

pub fn case_strategy(shape: &CaseShape) -> BoxedStrategy<Case> {
    let fixed: Vec<BoxedStrategy<Vec<u8>>> =
        shape.fixed.iter().map(|&n| vec(any::<u8>(), 0..=n).boxed()).collect();
    let ops = vec(vec(any::<u8>(), shape.op_len..=shape.op_len), 0..=shape.ops_max);
    (fixed, ops)
        .prop_map(|(mut f, o)| {
            f.extend(o);
            f
        })
        .boxed()
}

fn run_shard(
    prop: &dyn Prop,
    tier: Tier,
    seed: u64,
    shard: usize,
    fixed: Vec<Case>,
    n_random: u32,
    known_active: &[Known],
    excl: &[String],
    stop: &AtomicBool,
) -> (Stats, Option<Violation>) {
    let mut cx = ShardCtx {
        prop,
        known_active,
        worker: WorkerHandle::new(prop.id(), excl, &format!("s{shard}"), prop.timeout_ms()),
        stats: Stats::default(),
        failing_sig: None,
        aborted: false,
    };
    let mut violation: Option<Violation> = None;

    // fixed / enumerated cases (no shrinking: they are already minimal units)
    for case in fixed {
        if stop.load(Ordering::Relaxed) || cx.aborted {
            break;
        }
        if let Err(sig) = cx.eval(&case) {
            let (msg, render) = describe(&mut cx.worker, &case);
            violation = Some(Violation { case, sig, msg, render, shard, origin: "enumerated".into() });
            break;
        }
    }

    if violation.is_none() && n_random > 0 && !cx.aborted {
        let shape = prop.shape(tier);
        let strat = case_strategy(&shape);
        let shard_seed = mix(seed.wrapping_mul(SHARDS as u64).wrapping_add(shard as u64) ^ fnv(prop.id().as_bytes()));
        let config = Config {
            cases: n_random,
            max_local_rejects: 1 << 30,
            max_global_rejects: 1 << 30,
            max_flat_map_regens: 1 << 20,
            failure_persistence: None,
            source_file: None,
            test_name: None,
            max_shrink_time: 0,
            max_shrink_iters: prop.max_shrink().min(400),
            max_default_size_range: 100,
            result_cache: proptest::test_runner::basic_result_cache,
            verbose: 0,
            rng_algorithm: RngAlgorithm::ChaCha,
            rng_seed: RngSeed::Fixed(shard_seed),
            ..Config::default()
        };
        let mut runner = TestRunner::new(config);
        let cxm = Mutex::new(&mut cx);
        let result = runner.run(&strat, |case| {
            if stop.load(Ordering::Relaxed) {
                return Ok(());
            }
            let mut g = cxm.lock().unwrap();
            match g.eval(&case) {
                Ok(()) => Ok(()),
                Err(sig) => Err(TestCaseError::fail(sig)),
            }
        });
        drop(cxm);
        match result {
            Ok(()) => {}
            Err(TestError::Fail(reason, case)) => {
                stop.store(true, Ordering::Relaxed);
                let case = minimize(&mut cx, case, reason.message());
                let (msg, render) = describe(&mut cx.worker, &case);
                violation = Some(Violation {
                    case,
                    sig: reason.message().to_string(),
                    msg,
                    render,
                    shard,
                    origin: "random+shrunk".into(),
                });
            }
            Err(TestError::Abort(r)) => {
                cx.stats.infra.push(format!("proptest aborted: {}", r.message()));
            }
        }
    }
    cx.stats.crashes_restarts = cx.worker.restarts.saturating_sub(1);
    (cx.stats, violation)
}

/// Position-stable minimisation after proptest's generic shrink: empty whole chunks,
/// truncate chunks, and zero windows of bytes (zero = simplest choice, and zeroing keeps
/// every later byte at its position, unlike deletion).
fn minimize(cx: &mut ShardCtx<'_>, mut case: Case, sig: &str) -> Case {
    let mut budget: i32 = 6000;
    let mut fails = |cx: &mut ShardCtx<'_>, c: &Case, budget: &mut i32| -> bool {
        if *budget <= 0 {
            return false;
        }
        *budget -= 1;
        match cx.worker.run(c, false) {
            CaseResult::Done(o) => o.verdict == Verdict::Fail && o.sig == sig,
            _ => false,
        }
    };
    // drop trailing chunks / empty chunks (inputs, operations)
    let mut i = case.len();
    while i > 0 {
        i -= 1;
        if case[i].is_empty() {
            continue;
        }
        let mut c = case.clone();
        c[i].clear();
        if fails(cx, &c, &mut budget) {
            case = c;
        }
    }
    for _round in 0..2 {
        for ci in 0..case.len() {
            // truncate
            let mut len = case[ci].len();
            let mut step = len / 2;
            while step >= 1 && len > 0 {
                if len >= step {
                    let mut c = case.clone();
                    c[ci].truncate(len - step);
                    if fails(cx, &c, &mut budget) {
                        case = c;
                        len -= step;
                        continue;
                    }
                }
                step /= 2;
            }
            // zero windows
            let mut w = 64usize;
            while w >= 1 {
                let n = case[ci].len();
                let mut start = 0;
                while start < n {
                    let end = (start + w).min(n);
                    if case[ci][start..end].iter().any(|b| *b != 0) {
                        let mut c = case.clone();
                        for b in &mut c[ci][start..end] {
                            *b = 0;
                        }
                        if fails(cx, &c, &mut budget) {
                            case = c;
                        }
                    }
                    start = end;
                }
                w /= 2;
            }
            // lower single bytes (halving)
            for bi in 0..case[ci].len() {
                let mut v = case[ci][bi];
                while v > 0 {
                    let nv = v / 2;
                    let mut c = case.clone();
                    c[ci][bi] = nv;
                    if fails(cx, &c, &mut budget) {
                        case = c;
                        v = nv;
                    } else {
                        break;
                    }
                }
            }
        }
    }
    case
}

/// Re-run a (failing) case with rendering on, to get the message and the rendered form.
fn describe(worker: &mut WorkerHandle, case: &Case) -> (String, String) {
    match worker.run(case, true) {
        CaseResult::Done(o) => {
            let mut r = o.render.unwrap_or_default();
            if r.is_empty() {
                r = worker.render_only(case);
            }
            if o.verdict == Verdict::Fail {
                let red = worker.reduce(case, &o.sig);
                if !red.is_empty() {
                    r = format!("{r}\n---- reduced (same failure signature) ----\n{red}");
                }
            }
            (o.msg, r)
        }
        CaseResult::Timeout => ("(timeout on re-run)".into(), String::new()),
        CaseResult::Infra(e) => (e, String::new()),
    }
}

// ---------------------------------------------------------------------------
// whole check

fn write_replay(prop: &dyn Prop, seed: u64, tag: &str, v: &Violation) -> PathBuf {
    let dir = verif_root().join("replays");
    let _ = std::fs::create_dir_all(&dir);
    let p = dir.join(format!("{}-seed{}-{}.json", prop.id(), seed, tag));
    let j = json!({
        "property": prop.id(),
        "seed": seed,
        "origin": v.origin,
        "sig": v.sig,
        "msg": v.msg,
        "render": v.render,
        "case": case_to_json(&v.case),
    });
    let _ = std::fs::write(&p, serde_json::to_string_pretty(&j).unwrap());
    p
}

pub fn read_replay(path: &Path) -> Option<Case> {
    let s = std::fs::read_to_string(path).ok()?;
    let j: J = serde_json::from_str(&s).ok()?;
    case_from_json(j.get("case")?)
}

fn write_evidence(
    prop: &dyn Prop,
    tier: Tier,
    seed: u64,
    stats: &Stats,
    violations: usize,
    known_lines: &[String],
    wall: f64,
    exhaustive: bool,
    notes: Vec<String>,
) {
    let dir = verif_root().join("evidence");
    let _ = std::fs::create_dir_all(&dir);
    let samples: Vec<J> = stats.samples.iter().map(|s| J::String(s.clone())).collect();
    let j = json!({
        "property_id": prop.id(),
        "tier": tier.name(),
        "seed": seed,
        "level": "exploration",
        "coverage": {
            "evaluations": stats.evals,
            "cases": stats.cases,
            "distinct_nontrivial": stats.distinct.len(),
            "nontrivial_cases": stats.nontrivial_cases,
            "rule": prop.rule(),
            "samples": samples,
            "classes": stats.classes,
            "discards": stats.discards,
            "discard_samples": stats.discard_samples,
            "excluded_by_known_finding": stats.excluded,
            "failures_matching_known_findings": stats.known_hits,
            "known_findings_reported": known_lines,
            "timeouts": stats.timeouts,
            "worker_restarts_after_crash": stats.crashes_restarts,
            "infrastructure_problems": stats.infra,
            "exhaustive": exhaustive,
            "notes": notes,
        },
        "assumptions": prop.assumptions(),
        "wall_s": wall,
        "violations": violations,
    });
    let p = dir.join(format!("{}.json", prop.id()));
    let _ = std::fs::write(&p, serde_json::to_string_pretty(&j).unwrap());
}

pub fn run_check(prop: &'static dyn Prop, tier: Tier, seed: u64) -> i32 {
    let t0 = Instant::now();
    let known = load_known(prop.id());
    let mut known_lines: Vec<String> = Vec::new();
    let mut violations: Vec<Violation> = Vec::new();
    let mut notes: Vec<String> = Vec::new();
    let mut infra_fail = false;

    // 1. replay reproducers of known / fixed findings (no exclusions active)
    let mut active: Vec<Known> = Vec::new();
    {
        // findings owned by other properties whose shapes must also be kept out of this
        // property's generated domain: replay them with the owner's worker
        for k in known.iter().filter(|k| k.property != prop.id() && k.status == "known") {
            let still = match &k.reproducer {
                None => true,
                Some(case) => {
                    let mut w = WorkerHandle::new(&k.property, &[], "known-other", 10_000);
                    match w.run(case, false) {
                        CaseResult::Done(o) => o.verdict == Verdict::Fail,
                        CaseResult::Timeout => true,
                        CaseResult::Infra(_) => true,
                    }
                }
            };
            if still {
                active.push(k.clone());
            } else {
                notes.push(format!("known finding {} (owned by {}) no longer reproduces; its exclusion is off", k.id, k.property));
            }
        }
        // reproducers of hangs get a short watchdog (the hang is the failure); every other reproducer gets the
        // property's own watchdog: on a cold machine the first case of a worker can take many seconds (a rustc
        // probe that has to read the crate's rlibs, the first compilation of a large script)
        let mut w_short = WorkerHandle::new(prop.id(), &[], "known", prop.timeout_ms().min(10_000));
        let mut w_long = WorkerHandle::new(prop.id(), &[], "known-long", prop.timeout_ms().max(60_000));
        for k in known.iter().filter(|k| k.property == prop.id()) {
            let w = if k.sig_contains.iter().any(|s| s == "hang") { &mut w_short } else { &mut w_long };
            let Some(case) = &k.reproducer else {
                if k.status == "known" {
                    // no reproducer: matcher-only entry, always active
                    active.push(k.clone());
                }
                continue;
            };
            match w.run(case, true) {
                CaseResult::Done(o) => {
                    let fails = o.verdict == Verdict::Fail;
                    if k.status == "known" {
                        if fails && matches_known(k, &o.sig) {
                            let line = format!("KNOWN-FINDING: property={} {} [{}]", prop.id(), k.title, k.id);
                            println!("{line}");
                            known_lines.push(line);
                            active.push(k.clone());
                        } else if fails {
                            // fails differently from what is recorded: a different violation
                            violations.push(Violation {
                                case: case.clone(),
                                sig: o.sig.clone(),
                                msg: o.msg.clone(),
                                render: o.render.clone().unwrap_or_default(),
                                shard: 0,
                                origin: format!("reproducer of {} fails with an unlisted signature", k.id),
                            });
                        } else {
                            notes.push(format!("known finding {} no longer reproduces; its exclusion is off", k.id));
                        }
                    } else if fails {
                        violations.push(Violation {
                            case: case.clone(),
                            sig: o.sig.clone(),
                            msg: o.msg.clone(),
                            render: o.render.clone().unwrap_or_default(),
                            shard: 0,
                            origin: format!("regression of fixed finding {} ({})", k.id, k.commit),
                        });
                    }
                }
                CaseResult::Timeout => {
                    if k.status == "known" && k.sig_contains.iter().any(|s| s == "hang") {
                        let line = format!("KNOWN-FINDING: property={} {} [{}]", prop.id(), k.title, k.id);
                        println!("{line}");
                        known_lines.push(line);
                        active.push(k.clone());
                    } else if k.status == "fixed" && k.sig_contains.iter().any(|s| s == "hang") {
                        violations.push(Violation {
                            case: case.clone(),
                            sig: "hang".into(),
                            msg: "reproducer of a fixed hang does not terminate any more".into(),
                            render: String::new(),
                            shard: 0,
                            origin: format!("regression of fixed finding {} ({})", k.id, k.commit),
                        });
                    } else {
                        notes.push(format!("reproducer of {} hit the watchdog", k.id));
                        infra_fail = true;
                    }
                }
                CaseResult::Infra(e) => {
                    notes.push(format!("reproducer of {}: {e}", k.id));
                    infra_fail = true;
                }
            }
        }
    }
    let excl: Vec<String> = active.iter().map(|k| k.id.clone()).collect();

    // 2. campaign
    let fixed = prop.fixed_cases(tier);
    let n_fixed = fixed.len();
    let mut per_shard: Vec<Vec<Case>> = (0..SHARDS).map(|_| Vec::new()).collect();
    for (i, c) in fixed.into_iter().enumerate() {
        per_shard[i % SHARDS].push(c);
    }
    let total = prop.cases(tier);
    let stop = Arc::new(AtomicBool::new(false));
    let mut all = Stats::default();
    let results: Vec<(Stats, Option<Violation>)> = std::thread::scope(|s| {
        let mut hs = Vec::new();
        for (shard, fx) in per_shard.into_iter().enumerate() {
            let n = total / SHARDS as u32 + if (shard as u32) < total % SHARDS as u32 { 1 } else { 0 };
            let stop = stop.clone();
            let active = &active;
            let excl = &excl;
            hs.push(s.spawn(move || run_shard(prop, tier, seed, shard, fx, n, active, excl, &stop)));
        }
        hs.into_iter().map(|h| h.join().expect("shard thread panicked")).collect()
    });
    for (st, v) in results {
        all.merge(st);
        if let Some(v) = v {
            violations.push(v);
        }
    }

    // 3. report
    let mut code = 0;
    // de-duplicate violations by signature
    let mut seen = HashSet::new();
    let mut n_viol = 0;
    for (i, v) in violations.iter().enumerate() {
        if !seen.insert(v.sig.clone()) {
            continue;
        }
        n_viol += 1;
        let p = write_replay(prop, seed, &format!("{}", i), v);
        println!("VIOLATION property={} replay={}", prop.id(), p.display());
        println!("  origin: {}", v.origin);
        println!("  signature: {}", v.sig);
        for l in v.msg.lines().take(30) {
            println!("  | {l}");
        }
        if !v.render.is_empty() {
            println!("  case:");
            for l in v.render.lines().take(80) {
                println!("  > {l}");
            }
        }
        code = 1;
    }
    let discard_rate = if all.cases > 0 { all.discards as f64 / all.cases as f64 } else { 0.0 };
    if code == 0 {
        if !all.infra.is_empty() || all.timeouts > 0 || infra_fail {
            println!("INCONCLUSIVE property={} infrastructure problems:", prop.id());
            for l in all.infra.iter().chain(notes.iter()).take(10) {
                println!("  {l}");
            }
            code = 2;
        } else if discard_rate > prop.max_discard_rate() {
            println!(
                "INCONCLUSIVE property={} generator discard rate {:.2}% exceeds {:.2}%",
                prop.id(),
                100.0 * discard_rate,
                100.0 * prop.max_discard_rate()
            );
            for s in &all.discard_samples {
                println!("  discard sample: {s}");
            }
            code = 2;
        } else if all.cases == 0 {
            println!("INCONCLUSIVE property={} no cases ran", prop.id());
            code = 2;
        }
    }
    let wall = t0.elapsed().as_secs_f64();
    let exhaustive = prop.fixed_exhaustive() && n_fixed > 0;
    // a run that stopped at its first case still shows what it ran
    for v in violations.iter().take(3) {
        if all.samples.len() < 3 {
            let text = if v.render.is_empty() { v.msg.clone() } else { v.render.clone() };
            all.samples.push(format!("(failing case, {}) {}", v.sig, text.chars().take(2000).collect::<String>()));
        }
    }
    if all.samples.is_empty() {
        all.samples.push("(no case was executed)".into());
    }
    write_evidence(prop, tier, seed, &all, n_viol, &known_lines, wall, exhaustive, notes);
    println!(
        "{} {} seed={} cases={} evaluations={} nontrivial={} distinct_nontrivial={} discards={} known_excluded={:?} wall={:.1}s => exit {}",
        prop.id(),
        tier.name(),
        seed,
        all.cases,
        all.evals,
        all.nontrivial_cases,
        all.distinct.len(),
        all.discards,
        all.excluded,
        wall,
        code
    );
    code
}

/// Replay one saved case.  Exit 1 with a VIOLATION line if it fails and is not a known finding.
pub fn replay(prop: &'static dyn Prop, path: &Path) -> i32 {
    let Some(case) = read_replay(path) else {
        eprintln!("cannot read replay file {}", path.display());
        return 2;
    };
    let known = load_known(prop.id());
    let mut w = WorkerHandle::new(prop.id(), &[], "replay", prop.timeout_ms());
    let pre = w.render_only(&case);
    if !pre.is_empty() {
        println!("{pre}");
    }
    match w.run(&case, true) {
        CaseResult::Done(o) => {
            if let (Some(r), true) = (&o.render, pre.is_empty()) {
                println!("{r}");
            }
            match o.verdict {
                Verdict::Fail => {
                    if let Some(k) = known.iter().find(|k| k.status == "known" && matches_known(k, &o.sig)) {
                        println!("KNOWN-FINDING: property={} {} [{}]", prop.id(), k.title, k.id);
                        println!("signature: {}\n{}", o.sig, o.msg);
                        0
                    } else {
                        println!("VIOLATION property={} replay={}", prop.id(), path.display());
                        println!("signature: {}\n{}", o.sig, o.msg);
                        1
                    }
                }
                Verdict::Pass => {
                    println!("replay passes");
                    0
                }
                Verdict::Discard => {
                    println!("replay discarded: {}", o.msg);
                    0
                }
            }
        }
        CaseResult::Timeout => {
            println!("INCONCLUSIVE watchdog expired");
            2
        }
        CaseResult::Infra(e) => {
            println!("INCONCLUSIVE {e}");
            2
        }
    }
}


/// Debug helper: run N random cases in-process and tally discard / failure reasons.
pub fn tally(prop: &'static dyn Prop, n: u32, seed: u64) {
    use proptest::strategy::ValueTree;
    crate::worker::install_panic_hook();
    let strat = case_strategy(&prop.shape(Tier::Quick));
    let config = Config { rng_seed: RngSeed::Fixed(seed), failure_persistence: None, ..Config::default() };
    let mut runner = TestRunner::new(config);
    let mut w = prop.worker(&std::env::var("VERIF_EXCL").unwrap_or_default().split(',').filter(|s| !s.is_empty()).map(|s| s.to_string()).collect::<Vec<_>>());
    let mut counts: BTreeMap<String, (u64, String)> = BTreeMap::new();
    let mut pass = 0u64;
    for _ in 0..n {
        let case = strat.new_tree(&mut runner).unwrap().current();
        let o = crate::worker::guarded(|| w.run(&case, false));
        match o.verdict {
            Verdict::Pass => pass += 1,
            _ => {
                let key: String = o.msg.lines().skip(if o.verdict == Verdict::Discard { 1 } else { 0 }).next().unwrap_or("").chars().take(110).collect();
                let key = format!("{:?} {} {}", o.verdict, o.sig, crate::worker::skeleton(&key));
                let e = counts.entry(key).or_insert((0, o.msg.clone()));
                e.0 += 1;
            }
        }
    }
    println!("pass {pass} of {n}");
    let mut v: Vec<_> = counts.into_iter().collect();
    v.sort_by_key(|(_, (c, _))| std::cmp::Reverse(*c));
    for (k, (c, msg)) in v.iter().take(12) {
        println!("==== {c} x {k}");
        println!("{}", msg.chars().take(3000).collect::<String>());
    }
}
