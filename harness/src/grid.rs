//! Operator x scalar type x operand grid, shared by C10 (survival oracle) and
//! C01 (value oracle).

use std::collections::HashMap;

use roto::{NoCtx, Package, Runtime, TypedFunc};

use crate::ast::{BinOp, IntTy};
use crate::model::V;

#[derive(Clone, Copy, PartialEq, Eq, Hash, Debug)]
pub enum GOp {
    Bin(BinOp),
    /// compound assignment `x op= b`
    Compound(BinOp),
    Neg,
}

pub const GOPS: [GOp; 17] = [
    GOp::Bin(BinOp::Add),
    GOp::Bin(BinOp::Sub),
    GOp::Bin(BinOp::Mul),
    GOp::Bin(BinOp::Div),
    GOp::Bin(BinOp::Rem),
    GOp::Bin(BinOp::Eq),
    GOp::Bin(BinOp::Ne),
    GOp::Bin(BinOp::Lt),
    GOp::Bin(BinOp::Le),
    GOp::Bin(BinOp::Gt),
    GOp::Bin(BinOp::Ge),
    GOp::Compound(BinOp::Add),
    GOp::Compound(BinOp::Sub),
    GOp::Compound(BinOp::Mul),
    GOp::Compound(BinOp::Div),
    GOp::Compound(BinOp::Rem),
    GOp::Neg,
];

#[derive(Clone, Copy, PartialEq, Eq, Hash, Debug)]
pub enum STy {
    Int(IntTy),
    F32,
    F64,
}

pub const STYS: [STy; 10] = [
    STy::Int(IntTy::U8),
    STy::Int(IntTy::U16),
    STy::Int(IntTy::U32),
    STy::Int(IntTy::U64),
    STy::Int(IntTy::I8),
    STy::Int(IntTy::I16),
    STy::Int(IntTy::I32),
    STy::Int(IntTy::I64),
    STy::F32,
    STy::F64,
];

impl STy {
    pub fn name(self) -> &'static str {
        match self {
            STy::Int(i) => i.name(),
            STy::F32 => "f32",
            STy::F64 => "f64",
        }
    }
    /// boundary operand set, as raw words (decoded by truncation / from_bits)
    pub fn boundaries(self) -> Vec<u64> {
        match self {
            STy::Int(t) => {
                let b = t.bits();
                let mask = if b == 64 { u64::MAX } else { (1u64 << b) - 1 };
                let top = 1u64 << (b - 1);
                let mut v = vec![
                    0,
                    1,
                    2,
                    3,
                    mask,          // -1 / MAX unsigned
                    mask - 1,      // -2 / MAX-1
                    top,           // MIN signed / 2^(b-1)
                    top + 1,       // MIN+1
                    top - 1,       // MAX signed
                    top - 2,
                    top >> 1,
                    (top >> 1) + 1,
                    0x55 & mask,
                    7,
                    10,
                ];
                v.dedup();
                v
            }
            STy::F32 => [
                0.0f32,
                -0.0,
                1.0,
                -1.0,
                f32::INFINITY,
                f32::NEG_INFINITY,
                f32::NAN,
                f32::MIN_POSITIVE,
                f32::MAX,
                f32::MIN,
                f32::EPSILON,
                1.0e-45, // subnormal
                0.1,
                3.5,
                -2.5,
            ]
            .iter()
            .map(|f| f.to_bits() as u64)
            .collect(),
            STy::F64 => [
                0.0f64,
                -0.0,
                1.0,
                -1.0,
                f64::INFINITY,
                f64::NEG_INFINITY,
                f64::NAN,
                f64::MIN_POSITIVE,
                f64::MAX,
                f64::MIN,
                f64::EPSILON,
                5.0e-324, // subnormal
                0.1,
                3.5,
                -2.5,
            ]
            .iter()
            .map(|f| f.to_bits())
            .collect(),
        }
    }
    pub fn decode(self, w: u64) -> V {
        match self {
            STy::Int(t) => V::Int(t, t.wrap(w as i128)),
            STy::F32 => V::F32(f32::from_bits(w as u32)),
            STy::F64 => V::F64(f64::from_bits(w)),
        }
    }
}

pub fn applicable(op: GOp, ty: STy) -> bool {
    match (op, ty) {
        (GOp::Neg, STy::Int(t)) => t.signed(),
        (GOp::Bin(BinOp::Rem) | GOp::Compound(BinOp::Rem), STy::F32 | STy::F64) => false,
        _ => true,
    }
}

pub fn returns_bool(op: GOp) -> bool {
    matches!(op, GOp::Bin(b) if b.is_cmp())
}

pub fn script(op: GOp, ty: STy) -> String {
    let t = ty.name();
    match op {
        GOp::Bin(b) if b.is_cmp() => format!("fn f(a: {t}, b: {t}) -> bool {{ a {} b }}", b.sym()),
        GOp::Bin(b) => format!("fn f(a: {t}, b: {t}) -> {t} {{ a {} b }}", b.sym()),
        GOp::Compound(b) => format!("fn f(a: {t}, b: {t}) -> {t} {{ let x = a; x {}= b; x }}", b.sym()),
        GOp::Neg => format!("fn f(a: {t}, b: {t}) -> {t} {{ -a }}"),
    }
}

pub fn describe(op: GOp, ty: STy, a: u64, b: u64) -> String {
    format!(
        "{}  with a = {}, b = {}",
        script(op, ty),
        crate::model::show(&ty.decode(a)),
        crate::model::show(&ty.decode(b))
    )
}

enum Compiled {
    U8(TypedFunc<NoCtx, fn(u8, u8) -> u8>),
    U16(TypedFunc<NoCtx, fn(u16, u16) -> u16>),
    U32(TypedFunc<NoCtx, fn(u32, u32) -> u32>),
    U64(TypedFunc<NoCtx, fn(u64, u64) -> u64>),
    I8(TypedFunc<NoCtx, fn(i8, i8) -> i8>),
    I16(TypedFunc<NoCtx, fn(i16, i16) -> i16>),
    I32(TypedFunc<NoCtx, fn(i32, i32) -> i32>),
    I64(TypedFunc<NoCtx, fn(i64, i64) -> i64>),
    F32(TypedFunc<NoCtx, fn(f32, f32) -> f32>),
    F64(TypedFunc<NoCtx, fn(f64, f64) -> f64>),
    BU8(TypedFunc<NoCtx, fn(u8, u8) -> bool>),
    BU16(TypedFunc<NoCtx, fn(u16, u16) -> bool>),
    BU32(TypedFunc<NoCtx, fn(u32, u32) -> bool>),
    BU64(TypedFunc<NoCtx, fn(u64, u64) -> bool>),
    BI8(TypedFunc<NoCtx, fn(i8, i8) -> bool>),
    BI16(TypedFunc<NoCtx, fn(i16, i16) -> bool>),
    BI32(TypedFunc<NoCtx, fn(i32, i32) -> bool>),
    BI64(TypedFunc<NoCtx, fn(i64, i64) -> bool>),
    BF32(TypedFunc<NoCtx, fn(f32, f32) -> bool>),
    BF64(TypedFunc<NoCtx, fn(f64, f64) -> bool>),
}

pub struct Grid {
    rt: Runtime<NoCtx>,
    cache: HashMap<(GOp, STy), (Package<NoCtx>, Compiled)>,
}

impl Grid {
    pub fn new() -> Self {
        Grid { rt: Runtime::new(), cache: HashMap::new() }
    }

    fn ensure(&mut self, op: GOp, ty: STy) -> Result<(), String> {
        if self.cache.contains_key(&(op, ty)) {
            return Ok(());
        }
        let src = script(op, ty);
        let mut pkg = crate::host::compile(&self.rt, &src)?;
        use IntTy::*;
        macro_rules! get {
            ($variant:ident, $t:ty, $r:ty) => {
                Compiled::$variant(pkg.get_function::<fn($t, $t) -> $r>("f").map_err(|e| format!("{e}"))?)
            };
        }
        let c = if returns_bool(op) {
            match ty {
                STy::Int(U8) => get!(BU8, u8, bool),
                STy::Int(U16) => get!(BU16, u16, bool),
                STy::Int(U32) => get!(BU32, u32, bool),
                STy::Int(U64) => get!(BU64, u64, bool),
                STy::Int(I8) => get!(BI8, i8, bool),
                STy::Int(I16) => get!(BI16, i16, bool),
                STy::Int(I32) => get!(BI32, i32, bool),
                STy::Int(I64) => get!(BI64, i64, bool),
                STy::F32 => get!(BF32, f32, bool),
                STy::F64 => get!(BF64, f64, bool),
            }
        } else {
            match ty {
                STy::Int(U8) => get!(U8, u8, u8),
                STy::Int(U16) => get!(U16, u16, u16),
                STy::Int(U32) => get!(U32, u32, u32),
                STy::Int(U64) => get!(U64, u64, u64),
                STy::Int(I8) => get!(I8, i8, i8),
                STy::Int(I16) => get!(I16, i16, i16),
                STy::Int(I32) => get!(I32, i32, i32),
                STy::Int(I64) => get!(I64, i64, i64),
                STy::F32 => get!(F32, f32, f32),
                STy::F64 => get!(F64, f64, f64),
            }
        };
        self.cache.insert((op, ty), (pkg, c));
        Ok(())
    }

    /// Run the compiled operator on raw operand words.
    pub fn run(&mut self, op: GOp, ty: STy, a: u64, b: u64) -> Result<V, String> {
        self.ensure(op, ty)?;
        let (_, c) = self.cache.get(&(op, ty)).unwrap();
        use IntTy::*;
        let fa32 = f32::from_bits(a as u32);
        let fb32 = f32::from_bits(b as u32);
        let fa64 = f64::from_bits(a);
        let fb64 = f64::from_bits(b);
        Ok(match c {
            Compiled::U8(f) => V::Int(U8, f.call(a as u8, b as u8) as i128),
            Compiled::U16(f) => V::Int(U16, f.call(a as u16, b as u16) as i128),
            Compiled::U32(f) => V::Int(U32, f.call(a as u32, b as u32) as i128),
            Compiled::U64(f) => V::Int(U64, f.call(a, b) as i128),
            Compiled::I8(f) => V::Int(I8, f.call(a as i8, b as i8) as i128),
            Compiled::I16(f) => V::Int(I16, f.call(a as i16, b as i16) as i128),
            Compiled::I32(f) => V::Int(I32, f.call(a as i32, b as i32) as i128),
            Compiled::I64(f) => V::Int(I64, f.call(a as i64, b as i64) as i128),
            Compiled::F32(f) => V::F32(f.call(fa32, fb32)),
            Compiled::F64(f) => V::F64(f.call(fa64, fb64)),
            Compiled::BU8(f) => V::Bool(f.call(a as u8, b as u8)),
            Compiled::BU16(f) => V::Bool(f.call(a as u16, b as u16)),
            Compiled::BU32(f) => V::Bool(f.call(a as u32, b as u32)),
            Compiled::BU64(f) => V::Bool(f.call(a, b)),
            Compiled::BI8(f) => V::Bool(f.call(a as i8, b as i8)),
            Compiled::BI16(f) => V::Bool(f.call(a as i16, b as i16)),
            Compiled::BI32(f) => V::Bool(f.call(a as i32, b as i32)),
            Compiled::BI64(f) => V::Bool(f.call(a as i64, b as i64)),
            Compiled::BF32(f) => V::Bool(f.call(fa32, fb32)),
            Compiled::BF64(f) => V::Bool(f.call(fa64, fb64)),
        })
    }
}

/// What the language defines for this operator application (Err = trap kind).
pub fn expected(op: GOp, ty: STy, a: u64, b: u64) -> Result<V, &'static str> {
    let prog = crate::ast::Program::default();
    let mut it = crate::model::Interp::new(&prog, vec![], 1000);
    let av = ty.decode(a);
    let bv = ty.decode(b);
    let r = match op {
        GOp::Bin(o) if o.is_cmp() => it.compare(o, &av, &bv),
        GOp::Bin(o) | GOp::Compound(o) => it.arith(o, &av, &bv),
        GOp::Neg => match av {
            V::Int(t, x) => Ok(V::Int(t, t.wrap(-x))),
            V::F32(x) => Ok(V::F32(-x)),
            V::F64(x) => Ok(V::F64(-x)),
            _ => unreachable!(),
        },
    };
    match r {
        Ok(v) => Ok(v),
        Err(crate::model::Stop::Trap(k)) => Err(k),
        Err(_) => Err("model-error"),
    }
}

/// Decode a grid case chunk: [op, ty, ai, bi, a(8), b(8)]
pub fn decode_case(chunk: &[u8]) -> Option<(GOp, STy, u64, u64)> {
    let mut c = crate::core::Choices::new(chunk);
    let op = GOPS[c.below(GOPS.len())];
    let ty = STYS[c.below(STYS.len())];
    let bs = ty.boundaries();
    let ai = c.below(bs.len() + 1);
    let bi = c.below(bs.len() + 1);
    let ra = c.u64();
    let rb = c.u64();
    // keep every byte pattern meaningful: fall back to addition where the
    // operator does not exist for the type
    let op = if applicable(op, ty) { op } else { GOp::Bin(BinOp::Add) };
    let a = if ai < bs.len() { bs[ai] } else { ra };
    let b = if bi < bs.len() { bs[bi] } else { rb };
    Some((op, ty, a, b))
}

/// Enumerate the full boundary grid as case chunks that `decode_case` maps back.
pub fn enumerate() -> Vec<Vec<u8>> {
    let mut out = Vec::new();
    let enc = |i: usize, n: usize| -> u8 {
        // smallest byte x with (x*n)>>8 == i
        (((i << 8) + n - 1) / n) as u8
    };
    for (oi, op) in GOPS.iter().enumerate() {
        for (ti, ty) in STYS.iter().enumerate() {
            if !applicable(*op, *ty) {
                continue;
            }
            let n = ty.boundaries().len();
            for ai in 0..n {
                for bi in 0..n {
                    if matches!(op, GOp::Neg) && bi != 0 {
                        continue;
                    }
                    out.push(vec![enc(oi, GOPS.len()), enc(ti, STYS.len()), enc(ai, n + 1), enc(bi, n + 1)]);
                }
            }
        }
    }
    out
}
