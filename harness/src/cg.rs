//! Coverage-guided stage (thorough tier): the same property checks, driven by libFuzzer.
//!
//! A libFuzzer input is a flat byte blob; `blob_to_case` cuts it into the chunks of the
//! property's `CaseShape` at *fixed offsets*, so that a point mutation stays inside one choice
//! stream.  The longest stream is placed last and takes whatever is left (libFuzzer grows and
//! shrinks inputs at the end).  Trailing zeros of a chunk mean nothing (an exhausted choice
//! stream yields zeros), so they are trimmed.  `case_to_blob` is the inverse, used to write the
//! seed corpus from proptest-generated cases and nothing else.
//!
//! The fuzz target (`/verif/fuzz/fuzz_targets/prop_cg.rs`) calls `Engine::one`, which runs the
//! property's worker state in-process on a big-stack thread (like `worker_main`), applies the
//! same known-finding matchers as the driver, counts cases / non-trivial / distinct / classes
//! and aborts on the first failure that no known finding lists.  The crash artifact is turned
//! into an ordinary replay file (`cg-convert`) and classified by the harness in an isolated
//! worker, which is what prints the VIOLATION line.

use std::collections::{BTreeMap, HashSet};
use std::sync::mpsc::{Receiver, Sender, channel};

use crate::core::*;

fn layout(shape: &CaseShape) -> (Vec<usize>, Option<usize>) {
    // order of the fixed chunks inside the blob, and which of them is open-ended
    let n = shape.fixed.len();
    if shape.ops_max > 0 || n == 0 {
        return ((0..n).collect(), None);
    }
    let last = (0..n).max_by_key(|&i| (shape.fixed[i], std::cmp::Reverse(i))).unwrap();
    let mut order: Vec<usize> = (0..n).filter(|&i| i != last).collect();
    order.push(last);
    (order, Some(last))
}

fn trim(mut v: Vec<u8>) -> Vec<u8> {
    while v.last() == Some(&0) {
        v.pop();
    }
    v
}

pub fn blob_to_case(shape: &CaseShape, data: &[u8]) -> Case {
    let (order, open) = layout(shape);
    let mut chunks: Vec<Vec<u8>> = vec![Vec::new(); shape.fixed.len()];
    let mut off = 0usize;
    for &i in &order {
        let max = shape.fixed[i];
        let end = if Some(i) == open { data.len().min(off + max) } else { data.len().min(off + max) };
        let start = off.min(data.len());
        chunks[i] = trim(data[start..end.max(start)].to_vec());
        off += max;
    }
    if shape.ops_max > 0 && shape.op_len > 0 {
        let mut k = 0;
        while k < shape.ops_max && off + shape.op_len <= data.len() {
            chunks.push(data[off..off + shape.op_len].to_vec());
            off += shape.op_len;
            k += 1;
        }
    }
    chunks
}

pub fn case_to_blob(shape: &CaseShape, case: &Case) -> Vec<u8> {
    let (order, open) = layout(shape);
    let mut out = Vec::new();
    for &i in &order {
        let c = case.get(i).cloned().unwrap_or_default();
        let max = shape.fixed[i];
        let mut c: Vec<u8> = c.into_iter().take(max).collect();
        if Some(i) != open {
            c.resize(max, 0);
        }
        out.extend(c);
    }
    if shape.ops_max > 0 {
        for c in case.iter().skip(shape.fixed.len()).take(shape.ops_max) {
            let mut c = c.clone();
            c.resize(shape.op_len, 0);
            out.extend(c);
        }
    }
    out
}

pub fn max_len(shape: &CaseShape) -> usize {
    shape.fixed.iter().sum::<usize>() + shape.ops_max * shape.op_len
}

/// Write `n` proptest-generated cases (seeded) as blobs into `dir`.
pub fn write_seeds(prop: &'static dyn Prop, n: u32, seed: u64, dir: &std::path::Path) -> std::io::Result<u32> {
    use proptest::strategy::{Strategy, ValueTree};
    use proptest::test_runner::{Config, RngSeed, TestRunner};
    let shape = prop.shape(Tier::Thorough);
    let strat = crate::runner::case_strategy(&shape);
    let mut runner = TestRunner::new(Config { rng_seed: RngSeed::Fixed(mix(seed ^ 0xC6C6)), failure_persistence: None, ..Config::default() });
    std::fs::create_dir_all(dir)?;
    let mut k = 0;
    for c in prop.fixed_cases(Tier::Quick).into_iter().take(n as usize / 4) {
        if c.first().map(|x| x.starts_with(b"#!")).unwrap_or(false) {
            continue; // literal cases have no blob form
        }
        std::fs::write(dir.join(format!("fixed-{k}")), case_to_blob(&shape, &c))?;
        k += 1;
    }
    for i in 0..n {
        let case = strat.new_tree(&mut runner).map(|t| t.current()).unwrap_or_default();
        std::fs::write(dir.join(format!("gen-{i}")), case_to_blob(&shape, &case))?;
        k += 1;
    }
    Ok(k)
}

#[derive(Default)]
pub struct CgStats {
    pub cases: u64,
    pub evals: u64,
    pub nontrivial: u64,
    pub distinct: HashSet<u64>,
    pub discards: u64,
    pub known_hits: BTreeMap<String, u64>,
    pub excluded: BTreeMap<String, u64>,
    pub classes: BTreeMap<String, u64>,
    pub samples: Vec<String>,
}

pub struct Engine {
    shape: CaseShape,
    tx: Sender<(Case, bool)>,
    rx: Receiver<Outcome>,
    allow: Vec<Vec<String>>,
    allow_ids: Vec<String>,
    pub stats: CgStats,
    stats_path: Option<String>,
    prop_id: &'static str,
    last_flush: u64,
}

impl Engine {
    /// `VERIF_CG_PROP` names the property; the known findings that apply to it are read from
    /// `known_findings.json` exactly as the driver does.
    pub fn from_env() -> Engine {
        let id = std::env::var("VERIF_CG_PROP").expect("VERIF_CG_PROP");
        let prop = crate::props::find(&id).expect("unknown property");
        let known = crate::runner::load_known(prop.id());
        let active: Vec<_> = known.into_iter().filter(|k| k.status == "known").collect();
        let excl: Vec<String> = active.iter().map(|k| k.id.clone()).collect();
        crate::worker::install_panic_hook();
        crate::host::poison_freed_memory(true);
        let (tx, crx) = channel::<(Case, bool)>();
        let (ctx, rx) = channel::<Outcome>();
        let excl2 = excl.clone();
        std::thread::Builder::new()
            .name("case".into())
            .stack_size(512 << 20)
            .spawn(move || {
                let mut state = prop.worker(&excl2);
                while let Ok((case, render)) = crx.recv() {
                    let o = crate::worker::guarded(|| state.run(&case, render));
                    if ctx.send(o).is_err() {
                        break;
                    }
                }
            })
            .expect("case thread");
        Engine {
            shape: prop.shape(Tier::Thorough),
            tx,
            rx,
            allow: active.iter().map(|k| k.sig_contains.clone()).collect(),
            allow_ids: excl,
            stats: CgStats::default(),
            stats_path: std::env::var("VERIF_CG_STATS").ok(),
            prop_id: prop.id(),
            last_flush: 0,
        }
    }

    pub fn one(&mut self, data: &[u8]) {
        let case = blob_to_case(&self.shape, data);
        let want_render = self.stats.samples.len() < 3 && self.stats.cases % 97 == 0;
        self.tx.send((case, want_render)).expect("case thread gone");
        let o = self.rx.recv().expect("case thread died");
        match o.verdict {
            Verdict::Fail => {
                if let Some(i) = self.allow.iter().position(|subs| !subs.is_empty() && subs.iter().all(|s| o.sig.contains(s.as_str()))) {
                    *self.stats.known_hits.entry(self.allow_ids[i].clone()).or_default() += 1;
                    self.stats.cases += 1;
                    return;
                }
                self.flush();
                eprintln!("CG-FAIL property={} signature: {}", self.prop_id, o.sig);
                eprintln!("{}", o.msg.chars().take(4000).collect::<String>());
                std::process::abort();
            }
            Verdict::Discard => {
                self.stats.cases += 1;
                self.stats.discards += 1;
            }
            Verdict::Pass => {
                self.stats.cases += 1;
                self.stats.evals += o.evals;
                if o.nontrivial {
                    self.stats.nontrivial += 1;
                    self.stats.distinct.insert(o.hash);
                    if want_render {
                        if let Some(r) = &o.render {
                            self.stats.samples.push(r.chars().take(1500).collect());
                        }
                    }
                }
                for c in &o.classes {
                    *self.stats.classes.entry(c.clone()).or_default() += 1;
                }
                for (k, n) in &o.excluded {
                    *self.stats.excluded.entry(k.clone()).or_default() += n;
                }
            }
        }
        if self.stats.cases - self.last_flush >= 2000 {
            self.flush();
        }
    }

    /// The statistics file is rewritten every 2000 cases (libFuzzer ends the process with
    /// `_exit`, so there is no reliable hook at the end).
    pub fn flush(&mut self) {
        self.last_flush = self.stats.cases;
        let Some(p) = &self.stats_path else { return };
        let s = &self.stats;
        let j = serde_json::json!({
            "cases": s.cases, "evaluations": s.evals, "nontrivial": s.nontrivial,
            "distinct_nontrivial": s.distinct.len(), "discards": s.discards,
            "known_hits": s.known_hits, "excluded": s.excluded, "classes": s.classes, "samples": s.samples,
        });
        let tmp = format!("{p}.tmp");
        if std::fs::write(&tmp, serde_json::to_string(&j).unwrap_or_default()).is_ok() {
            let _ = std::fs::rename(&tmp, p);
        }
    }
}
