//! AST-level reduction of a failing program: try simplifying edits one at a
//! time and keep those after which the same failure (by signature) remains.

use crate::ast::*;
use crate::model::V;

/// Default (simplest) expression of a type.
pub fn default_expr(p: &Program, t: &Ty) -> Expr {
    let lit = |v: V, s: &str| Expr::Lit(Lit { v, text: s.to_string() });
    match t {
        Ty::Int(i) => lit(V::Int(*i, 0), &format!("0{}", i.name())),
        Ty::F32 => lit(V::F32(0.0), "0.0f32"),
        Ty::F64 => lit(V::F64(0.0), "0.0f64"),
        Ty::Bool => lit(V::Bool(false), "false"),
        Ty::Char => lit(V::Char('a'), "'a'"),
        Ty::Unit => lit(V::Unit, "()"),
        Ty::Str => lit(V::Str(String::new()), "\"\""),
        Ty::Opt(_) => Expr::Ctor("Option".into(), "None".into(), vec![]),
        Ty::List(_) => Expr::List(vec![]),
        Ty::Result(a, _) => Expr::Ctor("Result".into(), "Ok".into(), vec![default_expr(p, a)]),
        Ty::Verdict(a, _) => Expr::Ctor("Verdict".into(), "Accept".into(), vec![default_expr(p, a)]),
        Ty::Rec(i, args) => {
            let fs = p.decls[*i].fields().iter().map(|(n, t)| (n.clone(), default_expr(p, &t.subst(args)))).collect();
            Expr::Record(Some(p.decls[*i].name().to_string()), fs)
        }
        Ty::Anon(fs) => Expr::Record(None, fs.iter().map(|(n, t)| (n.clone(), default_expr(p, t))).collect()),
        Ty::Enum(i, args) => {
            let (vn, ts) = &p.decls[*i].variants()[0];
            Expr::Ctor(p.decls[*i].name().to_string(), vn.clone(), ts.iter().map(|t| default_expr(p, &t.subst(args))).collect())
        }
        Ty::Tr => Expr::Host("mk".into(), vec![lit(V::i32(0), "0")]),
        Ty::Tz => Expr::Host("mkz".into(), vec![]),
        Ty::Tc => Expr::Host("mkc".into(), vec![lit(V::Int(IntTy::U32, 0), "0")]),
        Ty::T8 => Expr::Host("mk8".into(), vec![lit(V::Int(IntTy::U64, 0), "0")]),
        Ty::Param(_) => lit(V::Unit, "()"),
    }
}

struct Editor<'a> {
    prog: &'a Program,
    /// index of the edit to apply
    target: usize,
    /// edits seen so far
    count: usize,
    applied: bool,
}

impl<'a> Editor<'a> {
    fn hit(&mut self) -> bool {
        let h = self.count == self.target;
        self.count += 1;
        if h {
            self.applied = true;
        }
        h
    }

    fn block(&mut self, b: &mut Block) {
        // delete a statement
        let mut i = 0;
        while i < b.stmts.len() {
            if self.hit() {
                b.stmts.remove(i);
                return;
            }
            i += 1;
        }
        for s in b.stmts.iter_mut() {
            match s {
                Stmt::Let(_, ty, e) => {
                    if let Some(t) = ty {
                        if !matches!(e, Expr::Lit(_)) && self.hit() {
                            *e = default_expr(self.prog, t);
                            return;
                        }
                    }
                    self.expr(e);
                }
                Stmt::Expr(e) => self.expr(e),
            }
            if self.applied {
                return;
            }
        }
        if let Some(t) = &mut b.tail {
            self.expr(t);
        }
    }

    fn replace_with_child(&mut self, e: &mut Expr, child: Expr) -> bool {
        if self.hit() {
            *e = child;
            true
        } else {
            false
        }
    }

    fn expr(&mut self, e: &mut Expr) {
        if self.applied {
            return;
        }
        match e {
            Expr::Lit(_) | Expr::Var(_) => {}
            Expr::Paren(a) => {
                let c = (**a).clone();
                if self.replace_with_child(e, c) {
                    return;
                }
                if let Expr::Paren(a) = e {
                    self.expr(a);
                }
            }
            Expr::Field(a, _) | Expr::Try(a) => self.expr(a),
            Expr::Neg(a) | Expr::Not(a) => {
                let c = (**a).clone();
                if self.replace_with_child(e, c) {
                    return;
                }
                match e {
                    Expr::Neg(a) | Expr::Not(a) => self.expr(a),
                    _ => {}
                }
            }
            Expr::Bin(op, l, r) => {
                // replace by one operand when the types agree (arithmetic / logic)
                if !op.is_cmp() {
                    let lc = (**l).clone();
                    let rc = (**r).clone();
                    if self.hit() {
                        *e = lc;
                        return;
                    }
                    if self.hit() {
                        *e = rc;
                        return;
                    }
                }
                if let Expr::Bin(_, l, r) = e {
                    self.expr(l);
                    self.expr(r);
                }
            }
            Expr::List(args) => {
                let mut i = 0;
                while i < args.len() {
                    if self.hit() {
                        args.remove(i);
                        return;
                    }
                    i += 1;
                }
                for a in args.iter_mut() {
                    self.expr(a);
                }
            }
            Expr::Call(_, args) | Expr::Host(_, args) | Expr::Ctor(_, _, args) => {
                for a in args.iter_mut() {
                    self.expr(a);
                }
            }
            Expr::Method(r, _, args) => {
                self.expr(r);
                for a in args.iter_mut() {
                    self.expr(a);
                }
            }
            Expr::If(c, t, el) => {
                // take one branch
                if el.is_some() || t.tail.is_none() {
                    if self.hit() {
                        *e = Expr::Block(t.clone());
                        return;
                    }
                }
                if let Some(b) = el {
                    if self.hit() {
                        *e = Expr::Block(b.clone());
                        return;
                    }
                }
                if !matches!(**c, Expr::Lit(_)) {
                    if self.hit() {
                        **c = Expr::Lit(Lit { v: V::Bool(true), text: "true".into() });
                        return;
                    }
                    if self.hit() {
                        **c = Expr::Lit(Lit { v: V::Bool(false), text: "false".into() });
                        return;
                    }
                }
                self.expr(c);
                self.block(t);
                if let Some(b) = el {
                    self.block(b);
                }
            }
            Expr::Match(_, arms) => {
                // remove an arm / a guard; replace the match by an arm body without bindings
                let mut i = 0;
                while i < arms.len() {
                    if arms.len() > 1 && self.hit() {
                        arms.remove(i);
                        return;
                    }
                    if arms[i].guard.is_some() && self.hit() {
                        arms[i].guard = None;
                        return;
                    }
                    i += 1;
                }
                let mut repl: Option<Expr> = None;
                for a in arms.iter() {
                    if a.binds.is_empty() && self.hit() {
                        repl = Some(Expr::Block(a.body.clone()));
                        break;
                    }
                }
                if let Some(r) = repl {
                    *e = r;
                    return;
                }
                if let Expr::Match(s, arms) = e {
                    self.expr(s);
                    for a in arms.iter_mut() {
                        if let Some(g) = &mut a.guard {
                            if !matches!(g, Expr::Lit(_)) && self.hit() {
                                *g = Expr::Lit(Lit { v: V::Bool(false), text: "false".into() });
                                return;
                            }
                            self.expr(g);
                        }
                        self.block(&mut a.body);
                        if self.applied {
                            return;
                        }
                    }
                }
            }
            Expr::Block(b) => {
                if b.stmts.is_empty() {
                    if let Some(t) = &b.tail {
                        let c = (**t).clone();
                        if self.hit() {
                            *e = c;
                            return;
                        }
                    }
                }
                if let Expr::Block(b) = e {
                    self.block(b);
                }
            }
            Expr::Return(v) | Expr::Accept(v) | Expr::Reject(v) => {
                if let Some(v) = v {
                    self.expr(v);
                }
            }
            Expr::Record(_, fs) => {
                for (_, v) in fs.iter_mut() {
                    self.expr(v);
                }
            }
            Expr::FStr(parts) => {
                let mut i = 0;
                while i < parts.len() {
                    if self.hit() {
                        parts.remove(i);
                        return;
                    }
                    i += 1;
                }
                for p in parts.iter_mut() {
                    if let FPart::Expr(x) = p {
                        self.expr(x);
                    }
                }
            }
            Expr::While(c, b) => {
                self.expr(c);
                self.block(b);
            }
            Expr::For(_, l, b) => {
                self.expr(l);
                self.block(b);
            }
            Expr::Assign(_, v) | Expr::Compound(_, _, v) => self.expr(v),
        }
    }
}

/// Apply the `k`-th candidate edit; None when there is no such edit.
pub fn apply_edit(p: &Program, k: usize) -> Option<Program> {
    let mut q = p.clone();
    let mut ed = Editor { prog: p, target: k, count: 0, applied: false };
    // function-level edits: empty a function body (keep a default tail)
    for fi in 0..q.funcs.len() {
        let f = &q.funcs[fi];
        let trivial = f.body.stmts.is_empty();
        if !trivial && f.kind == FnKind::Fn && ed.hit() {
            let ret = f.ret.clone();
            let tail = if ret == Ty::Unit { None } else { Some(Box::new(default_expr(p, &ret))) };
            q.funcs[fi].body = Block { stmts: vec![], tail };
            return Some(q);
        }
    }
    // drop the last function if it is not main
    if q.funcs.len() > 1 && ed.hit() {
        q.funcs.pop();
        return Some(q);
    }
    // drop the last type declaration
    if !q.decls.is_empty() && ed.hit() {
        q.decls.pop();
        return Some(q);
    }
    if !q.consts.is_empty() && ed.hit() {
        q.consts.pop();
        return Some(q);
    }
    for fi in 0..q.funcs.len() {
        let mut body = std::mem::take(&mut q.funcs[fi].body);
        ed.block(&mut body);
        q.funcs[fi].body = body;
        if ed.applied {
            return Some(q);
        }
    }
    for ci in 0..q.consts.len() {
        let mut init = q.consts[ci].init.clone();
        ed.expr(&mut init);
        q.consts[ci].init = init;
        if ed.applied {
            return Some(q);
        }
    }
    None
}

/// Greedy reduction: `still_fails` must return true when the candidate shows the same failure.
pub fn reduce(p: &Program, mut still_fails: impl FnMut(&Program) -> bool, max_evals: usize) -> Program {
    let mut cur = p.clone();
    let mut evals = 0;
    let mut progress = true;
    while progress && evals < max_evals {
        progress = false;
        let mut k = 0;
        loop {
            if evals >= max_evals {
                break;
            }
            let Some(cand) = apply_edit(&cur, k) else { break };
            evals += 1;
            // references to dropped functions / decls make the candidate invalid: the
            // oracle (compile) rejects those by itself, but indices must stay in range
            let ok = program_indices_ok(&cand) && still_fails(&cand);
            if ok {
                cur = cand;
                progress = true;
            } else {
                k += 1;
            }
        }
    }
    cur
}

fn program_indices_ok(p: &Program) -> bool {
    fn ty_ok(p: &Program, t: &Ty) -> bool {
        match t {
            Ty::Rec(i, a) | Ty::Enum(i, a) => *i < p.decls.len() && a.iter().all(|t| ty_ok(p, t)),
            Ty::Opt(t) | Ty::List(t) => ty_ok(p, t),
            Ty::Result(a, b) | Ty::Verdict(a, b) => ty_ok(p, a) && ty_ok(p, b),
            Ty::Anon(fs) => fs.iter().all(|(_, t)| ty_ok(p, t)),
            _ => true,
        }
    }
    fn expr_ok(p: &Program, e: &Expr) -> bool {
        let all = |es: &[Expr]| es.iter().all(|x| expr_ok(p, x));
        match e {
            Expr::Call(i, a) => *i < p.funcs.len() && all(a),
            Expr::Lit(_) | Expr::Var(_) => true,
            Expr::Field(a, _) | Expr::Neg(a) | Expr::Not(a) | Expr::Try(a) | Expr::Paren(a) => expr_ok(p, a),
            Expr::Bin(_, l, r) => expr_ok(p, l) && expr_ok(p, r),
            Expr::Host(_, a) | Expr::Ctor(_, _, a) | Expr::List(a) => all(a),
            Expr::Method(r, _, a) => expr_ok(p, r) && all(a),
            Expr::If(c, t, e) => expr_ok(p, c) && block_ok(p, t) && e.as_ref().map(|b| block_ok(p, b)).unwrap_or(true),
            Expr::Match(s, arms) => {
                expr_ok(p, s) && arms.iter().all(|a| a.guard.as_ref().map(|g| expr_ok(p, g)).unwrap_or(true) && block_ok(p, &a.body))
            }
            Expr::Block(b) => block_ok(p, b),
            Expr::Return(v) | Expr::Accept(v) | Expr::Reject(v) => v.as_ref().map(|v| expr_ok(p, v)).unwrap_or(true),
            Expr::Record(_, fs) => fs.iter().all(|(_, v)| expr_ok(p, v)),
            Expr::FStr(ps) => ps.iter().all(|x| match x {
                FPart::Expr(e) => expr_ok(p, e),
                _ => true,
            }),
            Expr::While(c, b) => expr_ok(p, c) && block_ok(p, b),
            Expr::For(_, l, b) => expr_ok(p, l) && block_ok(p, b),
            Expr::Assign(_, v) | Expr::Compound(_, _, v) => expr_ok(p, v),
        }
    }
    fn block_ok(p: &Program, b: &Block) -> bool {
        b.stmts.iter().all(|s| match s {
            Stmt::Let(_, t, e) => t.as_ref().map(|t| ty_ok(p, t)).unwrap_or(true) && expr_ok(p, e),
            Stmt::Expr(e) => expr_ok(p, e),
        }) && b.tail.as_ref().map(|t| expr_ok(p, t)).unwrap_or(true)
    }
    p.funcs.iter().all(|f| ty_ok(p, &f.ret) && f.params.iter().all(|(_, t)| ty_ok(p, t)) && block_ok(p, &f.body))
        && p.consts.iter().all(|c| ty_ok(p, &c.ty) && expr_ok(p, &c.init))
        && p.decls.iter().all(|d| {
            d.fields().iter().all(|(_, t)| ty_ok(p, t)) && d.variants().iter().all(|(_, ts)| ts.iter().all(|t| ty_ok(p, t)))
        })
}
