//! C05 — Values cross the host boundary unchanged in both directions.

use std::any::Any;
use std::cell::RefCell;
use std::net::{IpAddr, Ipv4Addr, Ipv6Addr};

use inetnum::addr::Prefix;
use inetnum::asn::Asn;
use roto::{Context, List, NoCtx, RotoString, Runtime, Val, Value, Verdict};

use crate::ast::{char_lit, str_lit};
use crate::core::*;
use crate::host::{self, T8, Tc, Tr, Tz};

pub struct C05P;
pub static C05: C05P = C05P;

/// A type that can cross the boundary, with a value generator, a structural
/// comparison (NaN tolerant, lists by content) and a Roto spelling of values.
pub trait Boundary: Value + Sized + 'static {
    fn roto_ty() -> String;
    fn make(c: &mut Choices) -> Self;
    fn dup(&self) -> Self;
    fn same(&self, other: &Self) -> bool;
    /// Roto expression that constructs this value (None: no spelling, e.g. NaN)
    fn lit(&self) -> Option<String>;
    fn show(&self) -> String;
    /// can `==` be used on this type in a script with the documented meaning?
    fn has_eq() -> bool {
        true
    }
    fn is_default(&self) -> bool;
}

macro_rules! int_boundary {
    ($($t:ty),*) => { $(
        impl Boundary for $t {
            fn roto_ty() -> String { stringify!($t).into() }
            fn make(c: &mut Choices) -> Self {
                match c.below(8) {
                    0 => 0, 1 => 1, 2 => <$t>::MAX, 3 => <$t>::MIN, 4 => <$t>::MAX - 1, 5 => (<$t>::MIN).wrapping_add(1),
                    _ => c.u64() as $t,
                }
            }
            fn dup(&self) -> Self { *self }
            fn same(&self, o: &Self) -> bool { self == o }
            fn lit(&self) -> Option<String> {
                let v = *self as i128;
                if v > i64::MAX as i128 || v == i64::MIN as i128 { return None; }
                Some(if v < 0 { format!("(-{}{})", -v, stringify!($t)) } else { format!("{}{}", v, stringify!($t)) })
            }
            fn show(&self) -> String { format!("{}{}", self, stringify!($t)) }
            fn is_default(&self) -> bool { *self == 0 }
        }
    )* };
}
int_boundary!(u8, u16, u32, u64, i8, i16, i32, i64);

macro_rules! float_boundary {
    ($($t:ty),*) => { $(
        impl Boundary for $t {
            fn roto_ty() -> String { stringify!($t).into() }
            fn make(c: &mut Choices) -> Self {
                match c.below(10) {
                    0 => 0.0, 1 => -0.0, 2 => 1.0, 3 => <$t>::INFINITY, 4 => <$t>::NEG_INFINITY, 5 => <$t>::NAN,
                    6 => <$t>::MIN_POSITIVE, 7 => <$t>::MAX, 8 => -1.5,
                    _ => <$t>::from_bits(c.u64() as _),
                }
            }
            fn dup(&self) -> Self { *self }
            fn same(&self, o: &Self) -> bool { (self.is_nan() && o.is_nan()) || self.to_bits() == o.to_bits() }
            fn lit(&self) -> Option<String> {
                if !self.is_finite() { return None; }
                let body = format!("{:?}", self.abs());
                // only spellings whose documented value is this very value
                let back: $t = body.parse::<f64>().ok()? as $t;
                if back.to_bits() != self.abs().to_bits() { return None; }
                Some(if self.is_sign_negative() { format!("(-{}{})", body, stringify!($t)) } else { format!("{}{}", body, stringify!($t)) })
            }
            fn show(&self) -> String { format!("{:?}{}[{:#x}]", self, stringify!($t), self.to_bits()) }
            fn has_eq() -> bool { false }
            fn is_default(&self) -> bool { self.to_bits() == 0 }
        }
    )* };
}
float_boundary!(f32, f64);

impl Boundary for bool {
    fn roto_ty() -> String { "bool".into() }
    fn make(c: &mut Choices) -> Self { c.chance(128) }
    fn dup(&self) -> Self { *self }
    fn same(&self, o: &Self) -> bool { self == o }
    fn lit(&self) -> Option<String> { Some(format!("{self}")) }
    fn show(&self) -> String { format!("{self}") }
    fn is_default(&self) -> bool { !*self }
}
impl Boundary for char {
    fn roto_ty() -> String { "char".into() }
    fn make(c: &mut Choices) -> Self {
        match c.below(8) { 0 => 'a', 1 => '\0', 2 => '\u{10FFFF}', 3 => 'é', 4 => '日', 5 => '\u{D7FF}', 6 => '\u{E000}',
            _ => char::from_u32(c.u64() as u32 % 0x110000).unwrap_or('x') }
    }
    fn dup(&self) -> Self { *self }
    fn same(&self, o: &Self) -> bool { self == o }
    fn lit(&self) -> Option<String> { if *self == '\r' { None } else { Some(char_lit(*self)) } }
    fn show(&self) -> String { format!("{:?}", self) }
    fn is_default(&self) -> bool { *self == '\0' }
}
impl Boundary for () {
    fn roto_ty() -> String { "()".into() }
    fn make(_c: &mut Choices) -> Self {}
    fn dup(&self) -> Self {}
    fn same(&self, _o: &Self) -> bool { true }
    fn lit(&self) -> Option<String> { Some("()".into()) }
    fn show(&self) -> String { "()".into() }
    fn is_default(&self) -> bool { true }
}
impl Boundary for Asn {
    fn roto_ty() -> String { "Asn".into() }
    fn make(c: &mut Choices) -> Self { Asn::from_u32(match c.below(4) { 0 => 0, 1 => u32::MAX, 2 => 65535, _ => c.u64() as u32 }) }
    fn dup(&self) -> Self { *self }
    fn same(&self, o: &Self) -> bool { self == o }
    fn lit(&self) -> Option<String> { Some(format!("AS{}", self.into_u32())) }
    fn show(&self) -> String { format!("AS{}", self.into_u32()) }
    fn is_default(&self) -> bool { self.into_u32() == 0 }
}
fn make_ip(c: &mut Choices) -> IpAddr {
    match c.below(6) {
        0 => IpAddr::V4(Ipv4Addr::UNSPECIFIED),
        1 => IpAddr::V4(Ipv4Addr::BROADCAST),
        2 => IpAddr::V6(Ipv6Addr::UNSPECIFIED),
        3 => IpAddr::V6(Ipv6Addr::from(u128::MAX)),
        4 => IpAddr::V4(Ipv4Addr::from(c.u64() as u32)),
        _ => IpAddr::V6(Ipv6Addr::from(((c.u64() as u128) << 64) | c.u64() as u128)),
    }
}
impl Boundary for IpAddr {
    fn roto_ty() -> String { "IpAddr".into() }
    fn make(c: &mut Choices) -> Self { make_ip(c) }
    fn dup(&self) -> Self { *self }
    fn same(&self, o: &Self) -> bool { self == o }
    fn lit(&self) -> Option<String> { Some(format!("{self}")) }
    fn show(&self) -> String { format!("{self}") }
    fn is_default(&self) -> bool { *self == IpAddr::V4(Ipv4Addr::UNSPECIFIED) }
}
impl Boundary for Prefix {
    fn roto_ty() -> String { "Prefix".into() }
    fn make(c: &mut Choices) -> Self {
        let ip = make_ip(c);
        let max = if ip.is_ipv4() { 32 } else { 128 };
        let len = match c.below(4) { 0 => 0, 1 => max, _ => c.below(max as usize + 1) as u8 };
        Prefix::new_relaxed(ip, len).expect("valid length")
    }
    fn dup(&self) -> Self { *self }
    fn same(&self, o: &Self) -> bool { self == o }
    fn lit(&self) -> Option<String> { Some(format!("{} / {}", self.addr(), self.len())) }
    fn show(&self) -> String { format!("{self}") }
    fn is_default(&self) -> bool { false }
}
impl Boundary for RotoString {
    fn roto_ty() -> String { "String".into() }
    fn make(c: &mut Choices) -> Self {
        const P: [&str; 8] = ["", "a", "é", "日本", " x\n", "\"q\"", "{}", "\\"];
        let n = c.below(4);
        let mut s = String::new();
        for _ in 0..n { s.push_str(P[c.below(8)]); }
        RotoString::from(s)
    }
    fn dup(&self) -> Self { self.clone() }
    fn same(&self, o: &Self) -> bool { self.to_string() == o.to_string() }
    fn lit(&self) -> Option<String> { Some(str_lit(&self.to_string())) }
    fn show(&self) -> String { format!("{:?}", self.to_string()) }
    fn is_default(&self) -> bool { self.to_string().is_empty() }
}
impl Boundary for Val<Tr> {
    fn roto_ty() -> String { "Tr".into() }
    fn make(c: &mut Choices) -> Self { Val(Tr::new(c.below(100) as i32)) }
    fn dup(&self) -> Self { Val(self.0.clone()) }
    fn same(&self, o: &Self) -> bool { self.0.tag == o.0.tag }
    fn lit(&self) -> Option<String> { Some(format!("mk({})", self.0.tag)) }
    fn show(&self) -> String { format!("Tr({})", self.0.tag) }
    fn is_default(&self) -> bool { self.0.tag == 0 }
}
impl Boundary for Val<Tz> {
    fn roto_ty() -> String { "Tz".into() }
    fn make(_c: &mut Choices) -> Self { Val(Tz::new()) }
    fn dup(&self) -> Self { Val(self.0.clone()) }
    fn same(&self, _o: &Self) -> bool { true }
    fn lit(&self) -> Option<String> { Some("mkz()".into()) }
    fn show(&self) -> String { "Tz".into() }
    fn is_default(&self) -> bool { true }
}
impl Boundary for Val<Tc> {
    fn roto_ty() -> String { "Tc".into() }
    fn make(c: &mut Choices) -> Self { Val(Tc(c.byte(), c.byte(), c.byte())) }
    fn dup(&self) -> Self { Val(self.0) }
    fn same(&self, o: &Self) -> bool { self.0 == o.0 }
    fn lit(&self) -> Option<String> { Some(format!("mkc({})", self.0.0 as u32 | (self.0.1 as u32) << 8 | (self.0.2 as u32) << 16)) }
    fn show(&self) -> String { format!("{:?}", self.0) }
    fn is_default(&self) -> bool { self.0 == Tc(0, 0, 0) }
}
impl Boundary for Val<T8> {
    fn roto_ty() -> String { "T8".into() }
    fn make(c: &mut Choices) -> Self { Val(T8(c.u64())) }
    fn dup(&self) -> Self { Val(self.0) }
    fn same(&self, o: &Self) -> bool { self.0 == o.0 }
    fn lit(&self) -> Option<String> { Some(format!("mk8({})", self.0.0)).filter(|_| self.0.0 <= i64::MAX as u64) }
    fn show(&self) -> String { format!("{:?}", self.0) }
    fn is_default(&self) -> bool { self.0.0 == 0 }
}
impl<T: Boundary> Boundary for Option<T> {
    fn roto_ty() -> String { format!("Option[{}]", T::roto_ty()) }
    fn make(c: &mut Choices) -> Self { if c.chance(80) { None } else { Some(T::make(c)) } }
    fn dup(&self) -> Self { self.as_ref().map(|x| x.dup()) }
    fn same(&self, o: &Self) -> bool {
        match (self, o) { (None, None) => true, (Some(a), Some(b)) => a.same(b), _ => false }
    }
    fn lit(&self) -> Option<String> {
        Some(match self { None => "Option.None".into(), Some(x) => format!("Option.Some({})", x.lit()?) })
    }
    fn show(&self) -> String { match self { None => "None".into(), Some(x) => format!("Some({})", x.show()) } }
    fn has_eq() -> bool { T::has_eq() }
    fn is_default(&self) -> bool { self.is_none() }
}
impl<T: Boundary + Clone> Boundary for List<T>
where
    T::Transformed: PartialEq,
{
    fn roto_ty() -> String { format!("List[{}]", T::roto_ty()) }
    fn make(c: &mut Choices) -> Self {
        let n = match c.below(4) { 0 => 0, 1 => 1, 2 => 5, _ => c.below(10) };
        let l = List::new();
        for _ in 0..n { l.push(T::make(c)); }
        l
    }
    fn dup(&self) -> Self { List::from(self.to_vec().iter().map(|x| x.dup()).collect::<Vec<_>>()) }
    fn same(&self, o: &Self) -> bool {
        let (a, b) = (self.to_vec(), o.to_vec());
        a.len() == b.len() && a.iter().zip(b.iter()).all(|(x, y)| x.same(y))
    }
    fn lit(&self) -> Option<String> {
        let v = self.to_vec();
        let parts: Option<Vec<String>> = v.iter().map(|x| x.lit()).collect();
        Some(format!("[{}]", parts?.join(", ")))
    }
    fn show(&self) -> String { format!("[{}]", self.to_vec().iter().map(|x| x.show()).collect::<Vec<_>>().join(", ")) }
    fn has_eq() -> bool { T::has_eq() }
    fn is_default(&self) -> bool { self.is_empty() }
}
impl<A: Boundary, B: Boundary> Boundary for Result<A, B>
where
    A::Transformed: Clone,
    B::Transformed: Clone,
{
    fn roto_ty() -> String { format!("Result[{}, {}]", A::roto_ty(), B::roto_ty()) }
    fn make(c: &mut Choices) -> Self { if c.chance(128) { Ok(A::make(c)) } else { Err(B::make(c)) } }
    fn dup(&self) -> Self { match self { Ok(a) => Ok(a.dup()), Err(b) => Err(b.dup()) } }
    fn same(&self, o: &Self) -> bool {
        match (self, o) { (Ok(a), Ok(b)) => a.same(b), (Err(a), Err(b)) => a.same(b), _ => false }
    }
    fn lit(&self) -> Option<String> {
        Some(match self { Ok(a) => format!("Result.Ok({})", a.lit()?), Err(b) => format!("Result.Err({})", b.lit()?) })
    }
    fn show(&self) -> String { match self { Ok(a) => format!("Ok({})", a.show()), Err(b) => format!("Err({})", b.show()) } }
    fn has_eq() -> bool { A::has_eq() && B::has_eq() }
    fn is_default(&self) -> bool { false }
}
impl<A: Boundary, B: Boundary> Boundary for Verdict<A, B>
where
    A::Transformed: Clone,
    B::Transformed: Clone,
{
    fn roto_ty() -> String { format!("Verdict[{}, {}]", A::roto_ty(), B::roto_ty()) }
    fn make(c: &mut Choices) -> Self { if c.chance(128) { Verdict::Accept(A::make(c)) } else { Verdict::Reject(B::make(c)) } }
    fn dup(&self) -> Self { match self { Verdict::Accept(a) => Verdict::Accept(a.dup()), Verdict::Reject(b) => Verdict::Reject(b.dup()) } }
    fn same(&self, o: &Self) -> bool {
        match (self, o) { (Verdict::Accept(a), Verdict::Accept(b)) => a.same(b), (Verdict::Reject(a), Verdict::Reject(b)) => a.same(b), _ => false }
    }
    fn lit(&self) -> Option<String> {
        Some(match self { Verdict::Accept(a) => format!("Verdict.Accept({})", a.lit()?), Verdict::Reject(b) => format!("Verdict.Reject({})", b.lit()?) })
    }
    fn show(&self) -> String { match self { Verdict::Accept(a) => format!("Accept({})", a.show()), Verdict::Reject(b) => format!("Reject({})", b.show()) } }
    fn has_eq() -> bool { A::has_eq() && B::has_eq() }
    fn is_default(&self) -> bool { false }
}

// ---------------------------------------------------------------------------
// the type catalogue

thread_local! {
    static SLOT: RefCell<Option<Box<dyn Any>>> = const { RefCell::new(None) };
}

fn register_type<T: Boundary + Clone + Send + Sync>(lib: &mut roto::Library, idx: usize)
where
    T::Transformed: Send + Sync + 'static,
{
    // sink_i(x: T): stores the value; src_i() -> T: returns a copy of the stored value
    let sink = move |x: T| {
        SLOT.with(|s| *s.borrow_mut() = Some(Box::new(x)));
    };
    let src = move || -> T { SLOT.with(|s| s.borrow().as_ref().and_then(|b| b.downcast_ref::<T>()).map(|x| x.dup()).expect("slot holds a value of this type")) };
    lib.add(roto::Function::new(format!("sink_{idx}").as_str(), "", vec!["x"], sink, roto::location!()).expect("sink").into());
    lib.add(roto::Function::new(format!("src_{idx}").as_str(), "", vec![], src, roto::location!()).expect("src").into());
    // ident_i(x) -> x, fst_i(a, b) -> a, snd_i(a, b) -> b: two results of registered functions alive in one expression
    lib.add(roto::Function::new(format!("ident_{idx}").as_str(), "", vec!["x"], move |x: T| -> T { x }, roto::location!()).expect("ident").into());
    lib.add(roto::Function::new(format!("fst_{idx}").as_str(), "", vec!["a", "b"], move |a: T, _b: T| -> T { a }, roto::location!()).expect("fst").into());
    lib.add(roto::Function::new(format!("snd_{idx}").as_str(), "", vec!["a", "b"], move |_a: T, b: T| -> T { b }, roto::location!()).expect("snd").into());
}

struct TypeCheck {
    name: String,
    run: Box<dyn Fn(&Runtime<NoCtx>, usize, &mut Choices, bool) -> Result<(u64, bool, String), (String, String)>>,
}

/// All routes for one type.  Returns (evaluations, non-trivial, sample).
fn check_type<T: Boundary + Clone>(rt: &Runtime<NoCtx>, idx: usize, c: &mut Choices, with_consts: bool) -> Result<(u64, bool, String), (String, String)>
where
    List<T>: Value,
    Option<T>: Value,
    <T as Value>::Transformed: PartialEq,
{
    let ty = T::roto_ty();
    let v = T::make(c);
    let lit = v.lit();
    let mut src = format!(
        "fn id(x: {ty}) -> {ty} {{\n    x\n}}\nfn through(x: {ty}) -> {ty} {{\n    sink_{idx}(x);\n    src_{idx}()\n}}\nfn twice(x: {ty}) -> {ty} {{\n    let y = x;\n    sink_{idx}(y);\n    let z = src_{idx}();\n    z\n}}\n"
    );
    if let Some(l) = &lit {
        src.push_str(&format!("fn build() -> {ty} {{\n    {l}\n}}\n"));
        if T::has_eq() {
            src.push_str(&format!("fn matches(x: {ty}) -> bool {{\n    x == {l}\n}}\n"));
        }
    }
    if with_consts {
        src.push_str(&format!("fn konst() -> {ty} {{\n    K_{idx}\n}}\n"));
    }
    // the type as a list element: element size and stride must agree on both sides
    src.push_str(&format!(
        "fn pack(x: {ty}, y: {ty}) -> List[{ty}] {{\n    [x, y, x]\n}}\nfn second(l: List[{ty}]) -> {ty}? {{\n    l.get(1)\n}}\nfn relist(l: List[{ty}], x: {ty}) -> List[{ty}] {{\n    let m = l + [x];\n    m.push(x);\n    m\n}}\n"
    ));
    // the results of two calls of registered functions are alive at the same time
    src.push_str(&format!(
        "fn two_a(x: {ty}, y: {ty}) -> {ty} {{\n    fst_{idx}(ident_{idx}(x), ident_{idx}(y))\n}}\nfn two_b(x: {ty}, y: {ty}) -> {ty} {{\n    snd_{idx}(ident_{idx}(x), ident_{idx}(y))\n}}\nfn two_l(x: {ty}, y: {ty}) -> List[{ty}] {{\n    [ident_{idx}(x), ident_{idx}(y), ident_{idx}(x)]\n}}\n"
    ));
    let fail = |sig: &str, msg: String| -> (String, String) { (format!("{sig}:{ty}"), format!("{msg}\nvalue: {}\n--- source ---\n{src}", v.show())) };
    let mut pkg = host::compile(rt, &src).map_err(|e| fail("rejected", e))?;
    let (live0, tz0) = host::live_count();
    let mut evals = 0;
    for name in ["id", "through", "twice"] {
        let f = pkg.get_function::<fn(T) -> T>(name).map_err(|e| fail("get_function", format!("{e}")))?;
        let got = f.call(v.dup());
        evals += 1;
        if !got.same(&v) {
            return Err(fail(&format!("roundtrip:{name}"), format!("`{name}` returned {} for {}", got.show(), v.show())));
        }
    }
    if lit.is_some() {
        let f = pkg.get_function::<fn() -> T>("build").map_err(|e| fail("get_function", format!("{e}")))?;
        let got = f.call();
        evals += 1;
        if !got.same(&v) {
            return Err(fail("script-constructed", format!("the script built {} from the spelling of {}", got.show(), v.show())));
        }
        if T::has_eq() {
            let f = pkg.get_function::<fn(T) -> bool>("matches").map_err(|e| fail("get_function", format!("{e}")))?;
            evals += 1;
            if !f.call(v.dup()) {
                return Err(fail("script-compared", "the script does not find the value equal to its own spelling".into()));
            }
            let other = T::make(c);
            evals += 1;
            if f.call(other.dup()) != other.same(&v) {
                return Err(fail("script-compared", format!("script `==` of {} against the spelling disagrees with Rust", other.show())));
            }
        }
    }
    {
        let w = T::make(c);
        let show_list = |l: &List<T>| -> String {
            let mut parts = Vec::new();
            for i in 0..l.len().min(8) {
                parts.push(l.get(i).map(|x| x.show()).unwrap_or_else(|| "<missing>".into()));
            }
            format!("[{}]", parts.join(", "))
        };
        let elems_are = |l: &List<T>, want: &[&T]| -> bool { l.len() == want.len() && want.iter().enumerate().all(|(i, x)| l.get(i).map(|g| g.same(x)).unwrap_or(false)) };
        let f = pkg.get_function::<fn(T, T) -> List<T>>("pack").map_err(|e| fail("get_function", format!("{e}")))?;
        let got = f.call(v.dup(), w.dup());
        evals += 1;
        if !elems_are(&got, &[&v, &w, &v]) {
            return Err(fail("list-built-by-script", format!("`[x, y, x]` with x = {}, y = {} read back in Rust as {}", v.show(), w.show(), show_list(&got))));
        }
        drop(got);
        for (name, want) in [("two_a", &v), ("two_b", &w)] {
            let f = pkg.get_function::<fn(T, T) -> T>(name).map_err(|e| fail("get_function", format!("{e}")))?;
            let got = f.call(v.dup(), w.dup());
            evals += 1;
            if !got.same(want) {
                return Err(fail(&format!("two-results-alive:{name}"), format!("`{name}` with x = {}, y = {} returned {}, expected {}", v.show(), w.show(), got.show(), want.show())));
            }
        }
        let f = pkg.get_function::<fn(T, T) -> List<T>>("two_l").map_err(|e| fail("get_function", format!("{e}")))?;
        let got = f.call(v.dup(), w.dup());
        evals += 1;
        if !elems_are(&got, &[&v, &w, &v]) {
            return Err(fail("two-results-alive:two_l", format!("`[ident(x), ident(y), ident(x)]` with x = {}, y = {} read back in Rust as {}", v.show(), w.show(), show_list(&got))));
        }
        drop(got);
        let l: List<T> = List::new();
        l.push(v.dup());
        l.push(w.dup());
        l.push(v.dup());
        let f = pkg.get_function::<fn(List<T>) -> Option<T>>("second").map_err(|e| fail("get_function", format!("{e}")))?;
        let got = f.call(l.clone());
        evals += 1;
        if !got.as_ref().map(|g| g.same(&w)).unwrap_or(false) {
            return Err(fail("list-built-by-rust", format!("`l.get(1)` on the Rust-built list [{}, {}, {}] returned {}", v.show(), w.show(), v.show(), got.map(|g| g.show()).unwrap_or_else(|| "None".into()))));
        }
        let f = pkg.get_function::<fn(List<T>, T) -> List<T>>("relist").map_err(|e| fail("get_function", format!("{e}")))?;
        let got = f.call(l.clone(), w.dup());
        evals += 1;
        if !elems_are(&got, &[&v, &w, &v, &w, &w]) || !elems_are(&l, &[&v, &w, &v]) {
            return Err(fail("list-extended-by-script", format!("`l + [x]` then push(x) gave {} (argument list afterwards {})", show_list(&got), show_list(&l))));
        }
    }
    SLOT.with(|s| *s.borrow_mut() = None);
    drop(pkg);
    let (live1, tz1) = host::live_count();
    let _ = (tz0, tz1);
    if live1 != live0 {
        return Err(fail("tracked-balance", format!("tracked Tr live before {live0}, after {live1}")));
    }
    let nt = !v.is_default() && (ty.contains('[') || !matches!(ty.as_str(), "u64" | "i64" | "f64"));
    Ok((evals, nt, format!("{ty}: {}", v.show())))
}

fn check_const<T: Boundary + Clone>(rt: &Runtime<NoCtx>, idx: usize, expected: &T) -> Result<(), (String, String)> {
    let ty = T::roto_ty();
    let src = format!("fn konst() -> {ty} {{\n    K_{idx}\n}}\n");
    let mut pkg = host::compile(rt, &src).map_err(|e| (format!("rejected-constant:{ty}"), e))?;
    let f = pkg.get_function::<fn() -> T>("konst").map_err(|e| (format!("get_function:{ty}"), format!("{e}")))?;
    for _ in 0..2 {
        let got = f.call();
        if !got.same(expected) {
            return Err((format!("constant:{ty}"), format!("registered constant K_{idx} = {} read as {}\n{src}", expected.show(), got.show())));
        }
    }
    // a variable initialised from the constant is a copy: assigning to the variable (and, for lists,
    // nothing else) leaves the constant what it was, for this package and for the next one
    if !ty.starts_with("List") && !ty.contains("List[") && ty != "()" {
        let src2 = format!("fn kcopy(o: {ty}, b: bool) -> {ty} {{\n    let x = K_{idx};\n    if b {{\n        x = o;\n    }}\n    x\n}}\nfn konst() -> {ty} {{\n    K_{idx}\n}}\n");
        let mut pkg2 = host::compile(rt, &src2).map_err(|e| (format!("rejected-constant:{ty}"), e))?;
        let g = pkg2.get_function::<fn(T, bool) -> T>("kcopy").map_err(|e| (format!("get_function:{ty}"), format!("{e}")))?;
        let k2 = pkg2.get_function::<fn() -> T>("konst").map_err(|e| (format!("get_function:{ty}"), format!("{e}")))?;
        let seed: Vec<u8> = (0..64u8).map(|i| i.wrapping_mul(91).wrapping_add(idx as u8).wrapping_add(5)).collect();
        for round in 0..3 {
            let mut c = Choices::new(&seed[round * 9..]);
            let other = T::make(&mut c);
            let back = g.call(other.dup(), true);
            if !back.same(&other) {
                return Err((format!("constant-copy:{ty}"), format!("kcopy({}, true) returned {}\n{src2}", other.show(), back.show())));
            }
            let kept = g.call(other.dup(), false);
            let (now, now2) = (k2.call(), f.call());
            if !kept.same(expected) || !now.same(expected) || !now2.same(expected) {
                return Err((format!("constant-overwritten:{ty}"), format!("after `let x = K_{idx}; x = {};` the constant K_{idx} = {} reads as {} (same package) / {} (package compiled earlier); a fresh copy reads {}\n{src2}", other.show(), expected.show(), now.show(), now2.show(), kept.show())));
            }
        }
    }
    Ok(())
}

macro_rules! catalogue {
    ($($t:ty),* $(,)?) => {
        fn build_all(consts: &mut Vec<Box<dyn Fn(&Runtime<NoCtx>) -> Result<(), (String, String)>>>) -> (Runtime<NoCtx>, Vec<TypeCheck>) {
            let mut rt = host::build_runtime();
            let mut lib = roto::Library::new();
            let mut checks = Vec::new();
            let mut idx = 0usize;
            // deterministic constant values
            let seed: Vec<u8> = (0..255u8).map(|i| i.wrapping_mul(37).wrapping_add(11)).collect();
            $(
                {
                    let i = idx;
                    register_type::<$t>(&mut lib, i);
                    let mut c = Choices::new(&seed[(i * 7) % 200..]);
                    let kv = <$t as Boundary>::make(&mut c);
                    let kv2 = kv.dup();
                    lib.add(roto::Constant::new(format!("K_{i}").as_str(), "", kv, roto::location!()).expect("constant").into());
                    consts.push(Box::new(move |rt| check_const::<$t>(rt, i, &kv2)));
                    checks.push(TypeCheck { name: <$t as Boundary>::roto_ty(), run: Box::new(|rt, i, c, k| check_type::<$t>(rt, i, c, k)) });
                    idx += 1;
                }
            )*
            let _ = idx;
            rt.add(lib).expect("register boundary catalogue");
            (rt, checks)
        }
    };
}

catalogue!(
    bool, u8, u16, u32, u64, i8, i16, i32, i64, f32, f64, char, (), Asn, IpAddr, Prefix, RotoString, Val<Tr>, Val<Tc>, Val<T8>,
    Option<bool>, Option<u8>, Option<u16>, Option<u32>, Option<u64>, Option<i64>, Option<f32>, Option<f64>, Option<char>, Option<()>,
    Option<Asn>, Option<IpAddr>, Option<Prefix>, Option<RotoString>, Option<Val<Tr>>, Option<Val<Tc>>,
    List<u8>, List<u64>, List<bool>, List<f32>, List<char>, List<RotoString>, List<Prefix>, List<Val<Tr>>, List<Val<Tc>>, List<()>,
    Result<u8, u64>, Result<u64, u8>, Result<(), RotoString>, Result<RotoString, ()>, Result<Val<Tr>, i16>, Result<f64, char>,
    Verdict<u8, u64>, Verdict<(), ()>, Verdict<RotoString, Prefix>, Verdict<IpAddr, Val<Tc>>, Verdict<i32, Val<Tr>>,
    Option<Option<u8>>, Option<Option<RotoString>>, Option<List<u32>>, List<Option<u32>>, List<List<u8>>, List<List<RotoString>>,
    Option<Result<u8, u16>>, Result<Option<u8>, List<i64>>, Verdict<List<RotoString>, Option<Prefix>>, List<Result<Val<Tr>, ()>>,
    List<Verdict<u16, RotoString>>, Option<Verdict<Option<i8>, List<bool>>>, Result<Result<u8, u32>, Result<u64, ()>>,
    Result<IpAddr, u64>, Verdict<Prefix, u32>, Result<Prefix, f64>, Option<Result<IpAddr, u16>>, Verdict<u64, IpAddr>, Result<char, Option<char>>,
    List<Option<char>>, List<Result<IpAddr, u64>>,
);

// ---------------------------------------------------------------------------
// argument positions (register vs stack) and context fields

#[derive(Clone, Context)]
pub struct Ctx1 {
    pub a: u8,
    pub b: u64,
    pub c: bool,
    pub d: RotoString,
    pub e: u16,
    pub f: f32,
}

#[derive(Clone, Context)]
pub struct Ctx2 {
    pub f: f64,
    pub c: char,
    pub a: i8,
    pub p: Prefix,
    pub b: i64,
    pub ip: IpAddr,
    pub asn: Asn,
    pub t: Val<Tc>,
}

struct W {
    rt: Runtime<NoCtx>,
    checks: Vec<TypeCheck>,
    consts: Vec<Box<dyn Fn(&Runtime<NoCtx>) -> Result<(), (String, String)>>>,
    consts_checked: bool,
}

impl W {
    fn positions(&self, c: &mut Choices) -> Result<(u64, String), (String, String)> {
        // seven arguments of mixed classes; pick_k returns the k-th one
        type A1 = u8;
        type A2 = f64;
        type A3 = RotoString;
        type A4 = i64;
        type A5 = Option<u32>;
        type A6 = f32;
        type A7 = bool;
        let params = "a1: u8, a2: f64, a3: String, a4: i64, a5: Option[u32], a6: f32, a7: bool";
        let src = format!(
            "fn p1({params}) -> u8 {{ a1 }}\nfn p2({params}) -> f64 {{ a2 }}\nfn p3({params}) -> String {{ a3 }}\nfn p4({params}) -> i64 {{ a4 }}\nfn p5({params}) -> Option[u32] {{ a5 }}\nfn p6({params}) -> f32 {{ a6 }}\nfn p7({params}) -> bool {{ a7 }}\nfn q(b1: i64, b2: i64, b3: i64, b4: i64, b5: i64, b6: i64, b7: i64) -> i64 {{ b7 - b6 }}\nfn r(b1: f64, b2: f64, b3: f64, b4: f64, b5: f64, b6: f64, b7: f64) -> f64 {{ b7 }}\n"
        );
        let mut pkg = host::compile(&self.rt, &src).map_err(|e| ("positions:rejected".to_string(), e))?;
        let v: (A1, A2, A3, A4, A5, A6, A7) = (u8::make(c), f64::make(c), RotoString::make(c), i64::make(c), Option::<u32>::make(c), f32::make(c), bool::make(c));
        let show = format!("({}, {}, {}, {}, {}, {}, {})", v.0.show(), v.1.show(), v.2.show(), v.3.show(), v.4.show(), v.5.show(), v.6.show());
        macro_rules! pos {
            ($name:literal, $t:ty, $field:tt) => {{
                let f = pkg.get_function::<fn(A1, A2, A3, A4, A5, A6, A7) -> $t>($name).map_err(|e| ("positions:get_function".to_string(), format!("{e}")))?;
                let got = f.call(v.0, v.1, v.2.clone(), v.3, v.4, v.5, v.6);
                if !got.same(&v.$field) {
                    return Err((format!("positions:{}", $name), format!("{} returned {} for arguments {show}\n{src}", $name, got.show())));
                }
            }};
        }
        pos!("p1", A1, 0);
        pos!("p2", A2, 1);
        pos!("p3", A3, 2);
        pos!("p4", A4, 3);
        pos!("p5", A5, 4);
        pos!("p6", A6, 5);
        pos!("p7", A7, 6);
        let b: Vec<i64> = (0..7).map(|_| i64::make(c)).collect();
        let f = pkg.get_function::<fn(i64, i64, i64, i64, i64, i64, i64) -> i64>("q").map_err(|e| ("positions:get_function".to_string(), format!("{e}")))?;
        let got = f.call(b[0], b[1], b[2], b[3], b[4], b[5], b[6]);
        if got != b[6].wrapping_sub(b[5]) {
            return Err(("positions:q".into(), format!("q{b:?} returned {got}\n{src}")));
        }
        let d: Vec<f64> = (0..7).map(|_| f64::make(c)).collect();
        let f = pkg.get_function::<fn(f64, f64, f64, f64, f64, f64, f64) -> f64>("r").map_err(|e| ("positions:get_function".to_string(), format!("{e}")))?;
        let got = f.call(d[0], d[1], d[2], d[3], d[4], d[5], d[6]);
        if !got.same(&d[6]) {
            return Err(("positions:r".into(), format!("r{d:?} returned {got:?}\n{src}")));
        }
        Ok((9, show))
    }

    /// zero-sized arguments (unit, a zero-sized registered type) in front of and between other arguments,
    /// Rust -> script, script -> registered function and script -> script
    fn zst_positions(&self, c: &mut Choices) -> Result<(u64, String), (String, String)> {
        let src = "fn z1(a: i32, z: Tz, b: i64) -> i64 { b }\nfn z2(z: Tz, a: i32) -> i32 { a }\nfn z3(u: (), a: i32, z: Tz, w: (), b: u8) -> u8 { b }\nfn z4(a: i32) -> i32 { hz2(mkz(), a) }\nfn z5(a: i32, b: i32) -> i32 { hz3(a, mkz(), b) }\nfn z6(a: i32) -> i32 { z2(mkz(), a) }\nfn z7(u: (), a: i32) -> i32 { a }\nfn y1(a: i32, z: Tzc, b: i64) -> i64 { b }\nfn y2(z: Tzc, a: i32) -> i32 { a }\nfn y3(u: (), a: i32, z: Tzc, w: Tz, b: u8) -> u8 { b }\nfn y4(a: i32) -> i32 { hzc2(mkzc(), a) }\nfn y5(a: i32, b: i32) -> i32 { hzc3(a, mkzc(), b) }\nfn y6(a: i32) -> i32 { y2(mkzc(), a) }\nfn y7(z: Tzc, a: i32, b: i32) -> i32 { hzc3(a, z, b) }\n";
        let mut pkg = host::compile(&self.rt, src).map_err(|e| ("zst-positions:rejected".to_string(), e))?;
        let (a, b, d, e) = (i32::make(c), i64::make(c), u8::make(c), i32::make(c));
        let show = format!("a = {a}, b = {b}, d = {d}, e = {e}");
        macro_rules! chk {
            ($name:literal, $got:expr, $want:expr) => {{
                let got = $got;
                if got != $want {
                    return Err((format!("zst-positions:{}", $name), format!("{} returned {got}, expected {} ({show})\n{src}", $name, $want)));
                }
            }};
        }
        macro_rules! gf {
            ($name:literal, $t:ty) => {
                pkg.get_function::<$t>($name).map_err(|e| ("zst-positions:get_function".to_string(), format!("{}: {e}", $name)))?
            };
        }
        chk!("z1", gf!("z1", fn(i32, Val<host::Tz>, i64) -> i64).call(a, Val(host::Tz::new()), b), b);
        chk!("z2", gf!("z2", fn(Val<host::Tz>, i32) -> i32).call(Val(host::Tz::new()), a), a);
        chk!("z3", gf!("z3", fn((), i32, Val<host::Tz>, (), u8) -> u8).call((), a, Val(host::Tz::new()), (), d), d);
        chk!("z4", gf!("z4", fn(i32) -> i32).call(a), a);
        chk!("z5", gf!("z5", fn(i32, i32) -> i32).call(a, e), a.wrapping_mul(31).wrapping_add(e));
        chk!("z6", gf!("z6", fn(i32) -> i32).call(e), e);
        chk!("z7", gf!("z7", fn((), i32) -> i32).call((), a), a);
        // the same with a zero-sized *copy* type
        chk!("y1", gf!("y1", fn(i32, Val<host::Tzc>, i64) -> i64).call(a, Val(host::Tzc), b), b);
        chk!("y2", gf!("y2", fn(Val<host::Tzc>, i32) -> i32).call(Val(host::Tzc), a), a);
        chk!("y3", gf!("y3", fn((), i32, Val<host::Tzc>, Val<host::Tz>, u8) -> u8).call((), a, Val(host::Tzc), Val(host::Tz::new()), d), d);
        chk!("y4", gf!("y4", fn(i32) -> i32).call(a), a);
        chk!("y5", gf!("y5", fn(i32, i32) -> i32).call(a, e), a.wrapping_mul(31).wrapping_add(e));
        chk!("y6", gf!("y6", fn(i32) -> i32).call(e), e);
        chk!("y7", gf!("y7", fn(Val<host::Tzc>, i32, i32) -> i32).call(Val(host::Tzc), a, e), a.wrapping_mul(31).wrapping_add(e));
        Ok((14, show))
    }

    /// narrow integers that the script computes itself (wrapping arithmetic, negation, a literal,
    /// the payload of an Option) handed straight to a registered function, which widens them
    fn narrow_to_host(&self, c: &mut Choices) -> Result<(u64, String), (String, String)> {
        let mut src = String::new();
        for t in ["i8", "i16", "i32", "u8", "u16", "u32"] {
            let lit = match t {
                "i8" => "-5",
                "i16" => "-5",
                "i32" => "-5",
                "u8" => "200",
                "u16" => "65000",
                _ => "4000000000",
            };
            src.push_str(&format!(
                "fn n_{t}(a: {t}, b: {t}) -> i64 {{ w_{t}(a - b) }}\nfn p_{t}(a: {t}, b: {t}) -> i64 {{ w_{t}(a + b) }}\nfn l_{t}() -> i64 {{ w_{t}({lit}) }}\nfn o_{t}(x: {t}?) -> i64 {{ match x {{ Some(v) => w_{t}(v), None => 0 }} }}\nfn m_{t}(a: {t}, b: {t}) -> i64 {{ let r = {{ a: a * b }}; w_{t}(r.a) }}\n"
            ));
        }
        let mut pkg = host::compile(&self.rt, &src).map_err(|e| ("narrow-to-host:rejected".to_string(), e))?;
        let mut n = 0u64;
        let mut show = String::new();
        macro_rules! one {
            ($t:ty, $name:literal, $lit:expr) => {{
                let (a, b) = (<$t>::make(c), <$t>::make(c));
                show = format!("{}: a = {a}, b = {b}", $name);
                let chk = |what: &str, got: i64, want: i64| -> Result<(), (String, String)> {
                    if got != want {
                        Err((format!("narrow-to-host:{}", $name), format!("{what}: the registered function saw {got}, expected {want} (a = {a}, b = {b})\n{src}")))
                    } else {
                        Ok(())
                    }
                };
                let f2 = |pkg: &mut roto::Package<NoCtx>, p: &str| pkg.get_function::<fn($t, $t) -> i64>(&format!("{p}_{}", $name)).map_err(|e| ("narrow-to-host:get_function".to_string(), format!("{e}")));
                chk("a - b", f2(&mut pkg, "n")?.call(a, b), a.wrapping_sub(b) as i64)?;
                chk("a + b", f2(&mut pkg, "p")?.call(a, b), a.wrapping_add(b) as i64)?;
                chk("a * b through a record field", f2(&mut pkg, "m")?.call(a, b), a.wrapping_mul(b) as i64)?;
                let l = pkg.get_function::<fn() -> i64>(&format!("l_{}", $name)).map_err(|e| ("narrow-to-host:get_function".to_string(), format!("{e}")))?;
                chk("literal", l.call(), $lit as $t as i64)?;
                let o = pkg.get_function::<fn(Option<$t>) -> i64>(&format!("o_{}", $name)).map_err(|e| ("narrow-to-host:get_function".to_string(), format!("{e}")))?;
                chk("payload of an Option", o.call(Some(a)), a as i64)?;
                n += 5;
            }};
        }
        one!(i8, "i8", -5i64);
        one!(i16, "i16", -5i64);
        one!(i32, "i32", -5i64);
        one!(u8, "u8", 200i64);
        one!(u16, "u16", 65000i64);
        one!(u32, "u32", 4000000000i64);
        Ok((n, show))
    }

    fn context(&self, c: &mut Choices) -> Result<(u64, String), (String, String)> {
        let rt1 = Runtime::new().with_context_type::<Ctx1>().map_err(|e| ("context:registration".to_string(), format!("{e}")))?;
        let src1 = "fn ga() -> u8 { a }\nfn gb() -> u64 { b }\nfn gc() -> bool { c }\nfn gd() -> String { d }\nfn ge() -> u16 { e }\nfn gf() -> f32 { f }\n";
        let mut pkg = roto::FileTree::test_file("ctx.roto", src1, 0).compile(&rt1).map_err(|e| ("context:rejected".to_string(), host::render_report(&e)))?;
        let mut ctx = Ctx1 { a: u8::make(c), b: u64::make(c), c: bool::make(c), d: RotoString::make(c), e: u16::make(c), f: f32::make(c) };
        macro_rules! field {
            ($pkg:ident, $ctx:ident, $name:literal, $t:ty, $f:ident) => {{
                let f = $pkg.get_function::<fn() -> $t>($name).map_err(|e| ("context:get_function".to_string(), format!("{e}")))?;
                let got = f.call(&mut $ctx);
                if !got.same(&$ctx.$f) {
                    return Err((format!("context:{}", $name), format!("context field `{}` = {} read as {}", stringify!($f), $ctx.$f.show(), got.show())));
                }
            }};
        }
        field!(pkg, ctx, "ga", u8, a);
        field!(pkg, ctx, "gb", u64, b);
        field!(pkg, ctx, "gc", bool, c);
        field!(pkg, ctx, "gd", RotoString, d);
        field!(pkg, ctx, "ge", u16, e);
        field!(pkg, ctx, "gf", f32, f);
        let mut lib = roto::Library::new();
        lib.add(roto::Type::copy::<Val<Tc>>("Tc", "", roto::location!()).map_err(|e| ("context:registration".to_string(), format!("{e}")))?.into());
        let rt2 = Runtime::from_lib(lib).map_err(|e| ("context:registration".to_string(), format!("{e}")))?;
        let rt2 = rt2.with_context_type::<Ctx2>().map_err(|e| ("context:registration".to_string(), format!("{e}")))?;
        let src2 = "fn gf() -> f64 { f }\nfn gc() -> char { c }\nfn ga() -> i8 { a }\nfn gp() -> Prefix { p }\nfn gb() -> i64 { b }\nfn gip() -> IpAddr { ip }\nfn gasn() -> Asn { asn }\nfn gt() -> Tc { t }\n";
        let mut pkg2 = roto::FileTree::test_file("ctx.roto", src2, 0).compile(&rt2).map_err(|e| ("context:rejected".to_string(), host::render_report(&e)))?;
        let mut ctx2 = Ctx2 { f: f64::make(c), c: char::make(c), a: i8::make(c), p: Prefix::make(c), b: i64::make(c), ip: make_ip(c), asn: Asn::make(c), t: <Val<Tc>>::make(c) };
        field!(pkg2, ctx2, "gf", f64, f);
        field!(pkg2, ctx2, "gc", char, c);
        field!(pkg2, ctx2, "ga", i8, a);
        field!(pkg2, ctx2, "gp", Prefix, p);
        field!(pkg2, ctx2, "gb", i64, b);
        field!(pkg2, ctx2, "gip", IpAddr, ip);
        field!(pkg2, ctx2, "gasn", Asn, asn);
        field!(pkg2, ctx2, "gt", Val<Tc>, t);
        // a field read after control flow in which only one branch (the else branch, the last arm, a loop
        // body that may not run) read it before
        let src3 = "fn ha(k: bool) -> u8 {\n    let w = if k { 1 } else { if a == a { 2 } else { 3 } };\n    a\n}\nfn hb(k: bool) -> u64 {\n    let w = if k { 1 } else { if b == b { 2 } else { 3 } };\n    b\n}\nfn hb2(k: bool) -> u64 {\n    let w = if k { b } else { 1 };\n    w - w + b\n}\nfn hc(k: bool) -> bool {\n    if k { } else { let t = c; }\n    c\n}\nfn hd(k: bool) -> String {\n    let w = if k { \"x\" } else { d };\n    d\n}\nfn he(o: u8?) -> u16 {\n    let w = match o { Some(v) => 1, None => { if e == e { 2 } else { 3 } } };\n    e\n}\nfn hf(k: bool) -> f32 {\n    let w = if k { 1.0 } else { f };\n    f\n}\nfn hl(n: u8) -> u64 {\n    let i = 0u8;\n    let s = 0u64;\n    while i < n {\n        s = s + b;\n        i = i + 1;\n    }\n    s - s + b\n}\nfn hm(o: u8?) -> u64 {\n    match o { Some(v) => { if v > 3 { return b; } }, None => {} }\n    b\n}\n";
        let mut pkg3 = roto::FileTree::test_file("ctx.roto", src3, 0).compile(&rt1).map_err(|e| ("context:rejected".to_string(), host::render_report(&e)))?;
        macro_rules! after {
            ($name:literal, $arg_t:ty, $t:ty, $f:ident, $($arg:expr),+) => {{
                let f = pkg3.get_function::<fn($arg_t) -> $t>($name).map_err(|e| ("context:get_function".to_string(), format!("{e}")))?;
                $(
                    let got = f.call(&mut ctx, $arg);
                    if !got.same(&ctx.$f) {
                        return Err((format!("context:after-branch:{}", $name), format!("context field `{}` = {} read as {} by {}({:?})\n{src3}", stringify!($f), ctx.$f.show(), got.show(), $name, $arg)));
                    }
                )+
            }};
        }
        after!("ha", bool, u8, a, true, false, true);
        after!("hb", bool, u64, b, true, false);
        after!("hb2", bool, u64, b, false, true);
        after!("hc", bool, bool, c, true, false);
        after!("hd", bool, RotoString, d, true, false);
        after!("he", Option<u8>, u16, e, Some(1u8), None::<u8>, Some(2u8));
        after!("hf", bool, f32, f, true, false);
        after!("hl", u8, u64, b, 0u8, 2u8, 0u8);
        after!("hm", Option<u8>, u64, b, Some(1u8), Some(9u8), None::<u8>);
        Ok((35, format!("ctx1.b = {}, ctx2.p = {}", ctx.b, ctx2.p)))
    }

    /// registered constants of one name in different places (root, two modules, a nested module, the
    /// impl blocks of two types): every path reads its own value
    fn same_named_constants(&self, c: &mut Choices) -> Result<(u64, String), (String, String)> {
        use roto::{Constant, Impl, Library, Module, Type, location};
        let reg = |e: roto::RegistrationError| ("constants:registration".to_string(), format!("{e}"));
        let vals: Vec<u32> = (0..6).map(|_| u32::make(c)).collect();
        let strs: Vec<RotoString> = (0..3).map(|_| RotoString::make(c)).collect();
        let mut lib = Library::new();
        lib.add(Constant::new("X", "", vals[0], location!()).map_err(reg)?.into());
        lib.add(Constant::new("Y", "", strs[0].clone(), location!()).map_err(reg)?.into());
        let mut m1 = Module::new("m1", "", location!()).map_err(reg)?;
        m1.add(Constant::new("X", "", vals[1], location!()).map_err(reg)?);
        m1.add(Constant::new("Y", "", strs[1].clone(), location!()).map_err(reg)?);
        let mut inner = Module::new("inner", "", location!()).map_err(reg)?;
        inner.add(Constant::new("X", "", vals[2], location!()).map_err(reg)?);
        m1.add(inner);
        lib.add(m1.into());
        let mut m2 = Module::new("m2", "", location!()).map_err(reg)?;
        m2.add(Constant::new("X", "", vals[3], location!()).map_err(reg)?);
        m2.add(Constant::new("Y", "", strs[2].clone(), location!()).map_err(reg)?);
        lib.add(m2.into());
        lib.add(Type::copy::<Val<Tc>>("Tc", "", location!()).map_err(reg)?.into());
        lib.add(Type::copy::<Val<T8>>("T8", "", location!()).map_err(reg)?.into());
        let mut i1 = Impl::new::<Val<Tc>>(location!());
        i1.add(Constant::new("X", "", vals[4], location!()).map_err(reg)?);
        lib.add(i1.into());
        let mut i2 = Impl::new::<Val<T8>>(location!());
        i2.add(Constant::new("X", "", vals[5], location!()).map_err(reg)?);
        lib.add(i2.into());
        let rt = Runtime::from_lib(lib).map_err(reg)?;
        let src = "fn x0() -> u32 { X }\nfn x1() -> u32 { m1.X }\nfn x2() -> u32 { m1.inner.X }\nfn x3() -> u32 { m2.X }\nfn x4() -> u32 { Tc.X }\nfn x5() -> u32 { T8.X }\nfn x1i() -> u32 { import m1.X; X }\nfn x3i() -> u32 { import m2.X; X }\nfn y0() -> String { Y }\nfn y1() -> String { m1.Y }\nfn y2() -> String { m2.Y }\nfn all() -> bool { X == X && m1.X == m1.X && m2.X == m2.X && Tc.X == Tc.X }\n";
        let mut pkg = roto::FileTree::test_file("consts.roto", src, 0).compile(&rt).map_err(|e| ("constants:rejected".to_string(), host::render_report(&e)))?;
        let show = format!("X = {vals:?}");
        for (name, want) in [("x0", vals[0]), ("x1", vals[1]), ("x2", vals[2]), ("x3", vals[3]), ("x4", vals[4]), ("x5", vals[5]), ("x1i", vals[1]), ("x3i", vals[3])] {
            let f = pkg.get_function::<fn() -> u32>(name).map_err(|e| ("constants:get_function".to_string(), format!("{e}")))?;
            let got = f.call();
            if got != want {
                return Err((format!("constants:same-name:{name}"), format!("{name}() returned {got}, the constant it names was registered as {want} ({show})\n{src}")));
            }
        }
        for (name, want) in [("y0", &strs[0]), ("y1", &strs[1]), ("y2", &strs[2])] {
            let f = pkg.get_function::<fn() -> RotoString>(name).map_err(|e| ("constants:get_function".to_string(), format!("{e}")))?;
            let got = f.call();
            if !got.same(want) {
                return Err((format!("constants:same-name:{name}"), format!("{name}() returned {}, the constant it names was registered as {}\n{src}", got.show(), want.show())));
            }
        }
        Ok((11, show))
    }
}

impl WorkerState for W {
    fn render_only(&mut self, case: &Case) -> String {
        let empty: Vec<u8> = Vec::new();
        let ctl = case.first().unwrap_or(&empty);
        let mut c = Choices::new(ctl);
        let k = c.below(self.checks.len() + 5);
        if k < self.checks.len() { format!("type {}", self.checks[k].name) } else { "positions / zero-sized positions / narrow integers to host / context".into() }
    }

    fn run(&mut self, case: &Case, render: bool) -> Outcome {
        let empty: Vec<u8> = Vec::new();
        let ctl = case.first().unwrap_or(&empty);
        let mut c = Choices::new(ctl);
        let mut o = Outcome::pass();
        if !self.consts_checked {
            self.consts_checked = true;
            for k in &self.consts {
                if let Err((sig, msg)) = k(&self.rt) {
                    return Outcome::fail(sig, msg);
                }
            }
        }
        let k = c.below(self.checks.len() + 5);
        eprintln!("@@ctx route={k}");
        let res = if k < self.checks.len() {
            o.classes.push(format!("type:{}", self.checks[k].name));
            (self.checks[k].run)(&self.rt, k, &mut c, true)
        } else if k == self.checks.len() {
            o.classes.push("route:argument-positions".into());
            self.positions(&mut c).map(|(n, s)| (n, true, s))
        } else if k == self.checks.len() + 1 {
            o.classes.push("route:zero-sized-argument-positions".into());
            self.zst_positions(&mut c).map(|(n, s)| (n, true, s))
        } else if k == self.checks.len() + 2 {
            o.classes.push("route:narrow-integers-computed-by-the-script-to-host".into());
            self.narrow_to_host(&mut c).map(|(n, s)| (n, true, s))
        } else if k == self.checks.len() + 3 {
            o.classes.push("route:context-fields".into());
            self.context(&mut c).map(|(n, s)| (n, true, s))
        } else {
            o.classes.push("route:same-named-registered-constants".into());
            self.same_named_constants(&mut c).map(|(n, s)| (n, true, s))
        };
        match res {
            Ok((n, nt, sample)) => {
                o.evals = n;
                o.nontrivial = nt;
                o.hash = fnv(sample.as_bytes());
                if render {
                    o.render = Some(sample);
                }
                o
            }
            Err((sig, msg)) => {
                let mut f = Outcome::fail(sig, msg);
                f.render = Some(self.render_only(case));
                f
            }
        }
    }
}

impl Prop for C05P {
    fn id(&self) -> &'static str {
        "C05"
    }
    fn rule(&self) -> String {
        "a macro-built catalogue of ~80 boundary types (20 leaves incl. registered clone/copy types, Option/List/Result/Verdict nestings to depth 3, payloads of 0..32 bytes) x generated edge and random values x routes: Rust->script->Rust identity, Rust->script->registered function->script->Rust, through a local copy, script constructs the value from generated literal text, script compares an incoming value with literal text, registered constants, as elements of a list built by the script and read in Rust, of a list built in Rust and read by the script, and of a Rust-built list extended by the script, a 7-argument position sweep over mixed classes (register vs stack), zero-sized arguments (unit and a zero-sized registered type) before and between other arguments in Rust->script, script->registered function and script->script calls, context structs with permuted field orders (each field also read after an if / match / loop in which only the branch not taken, or no iteration, read it before), registered constants of one name in the root, two modules, a nested module and two impl blocks; oracle: structural equality computed by the harness (NaN tolerant, lists by content), Tr balance. Non-trivial: value is not the type's default and the type is nested or not a plain 8-byte scalar; distinct by (type, value)".into()
    }
    fn assumptions(&self) -> Vec<String> {
        vec![
            "types are a finite catalogue; aggregates above 32 bytes are not reached".into(),
            "context fields are limited to the leaf types the derive macro accepts".into(),
        ]
    }
    fn cases(&self, tier: Tier) -> u32 {
        match tier {
            Tier::Quick => 80_000,
            Tier::Thorough => 3_000_000,
        }
    }
    fn shape(&self, _tier: Tier) -> CaseShape {
        CaseShape::streams(&[220])
    }
    fn worker(&self, _excl: &[String]) -> Box<dyn WorkerState> {
        let mut consts = Vec::new();
        let (rt, checks) = build_all(&mut consts);
        Box::new(W { rt, checks, consts, consts_checked: false })
    }
}
