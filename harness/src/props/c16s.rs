//! C16, second engine: free-running real threads on lists of drop-tracked elements.
//!
//! The scheduler-driven engine (c16.rs) can only interleave where the implementation
//! reports a scheduling point.  This engine needs no hooks: per round it builds fresh
//! lists whose length equals their capacity (so that the next push moves the buffer),
//! releases a mutating thread and one or two reading threads through a spin gate and
//! lets them race for real.  Freed memory is poisoned by the harness allocator and
//! elements carry a magic number, so a read through a stale buffer pointer is seen as
//! a "use of garbage" anomaly even when it does not crash.  All list operations take part, get and concat included
//! (their two defects, C16-F1 and C16-F2, were repaired).

use std::sync::Arc;
use std::sync::atomic::{AtomicUsize, Ordering};

use roto::{List, NoCtx, Runtime, TypedFunc, Val};

use crate::core::*;
use crate::host::{self, Tr};

type L = List<Val<Tr>>;

pub struct StressFns {
    s_eq: TypedFunc<NoCtx, fn(L, L) -> bool>,
    s_ne: TypedFunc<NoCtx, fn(L, L) -> bool>,
    s_contains: TypedFunc<NoCtx, fn(L, Val<Tr>) -> bool>,
    s_index: TypedFunc<NoCtx, fn(L, Val<Tr>) -> Option<u64>>,
    s_push: TypedFunc<NoCtx, fn(L, Val<Tr>)>,
    s_len: TypedFunc<NoCtx, fn(L) -> u64>,
    s_swap: TypedFunc<NoCtx, fn(L, u64, u64)>,
    s_get: TypedFunc<NoCtx, fn(L, u64) -> Option<Val<Tr>>>,
    s_concat_len: TypedFunc<NoCtx, fn(L, L) -> u64>,
    _pkg: roto::Package<NoCtx>,
    _rt: Runtime<NoCtx>,
}

const SCRIPT: &str = "
fn s_eq(a: List[Tr], b: List[Tr]) -> bool { a == b }
fn s_ne(a: List[Tr], b: List[Tr]) -> bool { a != b }
fn s_contains(l: List[Tr], x: Tr) -> bool { l.contains(x) }
fn s_index(l: List[Tr], x: Tr) -> u64? { l.index(x) }
fn s_push(l: List[Tr], x: Tr) { l.push(x); }
fn s_len(l: List[Tr]) -> u64 { l.len() }
fn s_swap(l: List[Tr], i: u64, j: u64) { l.swap(i, j); }
fn s_get(l: List[Tr], i: u64) -> Tr? { l.get(i) }
fn s_concat_len(a: List[Tr], b: List[Tr]) -> u64 { (a + b).len() }
";

pub fn build() -> Result<StressFns, String> {
    let rt = host::build_runtime();
    let mut pkg = host::compile(&rt, SCRIPT)?;
    macro_rules! get {
        ($n:literal) => {
            pkg.get_function($n).map_err(|e| format!("{}: {e}", $n))?
        };
    }
    Ok(StressFns {
        s_eq: get!("s_eq"),
        s_ne: get!("s_ne"),
        s_contains: get!("s_contains"),
        s_index: get!("s_index"),
        s_push: get!("s_push"),
        s_len: get!("s_len"),
        s_swap: get!("s_swap"),
        s_get: get!("s_get"),
        s_concat_len: get!("s_concat_len"),
        _pkg: pkg,
        _rt: rt,
    })
}

#[derive(Clone, Copy, Debug, PartialEq)]
enum Mutator {
    PushRust,
    PushScript,
    PushTwice,
    SwapEnds,
    SwapScript,
    CloneDropHandle,
    /// two threads push one element each while exactly one slot is free
    TwoPushers,
    /// two threads swap overlapping pairs many times
    TwoSwappers,
    /// nobody mutates: only readers run (two-list operations in both orders)
    Nobody,
    /// the buffer has one to three free slots; 60 pushes, so that it moves (several times) however
    /// much room there was, while readers clone elements slowly
    PushBurst,
}

#[derive(Clone, Copy, Debug, PartialEq)]
enum Reader {
    EqRustAB,
    EqRustBA,
    EqScriptAB,
    EqScriptBA,
    NeScript,
    ContainsRust,
    ContainsScript,
    IndexRust,
    IndexScript,
    LenRust,
    LenScript,
    ContainsMissingRust,
    ToVecRust,
    IsEmptyRust,
    ConcatAB,
    ConcatBA,
    ConcatScript,
    GetRustLast,
    GetScriptLast,
    GetRustFirst,
    /// `for x in list` from Rust (IntoIterator)
    IntoIterRust,
    /// what one thread sees of a list that only grows is monotone: an index that `get` answered is below
    /// every later `len`, and the last index of a `len` is answered by every later `get`
    GetThenLen,
}

const MUTATORS: [Mutator; 10] = [Mutator::PushBurst, Mutator::Nobody, Mutator::PushRust, Mutator::PushScript, Mutator::PushTwice, Mutator::SwapEnds, Mutator::SwapScript, Mutator::CloneDropHandle, Mutator::TwoPushers, Mutator::TwoSwappers];
const READERS: [Reader; 22] = [
    Reader::EqRustAB,
    Reader::EqRustBA,
    Reader::EqScriptAB,
    Reader::EqScriptBA,
    Reader::NeScript,
    Reader::ContainsRust,
    Reader::ContainsScript,
    Reader::IndexRust,
    Reader::IndexScript,
    Reader::LenRust,
    Reader::LenScript,
    Reader::ContainsMissingRust,
    Reader::ToVecRust,
    Reader::IsEmptyRust,
    Reader::ConcatAB,
    Reader::ConcatBA,
    Reader::ConcatScript,
    Reader::GetRustLast,
    Reader::GetScriptLast,
    Reader::GetRustFirst,
    Reader::IntoIterRust,
    Reader::GetThenLen,
];

struct Cfg {
    n: usize,
    mutator: Mutator,
    readers: Vec<Reader>,
    rounds: usize,
    eq_spin: u32,
    /// the threads share the one handle by reference instead of holding a clone each (nobody else
    /// has a handle then, which must not make any operation think it is alone)
    by_ref: bool,
}

fn decode(ctl: &[u8]) -> Cfg {
    let mut c = Choices::new(ctl);
    let n = [1usize, 2, 4, 8, 16, 64, 256, 1024][c.below(8)];
    let mutator = MUTATORS[c.below(MUTATORS.len())];
    let nr = if mutator == Mutator::Nobody { 2 } else { 1 + c.below(2) };
    let mut readers: Vec<Reader> = (0..nr).map(|_| READERS[c.below(READERS.len())]).collect();
    if mutator == Mutator::Nobody {
        // both orders at once
        let pairs = [(Reader::ConcatAB, Reader::ConcatBA), (Reader::EqRustAB, Reader::EqRustBA), (Reader::EqScriptAB, Reader::EqScriptBA), (Reader::ConcatAB, Reader::EqRustBA)];
        let (x, y) = pairs[c.below(pairs.len())];
        readers = vec![x, y];
    }
    let rounds = 4 + c.below(12);
    let eq_spin = [0u32, 0, 20, 200, 2000][c.below(5)];
    let by_ref = c.chance(90);
    Cfg { n, mutator, readers, rounds, eq_spin, by_ref }
}

pub fn describe(ctl: &[u8]) -> String {
    let c = decode(ctl);
    format!(
        "stress: list a = b = [Tr(0), .., Tr({})] with len == capacity; handles {}; mutator {:?} on a; readers {:?}; {} rounds; element comparison spins {} iterations",
        c.n - 1,
        if c.by_ref { "shared by reference" } else { "cloned per thread" },
        c.mutator,
        c.readers,
        c.rounds,
        c.eq_spin
    )
}

fn mk_list(n: usize) -> L {
    let l: L = List::new();
    for i in 0..n {
        l.push(Val(Tr::new(i as i32)));
    }
    // fill up to the capacity so that the next push has to move the buffer
    let mut k = n;
    while l.len() < l.capacity() && k < n + 4096 {
        l.push(Val(Tr::new((n - 1) as i32)));
        k += 1;
    }
    l
}

/// a list of at least `n` elements with exactly `free` unused slots in its buffer
fn mk_list_free(n: usize, free: usize) -> L {
    let l: L = List::new();
    let mut k = 0;
    while k < n + 4096 {
        l.push(Val(Tr::new(k.min(n.saturating_sub(1)) as i32)));
        k += 1;
        if k >= n && l.capacity() - l.len() == free {
            break;
        }
    }
    l
}

fn gate(g: &AtomicUsize, parties: usize) {
    g.fetch_add(1, Ordering::SeqCst);
    let mut spins = 0u32;
    while g.load(Ordering::SeqCst) < parties {
        spins += 1;
        if spins % 64 == 0 {
            std::thread::yield_now();
        } else {
            std::hint::spin_loop();
        }
    }
}

pub fn run(fns: &Arc<StressFns>, ctl: &[u8], render: bool) -> Outcome {
    let cfg = decode(ctl);
    let text = describe(ctl);
    let (live0, _) = host::live_count();
    host::reset(vec![]);
    host::set_eq_spin(cfg.eq_spin);
    let mut overlapped_rounds = 0usize;
    let mut fail: Option<(String, String)> = None;
    let t0 = std::time::Instant::now();
    for round in 0..cfg.rounds {
        let a = match cfg.mutator {
            Mutator::TwoPushers => mk_list_free(cfg.n, 1),
            Mutator::PushBurst => mk_list_free(cfg.n, 1 + round % 3),
            _ => mk_list(cfg.n),
        };
        host::set_clone_spin(if cfg.mutator == Mutator::PushBurst { [30u32, 300, 3000][round % 3] } else { 0 });
        let b = mk_list(cfg.n);
        let len0 = a.len();
        let blen0 = b.len();
        let last_tag = (cfg.n - 1) as i32;
        let g = Arc::new(AtomicUsize::new(0));
        let n_mut = match cfg.mutator {
            Mutator::TwoPushers | Mutator::TwoSwappers => 2,
            Mutator::Nobody => 0,
            _ => 1,
        };
        let parties = n_mut + cfg.readers.len();
        let max_pushes: usize = if cfg.mutator == Mutator::PushBurst { 60 } else { 2 };
        let mut spans: Vec<(u128, u128)> = Vec::new();
        let mut errs: Vec<String> = Vec::new();
        std::thread::scope(|s| {
            let mut hs = Vec::new();
            let (a_outer, b_outer) = (&a, &b);
            for mi in 0..n_mut {
                let (a_own, g, fns) = (if cfg.by_ref { None } else { Some(a_outer.clone()) }, g.clone(), fns.clone());
                let m = cfg.mutator;
                hs.push(s.spawn(move || -> Result<(u128, u128), String> {
                    let a: &L = a_own.as_ref().unwrap_or(a_outer);
                    let x1 = Val(Tr::new(5000));
                    let x2 = Val(Tr::new(5001));
                    gate(&g, parties);
                    let st = t0.elapsed().as_nanos();
                    match m {
                        Mutator::PushRust => a.push(x1),
                        Mutator::PushScript => fns.s_push.call(a.clone(), x1),
                        Mutator::PushTwice => {
                            a.push(x1);
                            a.push(x2);
                        }
                        Mutator::PushBurst => {
                            drop(x2);
                            a.push(x1);
                            for _ in 1..60 {
                                a.push(Val(Tr::new(5000)));
                            }
                        }
                        Mutator::SwapEnds => a.swap(0, len0 - 1),
                        Mutator::SwapScript => fns.s_swap.call(a.clone(), 0, (len0 - 1) as u64),
                        Mutator::CloneDropHandle => {
                            let c = a.clone();
                            drop(c);
                        }
                        Mutator::Nobody => {}
                        Mutator::TwoPushers => {
                            drop(x2);
                            a.push(x1);
                        }
                        Mutator::TwoSwappers => {
                            // overlapping pairs: (0,1) against (1,2); without a lock around the whole swap
                            // elements get duplicated or lost
                            if len0 >= 3 {
                                for _ in 0..200 {
                                    a.swap(mi, mi + 1);
                                }
                            }
                        }
                    }
                    Ok((st, t0.elapsed().as_nanos()))
                }));
            }
            let (cfg_mutator, cfg_n) = (cfg.mutator, cfg.n);
            for r in cfg.readers.iter().copied() {
                let (a_own, b_own, g, fns) = (if cfg.by_ref { None } else { Some(a_outer.clone()) }, if cfg.by_ref { None } else { Some(b_outer.clone()) }, g.clone(), fns.clone());
                hs.push(s.spawn(move || -> Result<(u128, u128), String> {
                    let a: &L = a_own.as_ref().unwrap_or(a_outer);
                    let b: &L = b_own.as_ref().unwrap_or(b_outer);
                    let needle = Val(Tr::new(last_tag));
                    let missing = Val(Tr::new(777_777));
                    gate(&g, parties);
                    let st = t0.elapsed().as_nanos();
                    let res: Result<(), String> = match r {
                        Reader::EqRustAB => {
                            let _ = a == b;
                            Ok(())
                        }
                        Reader::EqRustBA => {
                            let _ = b == a;
                            Ok(())
                        }
                        Reader::EqScriptAB => {
                            let _ = fns.s_eq.call(a.clone(), b.clone());
                            Ok(())
                        }
                        Reader::EqScriptBA => {
                            let _ = fns.s_eq.call(b.clone(), a.clone());
                            Ok(())
                        }
                        Reader::NeScript => {
                            let _ = fns.s_ne.call(a.clone(), b.clone());
                            Ok(())
                        }
                        Reader::ContainsRust => {
                            if a.contains(&needle) { Ok(()) } else { Err("Rust contains(last element) returned false".into()) }
                        }
                        Reader::ContainsScript => {
                            if fns.s_contains.call(a.clone(), needle) { Ok(()) } else { Err("script contains(last element) returned false".into()) }
                        }
                        Reader::IndexRust => match a.index(&needle) {
                            Some(_) => Ok(()),
                            None => Err("Rust index(last element) returned None".into()),
                        },
                        Reader::IndexScript => match fns.s_index.call(a.clone(), needle) {
                            Some(_) => Ok(()),
                            None => Err("script index(last element) returned None".into()),
                        },
                        Reader::LenRust => {
                            let n = a.len();
                            if n >= len0 && n <= len0 + max_pushes { Ok(()) } else { Err(format!("len() = {n} for a list of {len0} elements with at most {max_pushes} pushes")) }
                        }
                        Reader::LenScript => {
                            let n = fns.s_len.call(a.clone()) as usize;
                            if n >= len0 && n <= len0 + max_pushes { Ok(()) } else { Err(format!("script len() = {n} for a list of {len0} elements with at most {max_pushes} pushes")) }
                        }
                        Reader::ContainsMissingRust => {
                            if a.contains(&missing) { Err("contains(value never inserted) returned true".into()) } else { Ok(()) }
                        }
                        Reader::ToVecRust => {
                            let v = a.to_vec();
                            // every element of the snapshot is one that was in the list at some point
                            for x in &v {
                                x.0.touch("element of to_vec()");
                            }
                            let swaps_only = matches!(cfg_mutator, Mutator::TwoSwappers | Mutator::SwapEnds | Mutator::SwapScript);
                            let mut tags: Vec<i64> = v.iter().map(|x| x.0.tag).collect();
                            tags.sort();
                            let mut want: Vec<i64> = (0..len0).map(|i| (i.min(cfg_n - 1)) as i64).collect();
                            want.sort();
                            if swaps_only && tags != want {
                                Err(format!("to_vec() during swaps holds tags {tags:?}: not a state the list was ever in (its elements are always a permutation of {want:?})"))
                            } else if v.len() >= len0 && v.len() <= len0 + max_pushes {
                                Ok(())
                            } else {
                                Err(format!("to_vec() has {} elements for a list of {len0} elements with at most {max_pushes} pushes", v.len()))
                            }
                        }
                        Reader::IntoIterRust => {
                            let mut n = 0usize;
                            for x in a.clone() {
                                x.0.touch("element from into_iter()");
                                n += 1;
                            }
                            if n >= len0 && n <= len0 + max_pushes { Ok(()) } else { Err(format!("iterating the list gave {n} elements for a list of {len0} elements with at most {max_pushes} pushes")) }
                        }
                        Reader::GetThenLen => {
                            let mut res = Ok(());
                            'outer: for _ in 0..40 {
                                let n = a.len();
                                if n > 0 && a.get(n - 1).is_none() {
                                    res = Err(format!("len() = {n}, then get({}) = None although nothing is ever removed", n - 1));
                                    break;
                                }
                                for k in len0..len0 + max_pushes {
                                    if let Some(x) = a.get(k) {
                                        x.0.touch("element returned by get");
                                        let n = a.len();
                                        if n <= k {
                                            res = Err(format!("get({k}) = Some(..), then len() = {n}"));
                                            break 'outer;
                                        }
                                        if a.is_empty() {
                                            res = Err(format!("get({k}) = Some(..), then is_empty()"));
                                            break 'outer;
                                        }
                                    } else {
                                        break;
                                    }
                                }
                            }
                            res
                        }
                        Reader::IsEmptyRust => {
                            if a.is_empty() && len0 > 0 { Err("is_empty() on a non-empty list".into()) } else { Ok(()) }
                        }
                        Reader::ConcatAB | Reader::ConcatBA => {
                            let r = if r == Reader::ConcatAB { a.concat(&b) } else { b.concat(&a) };
                            // every element of the result was in one of the lists at one moment
                            let n = r.len();
                            for x in r.to_vec().iter() {
                                x.0.touch("element of a concatenation");
                            }
                            if n >= len0 + blen0 && n <= len0 + blen0 + max_pushes { Ok(()) } else { Err(format!("the concatenation has {n} elements for lists of {len0} (+ at most {max_pushes} pushes) and {blen0} elements")) }
                        }
                        Reader::ConcatScript => {
                            let n = fns.s_concat_len.call(a.clone(), b.clone()) as usize;
                            if n >= len0 + blen0 && n <= len0 + blen0 + max_pushes { Ok(()) } else { Err(format!("script a + b has {n} elements for lists of {len0} (+ at most {max_pushes} pushes) and {blen0} elements")) }
                        }
                        Reader::GetRustLast | Reader::GetRustFirst => {
                            let i = if r == Reader::GetRustLast { len0 - 1 } else { 0 };
                            match a.get(i) {
                                Some(x) => {
                                    x.0.touch("element returned by get");
                                    Ok(())
                                }
                                None => Err(format!("get({i}) on a list of at least {len0} elements returned None")),
                            }
                        }
                        Reader::GetScriptLast => match fns.s_get.call(a.clone(), (len0 - 1) as u64) {
                            Some(x) => {
                                x.0.touch("element returned by script get");
                                Ok(())
                            }
                            None => Err(format!("script get({}) on a list of at least {len0} elements returned None", len0 - 1)),
                        },
                    };
                    res.map(|_| (st, t0.elapsed().as_nanos())).map_err(|e| format!("{r:?}: {e}"))
                }));
            }
            for h in hs {
                match h.join() {
                    Ok(Ok(sp)) => spans.push(sp),
                    Ok(Err(e)) => errs.push(e),
                    Err(_) => errs.push("a thread panicked".into()),
                }
            }
        });
        crate::worker::take_panic();
        if spans.iter().enumerate().any(|(i, x)| spans.iter().enumerate().any(|(j, y)| i != j && x.0 < y.1 && y.0 < x.1)) {
            overlapped_rounds += 1;
        }
        // final state of a: the original elements (ends possibly swapped) followed by the pushed ones
        let pushes = match cfg.mutator {
            Mutator::PushRust | Mutator::PushScript => 1,
            Mutator::PushTwice | Mutator::TwoPushers => 2,
            Mutator::PushBurst => 60,
            _ => 0,
        };
        if errs.is_empty() && a.capacity() < a.len() {
            errs.push(format!("after the round len() = {} exceeds capacity() = {}", a.len(), a.capacity()));
        }
        if errs.is_empty() {
            // the elements are a permutation of the original ones followed by the pushed ones
            let mut tags: Vec<i64> = (0..a.len()).filter_map(|i| a.get(i)).map(|x| { x.0.touch("element after the round"); x.0.tag }).collect();
            let mut want: Vec<i64> = (0..len0).map(|i| (i.min(cfg.n - 1)) as i64).collect();
            match cfg.mutator {
                Mutator::PushRust | Mutator::PushScript => want.push(5000),
                Mutator::PushTwice => want.extend([5000, 5001]),
                Mutator::TwoPushers => want.extend([5000, 5000]),
                Mutator::PushBurst => want.extend(std::iter::repeat(5000).take(60)),
                _ => {}
            }
            tags.sort();
            want.sort();
            if tags != want {
                errs.push(format!("after the round the list holds tags {:?}, expected a permutation of {:?}", &tags[..tags.len().min(12)], &want[..want.len().min(12)]));
            }
        }
        if errs.is_empty() && a.len() != len0 + pushes {
            errs.push(format!("after the round the list has {} elements, expected {}", a.len(), len0 + pushes));
        }
        if errs.is_empty() && b.len() != blen0 {
            errs.push(format!("the untouched list b has {} elements, expected {blen0}", b.len()));
        }
        drop(a);
        drop(b);
        let anomalies = host::anomalies();
        if !anomalies.is_empty() {
            fail = Some((format!("stress:{}", crate::props::prog::anomaly_kind(&anomalies[0])), format!("round {round}: {}\n{text}", anomalies[..anomalies.len().min(4)].join("\n"))));
            break;
        }
        if let Some(e) = errs.first() {
            fail = Some(("stress:wrong-result".into(), format!("round {round}: {e}\n{text}")));
            break;
        }
    }
    host::set_eq_spin(0);
    host::set_clone_spin(0);
    if let Some((sig, msg)) = fail {
        host::reset(vec![]);
        let mut f = Outcome::fail(sig, msg);
        f.render = Some(text);
        return f;
    }
    let (live1, _) = host::live_count();
    if live1 != live0 {
        let mut f = Outcome::fail("stress:tracked-balance", format!("tracked elements live before {live0}, after all lists were dropped {live1}\n{text}"));
        f.render = Some(text);
        return f;
    }
    let mut o = Outcome::pass();
    o.evals = (cfg.rounds * (1 + cfg.readers.len())) as u64;
    o.nontrivial = overlapped_rounds > 0;
    o.classes.push("engine:free-running".into());
    if overlapped_rounds > 0 {
        o.classes.push("free-running:overlapped".into());
    }
    o.classes.push(format!("free-running:mutator:{:?}", cfg.mutator));
    o.hash = fnv(format!("{text}{:?}", ctl).as_bytes());
    if render {
        o.render = Some(text);
    }
    o
}
