//! C10 — Well-typed scripts and built-ins cannot kill the host process.
//!
//! Part (a): operator x type x operand grid (exhaustive over the boundary set,
//! plus random operands).  The oracle is survival of the worker process.

use crate::core::*;
use crate::grid::{self, GOp, Grid, STy};
use crate::ast::BinOp;

pub struct C10P;
pub static C10: C10P = C10P;

struct W {
    grid: Grid,
    excl_div0: bool,
    excl_minneg1: bool,
    builtins: crate::props::c17::BuiltinWorker,
}

impl WorkerState for W {
    fn run(&mut self, case: &Case, render: bool) -> Outcome {
        // part (b): the built-in catalogue, survival only
        if let Some(b) = case.get(1) {
            if b.first().map(|x| x % 2 == 0).unwrap_or(false) {
                let sub: Case = vec![b[1..].to_vec()];
                let mut o = self.builtins.run_case(&sub, render);
                o.classes.push("part:built-ins".into());
                return o;
            }
        }
        let Some(chunk) = case.first() else { return Outcome::discard("empty case") };
        let Some((op, ty, a, b)) = grid::decode_case(chunk) else {
            return Outcome::discard("operator not applicable to type");
        };
        let exp = grid::expected(op, ty, a, b);
        let mut o = Outcome::pass();
        let is_divlike = matches!(op, GOp::Bin(BinOp::Div | BinOp::Rem) | GOp::Compound(BinOp::Div | BinOp::Rem));
        if let (true, STy::Int(t)) = (is_divlike, ty) {
            let bv = t.wrap(b as i128);
            let av = t.wrap(a as i128);
            if bv == 0 && self.excl_div0 {
                o.evals = 0;
                o.excluded.push(("C10-F1".into(), 1));
                return o;
            }
            let is_div = matches!(op, GOp::Bin(BinOp::Div) | GOp::Compound(BinOp::Div));
            if t.signed() && av == t.min_val() && bv == -1 && is_div && self.excl_minneg1 {
                o.evals = 0;
                o.excluded.push(("C10-F2".into(), 1));
                return o;
            }
        }
        if render {
            o.render = Some(grid::describe(op, ty, a, b));
        }
        // the call itself: a trap kills this process and the driver records it
        let ctx = match (&exp, ty) {
            (Err(k), STy::Int(_)) => format!("int-{k}"),
            _ => format!("{:?}:{}", op, ty.name()),
        };
        eprintln!("C10 running: {}\n@@ctx {}", grid::describe(op, ty, a, b), ctx);
        match self.grid.run(op, ty, a, b) {
            Ok(_v) => {}
            Err(e) => return Outcome::discard(format!("grid script did not compile: {e}")),
        }
        let bset = ty.boundaries();
        o.nontrivial = bset.contains(&a) || bset.contains(&b);
        o.hash = fnv(format!("{:?}{:?}{a}{b}", op, ty).as_bytes());
        o.classes.push(format!("{:?}", op));
        o.classes.push(format!("ty:{}", ty.name()));
        if exp.is_err() {
            o.classes.push("model-predicts-trap-but-survived".into());
        }
        o
    }
}

impl Prop for C10P {
    fn id(&self) -> &'static str {
        "C10"
    }
    fn rule(&self) -> String {
        "(a) operator grid: every unary/binary/compound arithmetic and comparison operator x 8 integer + 2 float types x all pairs from a 15-value boundary set per type (exhaustive), plus random operand pairs; a case is non-trivial when at least one operand is a boundary value; distinct by (operator, type, operands). (b) the built-in catalogue of C17 (~85 functions, methods and constants of the default runtime) with the survival domain: indices 0, 1, len-1, len, len+1, u64::MAX, prefix lengths over the whole u8 range, counts 0/1/2/1000, empty and multi-byte strings. Oracle: the worker process survives the call.".into()
    }
    fn assumptions(&self) -> Vec<String> {
        vec![
            "a hardware trap, abort or panic across the FFI boundary terminates the worker process and is observed by the driver as a signal".into(),
            "documented resource limits (recursion depth, memory) are not exercised".into(),
        ]
    }
    fn cases(&self, tier: Tier) -> u32 {
        match tier {
            Tier::Quick => 300_000,
            Tier::Thorough => 10_000_000,
        }
    }
    fn shape(&self, _tier: Tier) -> CaseShape {
        CaseShape::streams(&[20, 120])
    }
    fn fixed_cases(&self, _tier: Tier) -> Vec<Case> {
        grid::enumerate().into_iter().map(|c| vec![c]).collect()
    }
    fn fixed_exhaustive(&self) -> bool {
        true
    }
    fn worker(&self, excl: &[String]) -> Box<dyn WorkerState> {
        Box::new(W {
            builtins: crate::props::c17::BuiltinWorker::new(crate::builtins::Mode::Survive, excl),
            grid: Grid::new(),
            excl_div0: excl.iter().any(|e| e == "C10-F1"),
            excl_minneg1: excl.iter().any(|e| e == "C10-F2"),
        })
    }
    fn max_discard_rate(&self) -> f64 {
        0.2
    }
}
