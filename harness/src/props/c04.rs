//! C04 — A compiled function is only obtainable under its true Rust signature.
//!
//! A macro-built catalogue of Rust function types (with run-time descriptors) is
//! queried against generated script signatures; `get_function::<F>` must succeed
//! iff the descriptors are structurally equal.  Handles are never called.

use std::net::IpAddr;

use inetnum::addr::Prefix;
use inetnum::asn::Asn;
use roto::{List, NoCtx, Package, RotoString, Runtime, Val, Verdict};

use crate::core::*;
use crate::host::{self, Tc, Tr, Tz};

#[derive(Clone, Debug, PartialEq, Eq, Hash)]
pub enum TD {
    Leaf(&'static str),
    Opt(Box<TD>),
    List(Box<TD>),
    Result(Box<TD>, Box<TD>),
    Verdict(Box<TD>, Box<TD>),
}

impl TD {
    pub fn roto(&self) -> String {
        match self {
            TD::Leaf(n) => n.to_string(),
            TD::Opt(t) => format!("Option[{}]", t.roto()),
            TD::List(t) => format!("List[{}]", t.roto()),
            TD::Result(a, b) => format!("Result[{}, {}]", a.roto(), b.roto()),
            TD::Verdict(a, b) => format!("Verdict[{}, {}]", a.roto(), b.roto()),
        }
    }
    fn size(&self) -> usize {
        match self {
            TD::Leaf(_) => 1,
            TD::Opt(t) | TD::List(t) => 1 + t.size(),
            TD::Result(a, b) | TD::Verdict(a, b) => 1 + a.size() + b.size(),
        }
    }
    /// number of differing nodes (same shape required), or None if the shapes differ
    fn diff(&self, o: &TD) -> Option<usize> {
        match (self, o) {
            (TD::Leaf(a), TD::Leaf(b)) => Some((a != b) as usize),
            (TD::Opt(a), TD::Opt(b)) | (TD::List(a), TD::List(b)) => a.diff(b),
            (TD::Result(a, b), TD::Result(c, d)) | (TD::Verdict(a, b), TD::Verdict(c, d)) => Some(a.diff(c)? + b.diff(d)?),
            _ => None,
        }
    }
}

pub trait Desc {
    fn desc() -> TD;
}

macro_rules! leaf_desc {
    ($($t:ty => $n:literal),* $(,)?) => { $( impl Desc for $t { fn desc() -> TD { TD::Leaf($n) } } )* };
}
leaf_desc!(bool => "bool", u8 => "u8", u16 => "u16", u32 => "u32", u64 => "u64", i8 => "i8", i16 => "i16", i32 => "i32", i64 => "i64",
    f32 => "f32", f64 => "f64", char => "char", () => "()", Asn => "Asn", IpAddr => "IpAddr", Prefix => "Prefix", RotoString => "String",
    Val<Tr> => "Tr", Val<Tc> => "Tc", Val<Tz> => "Tz");
impl<T: Desc> Desc for Option<T> {
    fn desc() -> TD {
        TD::Opt(Box::new(T::desc()))
    }
}
impl<T: Desc + roto::Value> Desc for List<T> {
    fn desc() -> TD {
        TD::List(Box::new(T::desc()))
    }
}
impl<A: Desc, B: Desc> Desc for Result<A, B> {
    fn desc() -> TD {
        TD::Result(Box::new(A::desc()), Box::new(B::desc()))
    }
}
impl<A: Desc, B: Desc> Desc for Verdict<A, B> {
    fn desc() -> TD {
        TD::Verdict(Box::new(A::desc()), Box::new(B::desc()))
    }
}

pub const LEAVES: [&str; 20] = [
    "bool", "u8", "u16", "u32", "u64", "i8", "i16", "i32", "i64", "f32", "f64", "char", "()", "Asn", "IpAddr", "Prefix", "String", "Tr", "Tc", "Tz",
];

pub struct Entry {
    pub params: Vec<TD>,
    pub ret: TD,
    pub rust: &'static str,
    pub probe: fn(&mut Package<NoCtx>, &str) -> Result<(), String>,
}

macro_rules! entry {
    (($($a:ty),*) -> $r:ty) => {
        Entry {
            params: vec![$(<$a as Desc>::desc()),*],
            ret: <$r as Desc>::desc(),
            rust: stringify!(fn($($a),*) -> $r),
            probe: |p, n| p.get_function::<fn($($a),*) -> $r>(n).map(|_| ()).map_err(|e| format!("{e}")),
        }
    };
}

macro_rules! for_leaves {
    ($m:ident) => {
        $m!(bool); $m!(u8); $m!(u16); $m!(u32); $m!(u64); $m!(i8); $m!(i16); $m!(i32); $m!(i64); $m!(f32); $m!(f64); $m!(char);
        $m!(()); $m!(Asn); $m!(IpAddr); $m!(Prefix); $m!(RotoString); $m!(Val<Tr>); $m!(Val<Tc>); $m!(Val<Tz>);
    };
}

pub fn catalogue() -> Vec<Entry> {
    let mut v: Vec<Entry> = Vec::new();
    macro_rules! leaf_in { ($t:ty) => { v.push(entry!(($t) -> ())); }; }
    macro_rules! leaf_out { ($t:ty) => { v.push(entry!(() -> $t)); }; }
    macro_rules! opt_in { ($t:ty) => { v.push(entry!((Option<$t>) -> ())); }; }
    macro_rules! opt_out { ($t:ty) => { v.push(entry!(() -> Option<$t>)); }; }
    macro_rules! list_in { ($t:ty) => { v.push(entry!((List<$t>) -> ())); }; }
    macro_rules! list_out { ($t:ty) => { v.push(entry!(() -> List<$t>)); }; }
    for_leaves!(leaf_in);
    for_leaves!(leaf_out);
    for_leaves!(opt_in);
    for_leaves!(opt_out);
    for_leaves!(list_in);
    for_leaves!(list_out);
    // Result / Verdict over a leaf grid
    macro_rules! rv_row { ($a:ty) => {
        v.push(entry!(() -> Result<$a, u8>)); v.push(entry!(() -> Result<$a, i64>)); v.push(entry!(() -> Result<$a, RotoString>));
        v.push(entry!(() -> Result<$a, ()>)); v.push(entry!(() -> Result<$a, Val<Tr>>));
        v.push(entry!(() -> Verdict<$a, u8>)); v.push(entry!(() -> Verdict<$a, i64>)); v.push(entry!(() -> Verdict<$a, RotoString>));
        v.push(entry!(() -> Verdict<$a, ()>)); v.push(entry!(() -> Verdict<$a, Val<Tr>>));
        v.push(entry!((Result<$a, u8>) -> ())); v.push(entry!((Verdict<$a, ()>) -> ()));
    }; }
    rv_row!(u8);
    rv_row!(i64);
    rv_row!(RotoString);
    rv_row!(());
    rv_row!(Val<Tr>);
    rv_row!(u32);
    // deeper nestings
    v.push(entry!(() -> Option<Option<u8>>));
    v.push(entry!(() -> List<Option<u32>>));
    v.push(entry!(() -> Option<List<u32>>));
    v.push(entry!(() -> List<List<RotoString>>));
    v.push(entry!(() -> Result<Option<u8>, List<i64>>));
    v.push(entry!(() -> Result<List<i64>, Option<u8>>));
    v.push(entry!(() -> Verdict<List<RotoString>, Option<Prefix>>));
    v.push(entry!(() -> Verdict<Option<Prefix>, List<RotoString>>));
    v.push(entry!(() -> Option<Result<u8, u16>>));
    v.push(entry!(() -> Option<Verdict<u8, u16>>));
    v.push(entry!(() -> List<Result<Val<Tr>, ()>>));
    v.push(entry!((Option<Option<u8>>) -> ()));
    v.push(entry!((List<Option<u32>>, Option<List<u32>>) -> Option<List<Option<u32>>>));
    v.push(entry!((Option<List<Option<i8>>>) -> List<Option<List<i8>>>));
    v.push(entry!((Result<Result<u8, u8>, u8>) -> Result<u8, Result<u8, u8>>));
    v.push(entry!((Verdict<Verdict<u8, ()>, ()>) -> Verdict<(), Verdict<(), u8>>));
    // arity 2 over a small leaf set
    macro_rules! pair_row { ($a:ty) => {
        v.push(entry!(($a, u32) -> ())); v.push(entry!(($a, i32) -> ())); v.push(entry!(($a, RotoString) -> ()));
        v.push(entry!(($a, bool) -> ())); v.push(entry!(($a, Val<Tc>) -> ()));
    }; }
    pair_row!(u32);
    pair_row!(i32);
    pair_row!(RotoString);
    pair_row!(bool);
    pair_row!(Val<Tc>);
    // arities 3..7: all i32 except one position
    v.push(entry!((i32, i32, i32) -> i32));
    v.push(entry!((u8, i32, i32) -> i32));
    v.push(entry!((i32, u8, i32) -> i32));
    v.push(entry!((i32, i32, u8) -> i32));
    v.push(entry!((i32, i32, i32, i32) -> i32));
    v.push(entry!((i32, i32, i32, i64) -> i32));
    v.push(entry!((i32, i32, i32, i32, i32) -> i32));
    v.push(entry!((i32, i32, u32, i32, i32) -> i32));
    v.push(entry!((i32, i32, i32, i32, i32, i32) -> i32));
    v.push(entry!((i32, i32, i32, i32, i32, RotoString) -> i32));
    v.push(entry!((i32, i32, i32, i32, i32, i32, i32) -> i32));
    v.push(entry!((bool, i32, i32, i32, i32, i32, i32) -> i32));
    v.push(entry!((i32, i32, i32, i32, i32, i32, i32) -> u32));
    v.push(entry!((i32, i32) -> i32));
    v.push(entry!((i32) -> i32));
    v.push(entry!(() -> i32));
    // filtermap payloads fixed only by an unsuffixed literal, and their neighbours
    v.push(entry!(() -> Verdict<f64, ()>));
    v.push(entry!(() -> Verdict<f32, ()>));
    v.push(entry!(() -> Verdict<i32, ()>));
    v.push(entry!(() -> Verdict<i64, ()>));
    v.push(entry!(() -> Verdict<u32, ()>));
    v.push(entry!(() -> Verdict<List<f64>, Option<i32>>));
    v.push(entry!(() -> Verdict<List<f32>, Option<i32>>));
    v.push(entry!(() -> Verdict<List<f64>, Option<i64>>));
    // what a script-declared `List` / `Result` / `Verdict` could be mistaken for
    v.push(entry!((List<i32>) -> i32));
    v.push(entry!((Result<i32, i32>) -> i32));
    v.push(entry!((Verdict<i32, i32>) -> i32));
    v
}

struct W {
    rt: Runtime<NoCtx>,
    cat: Vec<Entry>,
    /// known finding C04-F1: a caller whose context fixes the side a filtermap never uses
    excl_pin: bool,
    excluded_pins: std::cell::Cell<u64>,
}

#[derive(Clone, Debug)]
struct ScriptFn {
    name: String,
    filtermap: bool,
    params: Vec<TD>,
    /// the descriptor Rust must use for the return type
    ret: TD,
    text: String,
    /// a filtermap with an unused side that a caller uses at a concrete type
    pinned: bool,
}

fn leaf(c: &mut Choices) -> TD {
    TD::Leaf(LEAVES[c.below(LEAVES.len())])
}

fn random_td(c: &mut Choices, depth: u32) -> TD {
    if depth == 0 {
        return leaf(c);
    }
    match c.below(8) {
        0 => TD::Opt(Box::new(random_td(c, depth - 1))),
        1 => TD::List(Box::new(random_td(c, depth - 1))),
        2 => TD::Result(Box::new(random_td(c, depth - 1)), Box::new(random_td(c, depth - 1))),
        3 => TD::Verdict(Box::new(random_td(c, depth - 1)), Box::new(random_td(c, depth - 1))),
        _ => leaf(c),
    }
}

/// one-step near miss of a descriptor
fn near_miss(t: &TD, c: &mut Choices) -> TD {
    match t {
        TD::Leaf(n) => {
            let other = match *n {
                "u8" => "i8",
                "i8" => "u8",
                "u16" => "u32",
                "u32" => "i32",
                "i32" => "u32",
                "u64" => "i64",
                "i64" => "u64",
                "f32" => "f64",
                "f64" => "f32",
                "Tr" => "Tc",
                "Tc" => "Tz",
                "Tz" => "Tr",
                "String" => "char",
                "char" => "u32",
                "bool" => "u8",
                "()" => "bool",
                "Asn" => "u32",
                "IpAddr" => "Prefix",
                "Prefix" => "IpAddr",
                _ => "i32",
            };
            if c.chance(60) { TD::Opt(Box::new(t.clone())) } else { TD::Leaf(other) }
        }
        TD::Opt(i) => match c.below(3) {
            0 => (**i).clone(),
            1 => TD::List(i.clone()),
            _ => match &**i {
                TD::List(x) => TD::List(Box::new(TD::Opt(x.clone()))),
                _ => TD::Opt(Box::new(near_miss(i, c))),
            },
        },
        TD::List(i) => match c.below(3) {
            0 => TD::Opt(i.clone()),
            1 => match &**i {
                TD::Opt(x) => TD::Opt(Box::new(TD::List(x.clone()))),
                _ => TD::List(Box::new(near_miss(i, c))),
            },
            _ => TD::List(Box::new(near_miss(i, c))),
        },
        TD::Result(a, b) => match c.below(4) {
            0 => TD::Result(b.clone(), a.clone()),
            1 => TD::Verdict(a.clone(), b.clone()),
            2 => TD::Result(Box::new(near_miss(a, c)), b.clone()),
            _ => TD::Result(a.clone(), Box::new(near_miss(b, c))),
        },
        TD::Verdict(a, b) => match c.below(4) {
            0 => TD::Verdict(b.clone(), a.clone()),
            1 => TD::Result(a.clone(), b.clone()),
            2 => TD::Verdict(Box::new(near_miss(a, c)), b.clone()),
            _ => TD::Verdict(a.clone(), Box::new(near_miss(b, c))),
        },
    }
}

impl W {
    fn script_fns(&self, ctl: &[u8]) -> Vec<ScriptFn> {
        let mut c = Choices::new(ctl);
        let n = 3 + c.below(5);
        let mut out = Vec::new();
        for i in 0..n {
            // (names that start like the package prefix or like compiler-made names are ordinary names)
            let name = format!("{}{i}", ["f", "f", "pkg", "pkg_", "pkgs", "generated", "test_", "Pkg", "ｆ", "drop_", "clone_"][c.below(11)]);
            let kind = c.below(10);
            let mut pin: Option<(Vec<String>, Vec<TD>, bool)> = None;
            // signature: derived from a catalogue entry (exact or near miss) or random
            let (mut params, mut ret) = if kind < 7 {
                let e = &self.cat[c.below(self.cat.len())];
                (e.params.clone(), e.ret.clone())
            } else {
                let arity = c.below(8);
                ((0..arity).map(|_| random_td(&mut c, 2)).collect(), random_td(&mut c, 3))
            };
            if (3..7).contains(&kind) {
                // one-step near miss
                match c.below(5) {
                    0 if !params.is_empty() => {
                        let k = c.below(params.len());
                        params[k] = near_miss(&params[k], &mut c);
                    }
                    1 => ret = near_miss(&ret, &mut c),
                    2 if params.len() < 7 => params.push(TD::Leaf("i32")),
                    3 if !params.is_empty() => {
                        params.pop();
                    }
                    4 if params.len() >= 2 => {
                        let l = params.len();
                        params.swap(0, l - 1);
                    }
                    _ => ret = near_miss(&ret, &mut c),
                }
            }
            let filtermap = matches!(ret, TD::Verdict(..)) && c.chance(128);
            let plist: Vec<String> = params.iter().enumerate().map(|(k, t)| format!("a{k}: {}", t.roto())).collect();
            let args: Vec<String> = (0..params.len()).map(|k| format!("a{k}")).collect();
            let text = if filtermap {
                // a filtermap's Rust type is the Verdict of its accept / reject payloads, () for an unused side
                let TD::Verdict(a, r) = &ret else { unreachable!() };
                let style = c.below(10);
                let mut ps = plist.clone();
                let (body, rd) = match style {
                    0 => {
                        ps.push(format!("xa: {}", a.roto()));
                        ps.push(format!("xr: {}", r.roto()));
                        ("if true { accept xa } else { reject xr }".to_string(), ret.clone())
                    }
                    1 => {
                        ps.push(format!("xa: {}", a.roto()));
                        ("accept xa".to_string(), TD::Verdict(a.clone(), Box::new(TD::Leaf("()"))))
                    }
                    2 => {
                        ps.push(format!("xr: {}", r.roto()));
                        ("reject xr".to_string(), TD::Verdict(Box::new(TD::Leaf("()")), r.clone()))
                    }
                    3 => ("if true { accept } else { reject }".to_string(), TD::Verdict(Box::new(TD::Leaf("()")), Box::new(TD::Leaf("()")))),
                    4 => {
                        // neither side is ever used: the body only calls itself
                        (format!("{name}({})", args.join(", ")), TD::Verdict(Box::new(TD::Leaf("()")), Box::new(TD::Leaf("()"))))
                    }
                    6 => ("accept 1.5".to_string(), TD::Verdict(Box::new(TD::Leaf("f64")), Box::new(TD::Leaf("()")))),
                    7 => ("if true { accept 1 } else { reject }".to_string(), TD::Verdict(Box::new(TD::Leaf("i32")), Box::new(TD::Leaf("()")))),
                    8 => (
                        "if true { accept [1.5, 2.5] } else { reject Option.Some(2) }".to_string(),
                        TD::Verdict(Box::new(TD::List(Box::new(TD::Leaf("f64")))), Box::new(TD::Opt(Box::new(TD::Leaf("i32"))))),
                    ),
                    9 => {
                        // no parameters, a payload of a catalogue leaf: the catalogue has this signature with
                        // (), u8 and String on the other side, so a caller that pins the unused side is visible
                        let (lit, leaf) = [("7u8", "u8"), ("7i64", "i64"), ("\"s\"", "String"), ("7u32", "u32")][c.below(4)];
                        (format!("accept {lit}"), TD::Verdict(Box::new(TD::Leaf(leaf)), Box::new(TD::Leaf("()"))))
                    }
                    _ => {
                        // one side used, the other only reached through the recursive call
                        ps.push(format!("xa: {}", a.roto()));
                        let mut call_args = args.clone();
                        call_args.push("xa".into());
                        (format!("if true {{ accept xa }} else {{ {name}({}) }}", call_args.join(", ")), TD::Verdict(a.clone(), Box::new(TD::Leaf("()"))))
                    }
                };
                // the extra payload parameters are part of the signature
                let mut full_params = if style >= 6 && style <= 9 { Vec::new() } else { params.clone() };
                if style >= 6 && style <= 9 {
                    ps.clear();
                }
                match style {
                    0 => {
                        full_params.push((**a).clone());
                        full_params.push((**r).clone());
                    }
                    1 | 5 => full_params.push((**a).clone()),
                    2 => full_params.push((**r).clone()),
                    _ => {}
                }
                if full_params.len() > 7 {
                    continue;
                }
                params = full_params;
                ret = rd;
                // a caller whose own return type names a concrete type for the side the filtermap never
                // uses; the filtermap's own Rust type still has () there
                if (matches!(style, 1 | 2 | 5) && params.len() <= 7 && c.chance(70)) || (style == 9 && c.chance(128)) {
                    pin = Some((ps.clone(), params.clone(), style == 2));
                }
                format!("filtermap {name}({}) {{\n    {body}\n}}\n", ps.join(", "))
            } else if ret == TD::Leaf("()") {
                format!("fn {name}({}) {{\n}}\n", plist.join(", "))
            } else {
                // the body calls itself: well-typed for every return type, never executed
                format!("fn {name}({}) -> {} {{\n    {name}({})\n}}\n", plist.join(", "), ret.roto(), args.join(", "))
            };
            let mut pinned = false;
            if let Some((ps, pparams, accept_unused)) = pin {
                if self.excl_pin {
                    self.excluded_pins.set(self.excluded_pins.get() + 1);
                } else {
                    pinned = true;
                    let TD::Verdict(a, r) = &ret else { unreachable!() };
                    let other = TD::Leaf(["String", "u8", "IpAddr"][c.below(3)]);
                    let other = if other == *a.as_ref() || other == *r.as_ref() { TD::Leaf("i64") } else { other };
                    let pret = if accept_unused { TD::Verdict(Box::new(other), r.clone()) } else { TD::Verdict(a.clone(), Box::new(other)) };
                    let names: Vec<String> = ps.iter().map(|p| p.split(':').next().unwrap().to_string()).collect();
                    let ptext = format!("fn {name}_pin({}) -> {} {{\n    {name}({})\n}}\n", ps.join(", "), pret.roto(), names.join(", "));
                    out.push(ScriptFn { name: format!("{name}_pin"), filtermap: false, params: pparams, ret: pret, text: ptext, pinned: false });
                }
            }
            out.push(ScriptFn { name, filtermap, params, ret, text, pinned });
        }
        // a script-declared type named like a built-in type constructor: no Rust type describes it
        let all: String = out.iter().map(|f| f.text.clone()).collect();
        if c.chance(50) {
            let (decl, user, text_ty) = match c.below(3) {
                0 => ("record List[T] { v: T }", "@script-declared List", "List[i32]"),
                1 => ("record Result[A, B] { a: A, b: B }", "@script-declared Result", "Result[i32, i32]"),
                _ => ("enum Verdict[A, B] { Accept(A), Reject(B) }", "@script-declared Verdict", "Verdict[i32, i32]"),
            };
            let ctor = decl.split(|ch| ch == ' ' || ch == '[').nth(1).unwrap_or("List");
            if !all.contains(&format!("{ctor}[")) && (ctor != "Verdict" || !all.contains("filtermap")) {
                out.push(ScriptFn {
                    name: "shadowed".into(),
                    filtermap: false,
                    params: vec![TD::Leaf(user)],
                    ret: TD::Leaf("i32"),
                    text: format!("{decl}\nfn shadowed(x: {text_ty}) -> i32 {{\n    0\n}}\n"),
                    pinned: false,
                });
            }
        }
        out
    }
}

impl WorkerState for W {
    fn render_only(&mut self, case: &Case) -> String {
        let empty: Vec<u8> = Vec::new();
        self.script_fns(case.first().unwrap_or(&empty)).iter().map(|f| f.text.clone()).collect()
    }

    fn run(&mut self, case: &Case, render: bool) -> Outcome {
        if case.first().map(|c| c.as_slice()) == Some(b"#!pinned") {
            // literal case: a filtermap that never rejects, called by a function whose return type names a
            // reject payload; the filtermap is still `fn(i32) -> Verdict<i32, ()>` for Rust
            let src = "filtermap fm(x: i32) {\n    accept x\n}\nfn g() -> Verdict[i32, String] {\n    fm(1)\n}\n";
            let mut pkg = match host::compile(&self.rt, src) {
                Ok(p) => p,
                Err(e) if e.starts_with("Error: Type error") => {
                    // the caller is refused: it uses the reject side at a type the filtermap does not have
                    let mut o = Outcome::pass();
                    o.nontrivial = true;
                    o.classes.push("pinning-caller-refused".into());
                    o.render = Some(src.to_string());
                    return o;
                }
                Err(e) => return Outcome::fail("literal:rejected", e),
            };
            let unit = pkg.get_function::<fn(i32) -> roto::Verdict<i32, ()>>("fm").is_ok();
            let string = pkg.get_function::<fn(i32) -> roto::Verdict<i32, roto::RotoString>>("fm").is_ok();
            let mut o = Outcome::pass();
            o.nontrivial = true;
            o.render = Some(src.to_string());
            if !unit || string {
                let kind = if !unit { "refused-true-signature" } else { "accepted-wrong-signature" };
                return Outcome::fail(format!("{kind}:filtermap:pinned-by-caller"), format!("get_function::<fn(i32) -> Verdict<i32, ()>>(\"fm\") {}, get_function::<fn(i32) -> Verdict<i32, RotoString>>(\"fm\") {}; the filtermap never rejects, so its reject side is ()\n{src}", if unit { "succeeded" } else { "failed" }, if string { "succeeded" } else { "failed" }));
            }
            return o;
        }
        let empty: Vec<u8> = Vec::new();
        let fns = self.script_fns(case.first().unwrap_or(&empty));
        let excluded_pins = self.excluded_pins.replace(0);
        let mut src: String = fns.iter().map(|f| f.text.clone()).collect();
        // one case in three: a child module `m1` holding renamed copies of up to two of the functions, and
        // test blocks in both modules.  A function is retrievable by its module path only (the root does not
        // declare the name), a test block under no other type than a test's own.
        let ctl0 = case.first().unwrap_or(&empty);
        let with_sub = ctl0.len() > 4 && ctl0[ctl0.len() / 2] % 3 == 0;
        let mut sub_fns: Vec<ScriptFn> = Vec::new();
        let mut sub_src = String::new();
        if with_sub {
            for f in fns.iter().filter(|f| !f.pinned && !f.name.ends_with("_pin") && f.name != "shadowed").take(2) {
                let new_name = format!("sub_{}", f.name);
                let text = f.text.replace(&format!("{}(", f.name), &format!("{new_name}("));
                sub_src.push_str(&text);
                sub_fns.push(ScriptFn { name: new_name, filtermap: f.filtermap, params: f.params.clone(), ret: f.ret.clone(), text, pinned: false });
            }
            sub_src.push_str("test t_b {\n    reject\n}\n");
            src.push_str("test t_a {\n    accept\n}\n");
        }
        let compiled = if with_sub {
            crate::props::c06::build_tree(&[("pkg".to_string(), src.clone()), ("m1".to_string(), sub_src.clone())]).compile(&self.rt).map_err(|e| host::render_report(&e))
        } else {
            host::compile(&self.rt, &src)
        };
        if with_sub {
            src = format!("{src}=== m1.roto ===\n{sub_src}");
        }
        let mut pkg = match compiled {
            Ok(p) => p,
            Err(e) if fns.iter().any(|f| f.pinned) && e.starts_with("Error: Type error") => {
                // a caller that uses a filtermap's unused side at a concrete type is ill-typed (the side is ());
                // refusing the script is the other way of keeping the filtermap's type what the property says
                let mut o = Outcome::pass();
                o.nontrivial = true;
                o.classes.push("pinning-caller-refused".into());
                o.hash = fnv(src.as_bytes());
                return o;
            }
            Err(e) => return Outcome::discard(format!("generated signatures rejected by the compiler:\n{e}\n--- source ---\n{src}")),
        };
        let mut o = Outcome::pass();
        o.evals = 0;
        if excluded_pins > 0 {
            o.excluded.push(("C04-F1".into(), excluded_pins));
        }
        if fns.iter().any(|f| f.pinned) {
            o.classes.push("filtermap-side-pinned-by-caller".into());
        }
        let mut near = 0u64;
        let mut exact = 0u64;
        for f in &fns {
            for e in &self.cat {
                let should = e.params == f.params && e.ret == f.ret;
                let got = (e.probe)(&mut pkg, &f.name);
                o.evals += 1;
                if should {
                    exact += 1;
                } else if e.params.len() == f.params.len() {
                    let d: Option<usize> = e.params.iter().zip(&f.params).map(|(a, b)| a.diff(b)).chain(std::iter::once(e.ret.diff(&f.ret))).sum();
                    if d == Some(1) {
                        near += 1;
                    }
                } else if e.params.len().abs_diff(f.params.len()) == 1 {
                    near += 1;
                }
                if got.is_ok() != should {
                    let kind = if should { "refused-true-signature" } else { "accepted-wrong-signature" };
                    let mut fail = Outcome::fail(
                        format!("{kind}:{}{}", if f.filtermap { "filtermap" } else { "fn" }, if f.pinned { ":pinned-by-caller" } else { "" }),
                        format!(
                            "get_function::<{}>(\"{}\") {} but the script declares\n{}\nexpected Rust signature: fn({}) -> {}\n{}\n--- source ---\n{src}",
                            e.rust,
                            f.name,
                            if got.is_ok() { "succeeded" } else { "failed" },
                            f.text,
                            f.params.iter().map(|t| t.roto()).collect::<Vec<_>>().join(", "),
                            f.ret.roto(),
                            got.err().unwrap_or_default()
                        ),
                    );
                    fail.render = Some(src);
                    return fail;
                }
            }
        }
        // functions of the child module: by module path under their own type only, never by their bare name
        let unit_verdict = TD::Verdict(Box::new(TD::Leaf("()")), Box::new(TD::Leaf("()")));
        for f in &sub_fns {
            o.classes.push("function-in-a-child-module".into());
            for e in &self.cat {
                let should = e.params == f.params && e.ret == f.ret;
                for (name, want) in [(format!("m1.{}", f.name), should), (f.name.clone(), false), (format!("pkg.{}", f.name), false)] {
                    let got = (e.probe)(&mut pkg, &name);
                    o.evals += 1;
                    if got.is_ok() != want {
                        let kind = if want { "refused-true-signature" } else { "accepted-wrong-signature" };
                        let mut fail = Outcome::fail(format!("{kind}:child-module"), format!("get_function::<{}>(\"{name}\") {} but module m1 declares\n{}\n--- source ---\n{src}", e.rust, if got.is_ok() { "succeeded" } else { "failed" }, f.text));
                        fail.render = Some(src);
                        return fail;
                    }
                }
            }
        }
        if with_sub {
            o.classes.push("test-blocks-requested-as-functions".into());
            for e in &self.cat {
                if e.params.is_empty() && e.ret == unit_verdict {
                    // a test's own type: whether a test is retrievable at all is not something the property fixes
                    continue;
                }
                for name in ["test#t_a", "pkg.test#t_a", "m1.test#t_b", "pkg.m1.test#t_b", "t_a", "m1.t_b", "test#t_b"] {
                    o.evals += 1;
                    if (e.probe)(&mut pkg, name).is_ok() {
                        let mut fail = Outcome::fail("accepted-wrong-signature:test-block", format!("get_function::<{}>(\"{name}\") succeeded: a test block was handed out as a function of that type\n--- source ---\n{src}", e.rust));
                        fail.render = Some(src);
                        return fail;
                    }
                }
            }
        }
        // unknown names and whatever else the package lists besides our functions
        let listing = match pkg.get_function::<fn()>("no_such_function") {
            Ok(_) => return Outcome::fail("accepted-unknown-name", format!("get_function(\"no_such_function\") succeeded\n{src}")),
            Err(e) => format!("{e}"),
        };
        for line in listing.lines() {
            if let Some(name) = line.trim().strip_prefix("- ") {
                let name = name.trim();
                let short = name.strip_prefix("pkg.").unwrap_or(name);
                if fns.iter().any(|f| f.name == short) {
                    continue;
                }
                o.evals += 1;
                o.classes.push("probe:listed-non-user-function".into());
                if pkg.get_function::<fn()>(name).is_ok() {
                    return Outcome::fail("accepted-generated-helper", format!("get_function::<fn()>(\"{name}\") succeeded for a function the script does not define\n{src}"));
                }
            }
        }
        for helper in ["::generated::drop_0", "::generated::clone_0", "::generated::eq_0", "test#x", "pkg.test#x", ""] {
            o.evals += 1;
            if pkg.get_function::<fn()>(helper).is_ok() {
                return Outcome::fail("accepted-generated-helper", format!("get_function::<fn()>(\"{helper}\") succeeded\n{src}"));
            }
        }
        o.nontrivial = exact + near > 0;
        o.classes.push(format!("exact-matches:{}", exact.min(5)));
        if fns.iter().any(|f| f.filtermap) {
            o.classes.push("has-filtermap".into());
        }
        if fns.iter().any(|f| f.params.len() >= 5) {
            o.classes.push("arity>=5".into());
        }
        o.hash = fnv(src.as_bytes());
        let _ = TD::size;
        if render {
            o.render = Some(format!("{src}// {} catalogue requests per function, {exact} exact matches, {near} one-step near misses", self.cat.len()));
        }
        o
    }
}

impl Prop for C04P {
    fn id(&self) -> &'static str {
        "C04"
    }
    fn rule(&self) -> String {
        "scripts with 3-7 functions/filtermaps whose signatures are catalogue entries, one-step near misses of them (width/signedness/registered type changed, Option<->List, Result<->Verdict, arguments swapped, parameter added/removed/permuted) or random types (20 leaves, nesting <= 3, arity 0..7); every function is requested under every Rust function type of a macro-built catalogue (~260 types); oracle: get_function succeeds iff parameter and return descriptors are structurally equal (filtermaps: Verdict of the payload types, () for an unused side, f64 / i32 for payloads fixed only by an unsuffixed literal; a script-declared record or enum named List, Result or Verdict matches no Rust type); unknown, listed-but-not-user and generated-helper names must be refused. Non-trivial: the script has at least one exact match or one-step near miss with a catalogue type; distinct by script text".into()
    }
    fn assumptions(&self) -> Vec<String> {
        vec![
            "the Rust side is a finite catalogue (cross product sampled), the script side ranges over the full grammar".into(),
            "handles are never called".into(),
        ]
    }
    fn cases(&self, tier: Tier) -> u32 {
        match tier {
            Tier::Quick => 20_000,
            Tier::Thorough => 400_000,
        }
    }
    fn shape(&self, _tier: Tier) -> CaseShape {
        CaseShape::streams(&[160])
    }
    fn worker(&self, excl: &[String]) -> Box<dyn WorkerState> {
        Box::new(W { rt: host::build_runtime(), cat: catalogue(), excl_pin: excl.iter().any(|e| e == "C04-F1"), excluded_pins: std::cell::Cell::new(0) })
    }
}

pub struct C04P;
pub static C04: C04P = C04P;
