//! C09 — Source text means what the documented grammar says.
//!
//! Five sub-checks, chosen by the first control byte:
//!  (a) literal spellings vs an independent decoder,
//!  (b) Unicode identifiers in every naming position,
//!  (c) comments / whitespace / shebang do not change behaviour,
//!  (d) operator sequences: minimal == full parenthesisation == model; illegal
//!      chains are parse errors,
//!  (e) whole generated programs: the form without redundant parentheses and the
//!      fully parenthesised form are both accepted and both agree with the model.

use std::fmt::Write as _;
use std::net::{IpAddr, Ipv4Addr, Ipv6Addr};

use roto::{NoCtx, Runtime};

use crate::ast::*;
use crate::core::*;
use crate::host;
use crate::model::{self, Ev, Interp, Stop, V};
use crate::pgen::{Gen, Profile, SCALAR_TYS};
use crate::props::prog::{Kind, check_program_with, profile_for, run_script_case};

pub struct C09P;
pub static C09: C09P = C09P;

struct W {
    rt: Runtime<NoCtx>,
    xid_start: Vec<(u32, u32)>,
    xid_continue: Vec<(u32, u32)>,
    prof: Profile,
}

fn class_ranges(pat: &str) -> Vec<(u32, u32)> {
    let hir = regex_syntax::ParserBuilder::new().build().parse(pat).expect("class pattern");
    match hir.kind() {
        regex_syntax::hir::HirKind::Class(regex_syntax::hir::Class::Unicode(c)) => {
            c.ranges().iter().map(|r| (r.start() as u32, r.end() as u32)).collect()
        }
        _ => panic!("not a class"),
    }
}

fn pick_from(ranges: &[(u32, u32)], c: &mut Choices) -> char {
    // favour early (ASCII / Latin) ranges a little, but reach everything
    let total: u64 = ranges.iter().map(|(a, b)| (b - a + 1) as u64).sum();
    let r = if c.chance(90) { c.below(64) as u64 } else { c.u64() % total };
    let mut k = r % total;
    for (a, b) in ranges {
        let n = (b - a + 1) as u64;
        if k < n {
            return char::from_u32(a + k as u32).unwrap_or('a');
        }
        k -= n;
    }
    'a'
}

const RESERVED: &[&str] = &[
    "accept", "const", "dep", "else", "enum", "filter", "filtermap", "for", "fn", "if", "import", "in", "let", "match", "pkg", "record",
    "reject", "return", "std", "super", "test", "while", "true", "false", "_", "main", "x", "r", "AS",
];

// --------------------------------------------------------------------------- (a) literals

struct LitCase {
    /// statement text emitting the literal
    stmt: String,
    expected: Ev,
    features: u32,
    /// (type name, expression text): the same literal for use in other syntactic positions
    alt: Option<(String, String)>,
}

fn underscores(digits: &str, c: &mut Choices, feats: &mut u32) -> String {
    // `_` anywhere after the first digit
    let mut o = String::new();
    for (i, ch) in digits.chars().enumerate() {
        if i > 0 && c.chance(50) {
            o.push('_');
            *feats += 1;
            if c.chance(40) {
                o.push('_');
            }
        }
        o.push(ch);
    }
    if c.chance(20) {
        o.push('_');
        *feats += 1;
    }
    o
}

fn int_literal(c: &mut Choices) -> LitCase {
    let t = INT_TYS[c.below(8)];
    let mut feats = 0;
    // value within the type's range and within i64 (the documented spelling limit)
    let hi = t.max_val().min(i64::MAX as i128);
    let v: i128 = match c.below(6) {
        0 => 0,
        1 => hi,
        2 => hi - 1,
        3 => (c.byte() as i128).min(hi),
        4 => 1000000i128.min(hi),
        _ => (c.u64() as i128) % (hi + 1),
    };
    let hex = c.chance(50);
    let (body, suffix) = if hex {
        feats += 1;
        // hex literals take no suffix: type comes from the annotation
        (format!("0x{}", if c.chance(128) { format!("{:x}", v) } else { format!("{:X}", v) }), String::new())
    } else {
        let d = underscores(&format!("{v}"), c, &mut feats);
        let s = if c.chance(128) {
            feats += 1;
            t.name().to_string()
        } else {
            String::new()
        };
        (d, s)
    };
    let text = format!("{body}{suffix}");
    // the context (annotated let) fixes the type when there is no suffix
    let stmt = format!("let q: {} = {}; out_{}(q);", t.name(), text, t.name());
    LitCase { stmt, expected: Ev::Out(V::Int(t, v)), features: feats, alt: Some((t.name().to_string(), text)) }
}

fn float_literal(c: &mut Choices) -> Option<LitCase> {
    let is32 = c.chance(100);
    let mut feats = 0;
    // build the spelling from the grammar: digits [. digits] [e[+-]digits] [suffix]
    let int_part = format!("{}", c.below(100000));
    let mut s = underscores(&int_part, c, &mut feats);
    let mut is_float = false;
    match c.below(4) {
        0 => {
            s.push('.');
            is_float = true;
        }
        1 | 2 => {
            s.push('.');
            let f = format!("{}", c.below(100000));
            s.push_str(&underscores(&f, c, &mut feats));
            is_float = true;
        }
        _ => {}
    }
    // `10.e5` is not a float spelling (a `.` directly followed by a letter is a field access)
    if !s.ends_with('.') && (c.chance(100) || !is_float && c.chance(128)) {
        s.push(if c.chance(128) { 'e' } else { 'E' });
        match c.below(3) {
            0 => s.push('+'),
            1 => s.push('-'),
            _ => {}
        }
        let _ = write!(s, "{}", c.below(if is32 { 30 } else { 300 }));
        is_float = true;
        feats += 1;
    }
    let suffix = if !is_float || c.chance(100) {
        feats += 1;
        if is32 { "f32" } else { "f64" }
    } else {
        ""
    };
    // `10.f32` would be lexed as field access on 10: the grammar only allows a suffix after digits
    if s.ends_with('.') && !suffix.is_empty() {
        s.push('0');
    }
    let text = format!("{s}{suffix}");
    let clean: String = s.chars().filter(|ch| *ch != '_').collect();
    let tname = if is32 { "f32" } else { "f64" };
    let expected = if is32 {
        let direct: f32 = clean.parse().ok()?;
        let via: f32 = clean.parse::<f64>().ok()? as f32;
        if direct.to_bits() != via.to_bits() || !direct.is_finite() {
            return None; // undocumented double-rounding corner / overflow
        }
        V::F32(direct)
    } else {
        let d: f64 = clean.parse().ok()?;
        if !d.is_finite() {
            return None;
        }
        V::F64(d)
    };
    let stmt = format!("let q: {tname} = {text}; out_{tname}(q);");
    Some(LitCase { stmt, expected: Ev::Out(expected), features: feats, alt: Some((tname.to_string(), text)) })
}

fn spell_char(ch: char, in_string: bool, c: &mut Choices, feats: &mut u32) -> String {
    let quote = if in_string { '"' } else { '\'' };
    let must_escape = ch == '\\' || ch == quote || ch == '\n' || ch == '\r' || ch == '\t' || ch == '\0' || (in_string && (ch == '{' || ch == '}') && false);
    let k = c.below(10);
    if (ch as u32) < 0x80 && (k == 0 || (must_escape && k < 3)) {
        *feats += 1;
        return format!("\\x{:02x}", ch as u32);
    }
    if k == 1 || (must_escape && k < 6 && !matches!(ch, '\n' | '\r' | '\t' | '\0' | '\\' | '"' | '\'')) {
        *feats += 1;
        let hex = format!("{:x}", ch as u32);
        let pad = c.below(7usize.saturating_sub(hex.len()).max(1));
        return format!("\\u{{{}{}}}", "0".repeat(pad.min(6 - hex.len())), hex);
    }
    match ch {
        '\n' => {
            *feats += 1;
            "\\n".into()
        }
        '\r' => {
            *feats += 1;
            "\\r".into()
        }
        '\t' => {
            *feats += 1;
            "\\t".into()
        }
        '\0' => {
            *feats += 1;
            "\\0".into()
        }
        '\\' => {
            *feats += 1;
            "\\\\".into()
        }
        '"' => {
            *feats += 1;
            "\\\"".into()
        }
        '\'' => {
            *feats += 1;
            "\\'".into()
        }
        ch => {
            if !ch.is_ascii() {
                *feats += 1;
            }
            ch.to_string()
        }
    }
}

fn gen_char(c: &mut Choices) -> char {
    match c.below(12) {
        0 => 'a',
        1 => ' ',
        2 => '\n',
        3 => '\t',
        4 => '"',
        5 => '\'',
        6 => '\\',
        7 => 'é',
        8 => '日',
        9 => '\u{10FFFF}',
        10 => '\0',
        _ => char::from_u32(c.u16() as u32 * 17 % 0x110000).filter(|c| *c != '\r').unwrap_or('z'),
    }
}

fn char_literal(c: &mut Choices) -> LitCase {
    let ch = gen_char(c);
    let mut feats = 0;
    let text = spell_char(ch, false, c, &mut feats);
    LitCase { stmt: format!("out_char('{text}');"), expected: Ev::Out(V::Char(ch)), features: feats, alt: Some(("char".into(), format!("'{text}'"))) }
}

fn string_literal(c: &mut Choices) -> LitCase {
    let n = c.below(8);
    let mut val = String::new();
    let mut text = String::new();
    let mut feats = 0;
    let mut after_continuation = false;
    for _ in 0..n {
        if c.chance(20) {
            // line continuation: backslash, newline, then any whitespace (also further
            // newlines) is skipped
            text.push_str("\\\n");
            text.push_str(["      \t", "", "\n", "  \n\n  ", "\t\n \t", " "][c.below(6)]);
            feats += 1;
            after_continuation = true;
            continue;
        }
        let ch = gen_char(c);
        val.push(ch);
        if after_continuation && ch.is_whitespace() {
            // raw whitespace here would be swallowed by the continuation: spell it as an escape
            let _ = write!(text, "\\u{{{:x}}}", ch as u32);
        } else {
            text.push_str(&spell_char(ch, true, c, &mut feats));
        }
        after_continuation = false;
    }
    LitCase { stmt: format!("out_String(\"{text}\");"), expected: Ev::Out(V::Str(val)), features: feats, alt: Some(("String".into(), format!("\"{text}\""))) }
}

fn fstring_literal(c: &mut Choices) -> LitCase {
    let n = c.below(7);
    let mut val = String::new();
    let mut text = String::new();
    let mut feats = 0;
    let mut after_continuation = false;
    for _ in 0..n {
        let was_after = std::mem::replace(&mut after_continuation, false);
        match c.below(8) {
            7 => {
                // an escape directly followed by text that looks like the start of another escape or
                // by an interpolation: `\\u{x}` is a backslash, the letter u and the value of x
                let (esc, v) = [("\\\\", "\\"), ("\\n", "\n"), ("\\t", "\t"), ("\\\"", "\""), ("\\u{5c}", "\\"), ("\\x5c", "\\")][c.below(6)];
                text.push_str(esc);
                val.push_str(v);
                match c.below(4) {
                    0 => {
                        text.push_str("u{x}");
                        val.push_str("u7");
                    }
                    1 => {
                        text.push_str("x{x}");
                        val.push_str("x7");
                    }
                    2 => {
                        text.push_str("{x}");
                        val.push('7');
                    }
                    _ => {
                        text.push_str("u{{x}}");
                        val.push_str("u{x}");
                    }
                }
                feats += 2;
            }
            6 => {
                // line continuation in the text of an f-string
                text.push_str("\\\n");
                text.push_str(["    ", "", "\n", " \n\n\t", " "][c.below(5)]);
                feats += 1;
                after_continuation = true;
            }
            0 => {
                val.push('{');
                text.push_str("{{");
                feats += 1;
            }
            1 => {
                val.push('}');
                text.push_str("}}");
                feats += 1;
            }
            2 => {
                // interpolation of a known i32
                let k = c.below(100);
                let _ = write!(val, "{k}");
                let sp = if c.chance(60) { " " } else { "" };
                let _ = write!(text, "{{{sp}{k}{sp}}}");
                feats += 1;
            }
            3 => {
                let _ = write!(val, "{}", 7);
                text.push_str("{x}");
                feats += 1;
            }
            _ => {
                let ch = gen_char(c);
                if ch == '{' || ch == '}' {
                    continue;
                }
                val.push(ch);
                if was_after && ch.is_whitespace() {
                    let _ = write!(text, "\\u{{{:x}}}", ch as u32);
                } else {
                    text.push_str(&spell_char(ch, true, c, &mut feats));
                }
            }
        }
    }
    LitCase { stmt: format!("out_String(f\"{text}\");"), expected: Ev::Out(V::Str(val)), features: feats, alt: Some(("String".into(), format!("f\"{text}\""))) }
}

fn ip_literal(c: &mut Choices) -> LitCase {
    let mut feats = 0;
    let (text, ip): (String, IpAddr) = if c.chance(128) {
        let o = [c.byte(), c.byte(), c.byte(), c.byte()];
        (format!("{}.{}.{}.{}", o[0], o[1], o[2], o[3]), IpAddr::V4(Ipv4Addr::from(o)))
    } else {
        feats += 1;
        let mut segs = [0u16; 8];
        for s in segs.iter_mut() {
            *s = match c.below(4) {
                0 => 0,
                1 => c.byte() as u16,
                _ => c.u16(),
            };
        }
        let a = Ipv6Addr::from(segs);
        let text = match c.below(3) {
            0 => format!("{a}"), // compressed form
            1 => segs.iter().map(|s| format!("{:x}", s)).collect::<Vec<_>>().join(":"),
            _ => segs.iter().map(|s| format!("{:04X}", s)).collect::<Vec<_>>().join(":"),
        };
        // oracle: std's parser on the spelling
        let parsed: Ipv6Addr = text.parse().unwrap_or(a);
        (text, IpAddr::V6(parsed))
    };
    if c.chance(90) {
        // prefix literal `addr / len` with the host bits cleared
        feats += 1;
        let max = if ip.is_ipv4() { 32 } else { 128 };
        let len = c.below(max + 1) as u8;
        let masked: IpAddr = match ip {
            IpAddr::V4(a) => {
                let m = if len == 0 { 0 } else { u32::MAX << (32 - len as u32) };
                IpAddr::V4(Ipv4Addr::from(u32::from(a) & m))
            }
            IpAddr::V6(a) => {
                let m = if len == 0 { 0 } else { u128::MAX << (128 - len as u32) };
                IpAddr::V6(Ipv6Addr::from(u128::from(a) & m))
            }
        };
        let text = match masked {
            IpAddr::V4(a) => format!("{a}"),
            IpAddr::V6(a) => format!("{a}"),
        };
        let sp = if c.chance(128) { " " } else { "" };
        let expected = format!("prefix:{}", inetnum::addr::Prefix::new(masked, len).expect("valid prefix"));
        return LitCase { stmt: format!("out_Prefix({text}{sp}/{sp}{len});"), expected: Ev::Out(V::Str(expected)), features: feats, alt: Some(("Prefix".into(), format!("{text}{sp}/{sp}{len}"))) };
    }
    LitCase { stmt: format!("out_IpAddr({text});"), expected: Ev::Out(V::Str(format!("ip:{ip}"))), features: feats, alt: Some(("IpAddr".into(), text)) }
}

fn asn_literal(c: &mut Choices) -> LitCase {
    let n: u32 = match c.below(4) {
        0 => 0,
        1 => u32::MAX,
        2 => c.u16() as u32,
        _ => c.u64() as u32,
    };
    LitCase { stmt: format!("out_Asn(AS{n});"), expected: Ev::Out(V::Str(format!("asn:{n}"))), features: 1, alt: Some(("Asn".into(), format!("AS{n}"))) }
}

// --------------------------------------------------------------------------- worker

impl W {
    fn ident(&self, c: &mut Choices, taken: &mut Vec<String>) -> String {
        loop {
            let mut s = String::new();
            if c.chance(40) {
                s.push('_');
            } else {
                s.push(pick_from(&self.xid_start, c));
            }
            let n = c.below(6);
            for _ in 0..n {
                s.push(pick_from(&self.xid_continue, c));
            }
            if s == "_" {
                s.push('k');
            }
            // names that would collide with built-ins or keywords get a suffix that keeps them identifiers
            if RESERVED.contains(&s.as_str()) || s.is_ascii() && s.len() <= 6 {
                s.push_str("_ü");
            }
            // digits are XID_Continue: a counter keeps exhausted streams from looping
            if taken.contains(&s) {
                let _ = write!(s, "{}", taken.len());
            }
            if !taken.contains(&s) {
                taken.push(s.clone());
                return s;
            }
        }
    }

    fn literals(&self, ctl: &[u8], render: bool) -> Outcome {
        let mut c = Choices::new(ctl);
        let mut cases = Vec::new();
        for _ in 0..40 {
            let lc = match c.below(8) {
                0 | 1 => Some(int_literal(&mut c)),
                2 => float_literal(&mut c),
                3 => Some(char_literal(&mut c)),
                4 => Some(string_literal(&mut c)),
                5 => Some(fstring_literal(&mut c)),
                6 => Some(ip_literal(&mut c)),
                _ => Some(asn_literal(&mut c)),
            };
            if let Some(lc) = lc {
                cases.push(lc);
            }
        }
        // one literal in four stands in another syntactic position: directly after `return`, `accept`
        // or `reject` (with or without a semicolon, alone or behind a condition), or first in a block
        let mut helpers = String::new();
        let mut src = String::from("fn main() {\n    let x = 7;\n");
        for (k, lc) in cases.iter_mut().enumerate() {
            let pos = c.below(20);
            if let (Some((t, e)), true) = (lc.alt.clone(), pos < 6) {
                // f-strings that mention `x` need it in scope
                let px = "let x = 7; ";
                match pos {
                    0 => {
                        let _ = writeln!(helpers, "fn zz_l{k}() -> {t} {{ {px}return {e} }}");
                        lc.stmt = format!("out_{t}(zz_l{k}());");
                    }
                    1 => {
                        let _ = writeln!(helpers, "fn zz_l{k}() -> {t} {{ {px}if x == 7 {{ return {e}; }} return {e};\n}}");
                        lc.stmt = format!("out_{t}(zz_l{k}());");
                    }
                    2 => {
                        let _ = writeln!(helpers, "fn zz_l{k}() -> Verdict[{t}, ()] {{ {px}accept {e} }}");
                        lc.stmt = format!("match zz_l{k}() {{ Accept(q) => out_{t}(q), Reject(q) => {{}} }}");
                    }
                    3 => {
                        let _ = writeln!(helpers, "fn zz_l{k}() -> Verdict[(), {t}] {{ {px}if x == 7 {{ reject {e}; }} accept }}");
                        lc.stmt = format!("match zz_l{k}() {{ Accept(q) => {{}}, Reject(q) => out_{t}(q) }}");
                    }
                    4 => {
                        let _ = writeln!(helpers, "fn zz_l{k}() -> {t} {{ {px}{{ {e} }} }}");
                        lc.stmt = format!("out_{t}(zz_l{k}());");
                    }
                    _ => {
                        lc.stmt = format!("out_{t}(if x == 7 {{ {e} }} else {{ {e} }});");
                    }
                }
                lc.features += 1;
            }
            let _ = writeln!(src, "    {{ {} }};", lc.stmt);
        }
        src.push_str("}\n");
        src.push_str(&helpers);
        let mut pkg = match host::compile(&self.rt, &src) {
            Ok(p) => p,
            Err(e) => {
                let mut f = Outcome::fail("literal:rejected", format!("a script made of documented literal spellings was rejected:\n{e}\n{src}"));
                f.render = Some(src);
                return f;
            }
        };
        let f = match pkg.get_function::<fn()>("main") {
            Ok(f) => f,
            Err(e) => return Outcome::discard(format!("{e}")),
        };
        host::reset(vec![]);
        f.call();
        let log = host::take_log();
        let mut o = Outcome::pass();
        o.evals = cases.len() as u64;
        if log.len() != cases.len() {
            return Outcome::fail("literal:log-length", format!("{} outputs for {} literals\n{src}", log.len(), cases.len()));
        }
        for (got, lc) in log.iter().zip(&cases) {
            if !model::ev_same(got, &lc.expected) {
                let mut f = Outcome::fail(
                    "literal:wrong-value",
                    format!("`{}` produced {} but the spelling denotes {}\n{src}", lc.stmt, model::show_ev(got), model::show_ev(&lc.expected)),
                );
                f.render = Some(lc.stmt.clone());
                return f;
            }
        }
        o.nontrivial = cases.iter().any(|l| l.features > 0);
        o.classes.push("sub:literals".into());
        o.hash = fnv(src.as_bytes());
        if render {
            o.render = Some(src);
        }
        o
    }

    fn identifiers(&self, ctl: &[u8], render: bool) -> Outcome {
        let mut c = Choices::new(ctl);
        let mut taken = Vec::new();
        let names: Vec<String> = (0..9).map(|_| self.ident(&mut c, &mut taken)).collect();
        let (t, f, e, v, func, p, var, test, bind) =
            (&names[0], &names[1], &names[2], &names[3], &names[4], &names[5], &names[6], &names[7], &names[8]);
        let src = format!(
            "record {t} {{ {f}: i32 }}\nenum {e} {{ {v}(i32) }}\nfn {func}({p}: i32) -> i32 {{\n    let {var} = {p} + 1;\n    let r = {t} {{ {f}: {var} }};\n    match {e}.{v}(r.{f}) {{\n        {v}({bind}) => {bind},\n    }}\n}}\ntest {test} {{\n    accept\n}}\nfn main() {{\n    out_i32({func}(41));\n}}\n"
        );
        let case: Case = vec![b"#!script".to_vec(), src.clone().into_bytes(), b"out(42i32)".to_vec()];
        let mut o = run_script_case(&self.rt, &case).unwrap();
        if o.verdict == Verdict::Fail {
            o.sig = format!("identifier:{}", o.sig);
            return o;
        }
        o.nontrivial = names.iter().any(|n| !n.is_ascii());
        o.classes.push("sub:identifiers".into());
        if !render {
            o.render = None;
        }
        o
    }

    fn trivia(&self, case: &Case, render: bool) -> Outcome {
        let empty: Vec<u8> = Vec::new();
        let ctl = case.first().unwrap_or(&empty);
        let mut c = Choices::new(&ctl[1.min(ctl.len())..]);
        let s0 = case.get(1).unwrap_or(&empty);
        let s1 = case.get(2).unwrap_or(&empty);
        let mut rets: Vec<Ty> = SCALAR_TYS.to_vec();
        rets.push(Ty::Unit);
        rets.push(Ty::Str);
        let prog = Gen::new(s0, s1, self.prof.clone()).program(&rets);
        let src = print_program(&prog, Parens::Minimal);
        let mut out = String::new();
        let mut feats = 0;
        if c.chance(100) {
            // documented: "if [the first line] starts with `#!` then it will be ignored"
            let lines = ["#!/usr/bin/env roto -- é {", "#!/usr/bin/env roto", "#! /usr/bin/env roto", "#!", "#!roto", "#!\t/usr/local/bin/roto run", "#!//", "#! \"unterminated", "#!/*", "#! fn main() {"];
            out.push_str(lines[c.below(lines.len())]);
            out.push('\n');
            feats += 1;
        }
        // multi-line f-strings: never touch text while inside a string literal
        let mut in_string = false;
        let count_quotes = |line: &str| -> usize {
            let cleaned = line.replace("'\\\"'", "").replace("'\"'", "").replace("\\\\", "").replace("\\\"", "");
            cleaned.matches('"').count()
        };
        for line in src.lines() {
            let starts_in_string = in_string;
            if count_quotes(line) % 2 == 1 {
                in_string = !in_string;
            }
            if starts_in_string || in_string {
                // this line begins or ends inside a string literal: copy it verbatim
                out.push_str(line);
                out.push('\n');
                continue;
            }
            if c.chance(60) {
                let _ = writeln!(out, "   // comment \" ' {{ é 日本 */ /* fn main() ");
                feats += 1;
            }
            if c.chance(30) {
                out.push_str("\n\t \n");
                feats += 1;
            }
            // lines without string/char literals may have their inner spacing changed
            if !line.contains('"') && !line.contains('\'') && c.chance(80) {
                let pad = ["  ", "\t", " \t "][c.below(3)];
                out.push_str(&line.replace(' ', pad));
                feats += 1;
            } else {
                out.push_str(line);
            }
            if c.chance(50) && !line.trim_end().ends_with('\\') {
                out.push_str(" // trailing comment } ) \"");
                feats += 1;
            }
            out.push('\n');
        }
        // how the text ends: with a newline, without one, or in a comment that nothing terminates
        match c.below(6) {
            0 | 1 => {}
            2 => {
                while out.ends_with('\n') {
                    out.pop();
                }
                feats += 1;
            }
            3 => {
                while out.ends_with('\n') {
                    out.pop();
                }
                out.push_str(" // the last line is a comment without a newline: fn x() {");
                feats += 1;
            }
            4 => {
                out.push_str("// the last line is a comment without a newline \" é");
                feats += 1;
            }
            _ => {
                out.push_str("\n\n   \t//\n//");
                feats += 1;
            }
        }
        // the inputs are the chunks after the two generator streams
        let mut inputs_case: Case = vec![Vec::new(), Vec::new()];
        inputs_case.extend(case.iter().skip(3).cloned());
        let mut o = check_program_with(&self.rt, Kind::C02, &prog, Some(out.clone()), &inputs_case, render);
        if o.verdict == Verdict::Fail {
            o.sig = format!("trivia:{}", o.sig);
        }
        if o.verdict == Verdict::Discard {
            // the untouched program must have been rejected as well, otherwise the trivia broke it
            let plain = check_program_with(&self.rt, Kind::C02, &prog, None, &inputs_case, false);
            if plain.verdict != Verdict::Discard {
                let mut f = Outcome::fail("trivia:rejected", format!("program compiles without but not with comments/whitespace/shebang:\n{}", o.msg));
                f.render = Some(out);
                return f;
            }
        }
        o.nontrivial = o.nontrivial && feats > 0;
        o.classes.push("sub:trivia".into());
        o
    }

    /// A generated program printed with minimal and with full parentheses: both forms
    /// must compile (or both be rejected) and both must agree with the model.
    fn program_parens(&self, case: &Case, render: bool) -> Outcome {
        let empty: Vec<u8> = Vec::new();
        let s0 = case.get(1).unwrap_or(&empty);
        let s1 = case.get(2).unwrap_or(&empty);
        let mut rets: Vec<Ty> = SCALAR_TYS.to_vec();
        rets.push(Ty::Unit);
        rets.push(Ty::Str);
        let prog = Gen::new(s0, s1, self.prof.clone()).program(&rets);
        let mut inputs_case: Case = vec![Vec::new(), Vec::new()];
        inputs_case.extend(case.iter().skip(3).cloned());
        let full_src = print_program(&prog, Parens::Full);
        let min_src = print_program(&prog, Parens::Minimal);
        let mut o_min = check_program_with(&self.rt, Kind::C02, &prog, None, &inputs_case, render);
        let o_full = check_program_with(&self.rt, Kind::C02, &prog, Some(full_src.clone()), &inputs_case, false);
        if o_min.verdict == Verdict::Fail {
            o_min.sig = format!("parens:minimal:{}", o_min.sig);
            return o_min;
        }
        if o_full.verdict == Verdict::Fail {
            let mut f = o_full;
            f.sig = format!("parens:full:{}", f.sig);
            return f;
        }
        match (o_min.verdict, o_full.verdict) {
            (Verdict::Discard, Verdict::Pass) => {
                let mut f = Outcome::fail(
                    "parens:minimal-form-rejected",
                    format!("the fully parenthesised form compiles, the form without redundant parentheses does not:\n{}\n--- full form ---\n{full_src}", o_min.msg),
                );
                f.render = Some(min_src);
                f
            }
            (Verdict::Pass, Verdict::Discard) => {
                let mut f = Outcome::fail(
                    "parens:full-form-rejected",
                    format!("the minimal form compiles, the fully parenthesised form does not:\n{}\n--- minimal form ---\n{min_src}", o_full.msg),
                );
                f.render = Some(full_src);
                f
            }
            _ => {
                o_min.nontrivial = o_min.verdict == Verdict::Pass && full_src.len() > min_src.len() + 8;
                o_min.classes.push("sub:program-parens".into());
                o_min
            }
        }
    }

    fn operators(&self, ctl: &[u8], render: bool) -> Outcome {
        let mut c = Choices::new(&ctl[1.min(ctl.len())..]);
        let illegal = c.chance(50);
        let t = [IntTy::I32, IntTy::U8, IntTy::I64, IntTy::U16][c.below(4)];
        let n_ops = 1 + c.below(6);
        let a_val = t.wrap(c.u64() as i128 % 97);
        let b_val = t.wrap(c.u64() as i128 % 13 + 1);
        // leaves: variables a, b, small literals
        let leaf_int = |c: &mut Choices| -> Expr {
            match c.below(4) {
                0 => Expr::Var("a".into()),
                1 => Expr::Var("b".into()),
                _ => {
                    let v = (c.below(9) + 1) as i128;
                    // suffixed: a tree made of literals only must not fall back to the i32 default
                    Expr::Lit(Lit { v: V::Int(t, v), text: format!("{v}{}", t.name()) })
                }
            }
        };
        if illegal {
            // documented as rejected without parentheses
            let text = if c.chance(128) {
                let ops = ["==", "!=", "<", "<=", ">", ">="];
                format!("a {} b {} 3", ops[c.below(6)], ops[c.below(6)])
            } else if c.chance(128) {
                "a < b && b < 9 || a == 1".to_string()
            } else {
                "a < b || b < 9 && a == 1".to_string()
            };
            let src = format!("fn main(a: {0}, b: {0}) -> bool {{\n    {1}\n}}\n", t.name(), text);
            let mut o = Outcome::pass();
            o.nontrivial = true;
            o.classes.push("sub:operators-illegal-chain".into());
            o.hash = fnv(src.as_bytes());
            return match host::compile(&self.rt, &src) {
                Err(e) if e.starts_with("Error: Parse error") => {
                    if render {
                        o.render = Some(src);
                    }
                    o
                }
                Err(e) => Outcome::fail("operators:wrong-error-kind", format!("{e}\n{src}")),
                Ok(_) => Outcome::fail("operators:illegal-chain-accepted", format!("an unparenthesised chain the documentation forbids compiled:\n{src}")),
            };
        }
        // random tree over arithmetic, comparison and logic
        fn int_tree(c: &mut Choices, n: usize, leaf: &dyn Fn(&mut Choices) -> Expr, signed: bool) -> Expr {
            if n == 0 {
                let l = leaf(c);
                return if signed && c.chance(40) { Expr::Neg(Box::new(l)) } else { l };
            }
            let op = [BinOp::Add, BinOp::Sub, BinOp::Mul, BinOp::Div, BinOp::Rem][c.below(5)];
            let left = c.below(n);
            let l = int_tree(c, left, leaf, signed);
            let r = int_tree(c, n - 1 - left, leaf, signed);
            Expr::Bin(op, Box::new(l), Box::new(r))
        }
        fn bool_tree(c: &mut Choices, n: usize, leaf: &dyn Fn(&mut Choices) -> Expr, signed: bool) -> Expr {
            if n == 0 {
                let b = c.chance(128);
                let l = Expr::Lit(Lit { v: V::Bool(b), text: format!("{b}") });
                return if c.chance(60) { Expr::Not(Box::new(l)) } else { l };
            }
            if c.chance(140) {
                // comparison of two arithmetic trees
                let op = [BinOp::Eq, BinOp::Ne, BinOp::Lt, BinOp::Le, BinOp::Gt, BinOp::Ge][c.below(6)];
                let left = c.below(n);
                let l = int_tree(c, left, leaf, signed);
                let r = int_tree(c, n - 1 - left, leaf, signed);
                Expr::Bin(op, Box::new(l), Box::new(r))
            } else {
                let op = if c.chance(128) { BinOp::And } else { BinOp::Or };
                let left = c.below(n);
                let l = bool_tree(c, left, leaf, signed);
                let r = bool_tree(c, n - 1 - left, leaf, signed);
                let e = Expr::Bin(op, Box::new(l), Box::new(r));
                if c.chance(40) { Expr::Not(Box::new(e)) } else { e }
            }
        }
        let want_bool = c.chance(128);
        let tree = if want_bool { bool_tree(&mut c, n_ops, &leaf_int, t.signed()) } else { int_tree(&mut c, n_ops, &leaf_int, t.signed()) };
        let ret = if want_bool { Ty::Bool } else { Ty::Int(t) };
        let prog = Program {
            decls: vec![],
            consts: vec![],
            funcs: vec![Func {
                kind: FnKind::Fn,
                name: "main".into(),
                params: vec![("a".into(), Ty::Int(t)), ("b".into(), Ty::Int(t))],
                ret: ret.clone(),
                body: Block { stmts: vec![], tail: Some(Box::new(tree)) },
            }],
            layout: 0,
        };
        // model
        let mut it = Interp::new(&prog, vec![], 10_000);
        let expected = match it.call_fn(0, vec![V::Int(t, a_val), V::Int(t, b_val)]) {
            Ok(v) | Err(Stop::Return(v)) => v,
            Err(Stop::Trap(_)) => {
                let mut o = Outcome::pass();
                o.evals = 0;
                o.excluded.push(("C10-F1".into(), 1));
                return o;
            }
            Err(_) => return Outcome::discard("model could not evaluate operator tree"),
        };
        let mut o = Outcome::pass();
        o.evals = 0;
        let mut rendered = String::new();
        for parens in [Parens::Minimal, Parens::Full] {
            let src = print_program(&prog, parens);
            let _ = writeln!(rendered, "{src}");
            let mut pkg = match host::compile(&self.rt, &src) {
                Ok(p) => p,
                Err(e) => return Outcome::fail("operators:rejected", format!("{e}\n{src}")),
            };
            let got = {
                macro_rules! call {
                    ($ty:ty, $mk:expr) => {{
                        if want_bool {
                            V::Bool(pkg.get_function::<fn($ty, $ty) -> bool>("main").unwrap().call(a_val as $ty, b_val as $ty))
                        } else {
                            $mk(pkg.get_function::<fn($ty, $ty) -> $ty>("main").unwrap().call(a_val as $ty, b_val as $ty))
                        }
                    }};
                }
                match t {
                    IntTy::I32 => call!(i32, |x: i32| V::Int(t, x as i128)),
                    IntTy::U8 => call!(u8, |x: u8| V::Int(t, x as i128)),
                    IntTy::I64 => call!(i64, |x: i64| V::Int(t, x as i128)),
                    _ => call!(u16, |x: u16| V::Int(t, x as i128)),
                }
            };
            o.evals += 1;
            if !model::same(&got, &expected) {
                let mut f = Outcome::fail(
                    format!("operators:wrong-value:{:?}", parens),
                    format!("with a = {a_val}, b = {b_val}: got {} but the documented grouping gives {}\n{src}", model::show(&got), model::show(&expected)),
                );
                f.render = Some(src);
                return f;
            }
        }
        o.nontrivial = n_ops >= 3;
        o.classes.push("sub:operators".into());
        o.hash = fnv(rendered.as_bytes());
        if render {
            o.render = Some(format!("{rendered}// a = {a_val}, b = {b_val} => {}", model::show(&expected)));
        }
        o
    }
}

impl WorkerState for W {
    fn render_only(&mut self, case: &Case) -> String {
        if case.first().map(|c| c.as_slice()) == Some(b"#!script") {
            return String::from_utf8_lossy(case.get(1).map(|c| c.as_slice()).unwrap_or(b"")).to_string();
        }
        let o = crate::worker::guarded(|| self.dispatch(case, true));
        o.render.unwrap_or_default()
    }
    fn run(&mut self, case: &Case, render: bool) -> Outcome {
        if let Some(o) = run_script_case(&self.rt, case) {
            return o;
        }
        self.dispatch(case, render)
    }
}

impl W {
    fn dispatch(&mut self, case: &Case, render: bool) -> Outcome {
        let empty: Vec<u8> = Vec::new();
        let ctl = case.first().unwrap_or(&empty);
        let sub = ctl.first().copied().unwrap_or(0) % 10;
        match sub {
            0 | 1 | 2 => self.literals(&ctl[1.min(ctl.len())..], render),
            3 => self.identifiers(&ctl[1.min(ctl.len())..], render),
            4 | 5 => self.trivia(case, render),
            6 | 7 => self.operators(ctl, render),
            _ => self.program_parens(case, render),
        }
    }
}

impl Prop for C09P {
    fn id(&self) -> &'static str {
        "C09"
    }
    fn rule(&self) -> String {
        "five generators: (a) 40 literal spellings per script drawn from the documented literal grammar (ints with underscores/hex/suffixes, floats with fraction/exponent/suffix, chars and strings with every escape and line continuation, f-strings with {{ }} and interpolations, IPv4/IPv6, prefixes, AS numbers) compared with an independently decoded value; (b) XID_Start/XID_Continue identifiers (regex-syntax's Unicode tables) in type, field, variant, function, parameter, variable, binding and test positions; (c) generated programs with comments, blank lines, re-spaced lines and a shebang inserted, compared with the reference interpreter; (d) random operator trees of up to 6 binary + unary operators printed with minimal and with full parentheses, both compared with the reference interpreter, plus unparenthesised comparison chains and &&/|| mixtures that must be parse errors; (e) whole generated programs (records, enums, lists, strings, control flow, return/accept operands, match, f-strings) printed with minimal and with full parentheses: both forms must be accepted and agree with the reference interpreter. Non-trivial: uses at least one optional feature (underscore, suffix, escape, exponent, hex, multi-byte text / non-ASCII identifier / inserted trivia / >= 3 operators); distinct by script text".into()
    }
    fn assumptions(&self) -> Vec<String> {
        vec![
            "f32 spellings whose direct decimal->f32 rounding differs from decimal->f64->f32 are discarded as undocumented".into(),
            "IPv6 spellings are decoded by std's parser; prefixes are generated with host bits cleared".into(),
            "integer spellings stay within i64 and the range of their type".into(),
        ]
    }
    fn cases(&self, tier: Tier) -> u32 {
        match tier {
            Tier::Quick => 40_000,
            Tier::Thorough => 1_500_000,
        }
    }
    fn shape(&self, _tier: Tier) -> CaseShape {
        CaseShape::streams(&[600, 500, 200, 72, 72])
    }
    fn worker(&self, excl: &[String]) -> Box<dyn WorkerState> {
        let mut prof = profile_for(Kind::C02, excl);
        prof.budget = 150;
        Box::new(W {
            rt: host::build_runtime(),
            xid_start: class_ranges(r"\p{XID_Start}"),
            xid_continue: class_ranges(r"\p{XID_Continue}"),
            prof,
        })
    }
}
