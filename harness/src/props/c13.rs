//! C13 — Names resolve to the item the module rules designate.
//!
//! Generated module trees with same-named items everywhere and probe functions
//! containing references of every form; an independent resolver written from the
//! property statement predicts the item (or that the reference is an error); the
//! tree is compiled from memory and from disk.

use std::collections::BTreeMap;
use std::fmt::Write as _;
use std::path::PathBuf;

use roto::{FileSpec, FileTree, NoCtx, Runtime, SourceFile};

use crate::core::*;
use crate::host;

pub struct C13P;
pub static C13: C13P = C13P;

const MOD_NAMES: [&str; 3] = ["a", "b", "pkgs"];
/// `fm` is declared as a filtermap (`filtermap fm() { accept <tag> }`), the others as functions
const FN_NAMES: [&str; 4] = ["f", "g", "pkg_h", "fm"];

fn is_fm(name: &str) -> bool {
    name == "fm"
}

/// the expression that calls the function-like item at `path` and yields its tag
fn call_text(path: &[String]) -> String {
    let p = path.join(".");
    if is_fm(path.last().map(|s| s.as_str()).unwrap_or("")) { format!("(match {p}() {{ Accept(zv) => zv, Reject(zr) => -1 }})") } else { format!("{p}()") }
}

/// Imports of one scope as source text.  Style 0: one statement per path; 1: one statement per first
/// segment, paths merged into nested lists (`import a.{b.{f, g}, K};`); 2: one statement with a top-level
/// list (`import {a.b.f, c.K};`); 3: like 1 but every leaf wrapped in a list of its own where a list is allowed.
fn import_text(paths: &[&Vec<String>], style: u8) -> String {
    fn entries(paths: Vec<&[String]>, wrap: bool) -> Vec<String> {
        let mut firsts: Vec<&String> = Vec::new();
        for p in &paths {
            if !firsts.contains(&&p[0]) {
                firsts.push(&p[0]);
            }
        }
        let mut out = Vec::new();
        for f in firsts {
            let tails: Vec<&[String]> = paths.iter().filter(|p| &p[0] == f).map(|p| &p[1..]).collect();
            if tails.iter().any(|t| t.is_empty()) {
                out.push(f.clone());
            }
            let rest: Vec<&[String]> = tails.into_iter().filter(|t| !t.is_empty()).collect();
            match rest.len() {
                0 => {}
                1 if !wrap => out.push(format!("{f}.{}", rest[0].join("."))),
                _ => out.push(format!("{f}.{{{}}}", entries(rest, wrap).join(", "))),
            }
        }
        out
    }
    if paths.is_empty() {
        return String::new();
    }
    match style % 4 {
        1 | 3 => entries(paths.iter().map(|p| p.as_slice()).collect(), style % 4 == 3).iter().map(|e| format!("import {e};")).collect::<Vec<_>>().join(" "),
        2 if paths.len() >= 2 => format!("import {{{}}};", paths.iter().map(|p| p.join(".")).collect::<Vec<_>>().join(", ")),
        _ => paths.iter().map(|p| format!("import {};", p.join("."))).collect::<Vec<_>>().join(" "),
    }
}
const CONST_NAMES: [&str; 2] = ["K", "L"];

#[derive(Clone, Debug)]
struct Module {
    name: String,
    parent: Option<usize>,
    children: Vec<usize>,
    /// function name -> tag
    fns: BTreeMap<String, i32>,
    /// constant name -> value
    consts: BTreeMap<String, i32>,
    /// module-level imports: alias -> path segments (as written)
    imports: Vec<Vec<String>>,
    /// leaf modules may be `name.roto` or `name/mod.roto`
    as_dir: bool,
    /// declares `enum Color { Red, Green }`: a type is not a module, nothing but its variants can be
    /// named through it
    has_type: bool,
}

#[derive(Clone, Debug, PartialEq)]
enum Item {
    Fn(i32),
    Const(i32),
    Module(usize),
    Local(i32),
    Type(usize),
}

#[derive(Clone, Debug)]
struct Probe {
    module: usize,
    /// imports written inside the probe function: (at nesting depth 0 or 1, path)
    block_imports: Vec<(usize, Vec<String>)>,
    import_after_use: bool,
    /// local `let K = 700 + i` in the outer block (shadows constants named K)
    local: Option<(String, i32)>,
    /// the reference: path segments; last one is the item name
    path: Vec<String>,
    /// use inside the nested block?
    nested_use: bool,
    /// imports written in the then-branch of an `if` whose else-branch holds the use:
    /// they must resolve, but the use must not see them
    sibling_imports: Vec<Vec<String>>,
    /// how the block that holds the use is written (plain block, `if`, match arm, loop body,
    /// block ending in a `match`, ...)
    shape: u8,
    /// imports written in a nested block next to the use (which is outside that block): they
    /// must resolve, but the use must not see them; and how that block is written
    decoy: Vec<Vec<String>>,
    decoy_shape: u8,
}

struct Tree {
    /// how the imports of one scope are written (see `import_text`)
    list_style: u8,
    mods: Vec<Module>,
    probes: Vec<Probe>,
}

fn gen_path(c: &mut Choices, item: &str) -> Vec<String> {
    let mut p: Vec<String> = Vec::new();
    match c.below(6) {
        0 => {}
        1 | 2 => {
            let n = 1 + c.below(2);
            for _ in 0..n {
                p.push(MOD_NAMES[c.below(3)].to_string());
            }
        }
        3 => {
            p.push("pkg".into());
            let n = c.below(3);
            for _ in 0..n {
                p.push(MOD_NAMES[c.below(3)].to_string());
            }
        }
        _ => {
            let n = 1 + c.below(3);
            for _ in 0..n {
                p.push("super".into());
            }
            let k = c.below(2);
            for _ in 0..k {
                p.push(MOD_NAMES[c.below(3)].to_string());
            }
        }
    }
    p.push(item.to_string());
    p
}

/// A reference that is valid by construction (absolute, relative or through supers) to an item that
/// exists, perturbed with a small probability; falls back to a random path when nothing is declared.
fn gen_ref(c: &mut Choices, mods: &[Module], from: usize, want_fn: Option<bool>) -> Vec<String> {
    let path_of = |m: usize| -> Vec<usize> {
        let mut v = vec![m];
        let mut cur = m;
        while let Some(p) = mods[cur].parent {
            v.push(p);
            cur = p;
        }
        v.reverse();
        v
    };
    let cands: Vec<(usize, String)> = (0..mods.len())
        .flat_map(|m| {
            let fns = mods[m].fns.keys().map(move |k| (m, k.clone(), true));
            let cs = mods[m].consts.keys().map(move |k| (m, k.clone(), false));
            fns.chain(cs).filter(|(_, _, f)| want_fn.map(|w| w == *f).unwrap_or(true)).map(|(m, k, _)| (m, k)).collect::<Vec<_>>()
        })
        .collect();
    if cands.is_empty() || c.chance(30) {
        let item = if want_fn.unwrap_or(true) { FN_NAMES[c.below(FN_NAMES.len())] } else { CONST_NAMES[c.below(2)] };
        return gen_path(c, item);
    }
    let (mut tm, mut item) = cands[c.below(cands.len())].clone();
    if c.chance(30) {
        // a name that module `tm` only imports: not a member of `tm`, so `tm.name` must not resolve
        let with_imports: Vec<usize> = (0..mods.len()).filter(|m| !mods[*m].imports.is_empty()).collect();
        if !with_imports.is_empty() {
            tm = with_imports[c.below(with_imports.len())];
            let imps = &mods[tm].imports;
            item = imps[c.below(imps.len())].last().unwrap().clone();
        }
    }
    let tp = path_of(tm);
    let fp = path_of(from);
    let names = |ms: &[usize]| -> Vec<String> { ms.iter().map(|m| mods[*m].name.clone()).collect() };
    let mut p: Vec<String> = match c.below(3) {
        0 => {
            let mut v = vec!["pkg".to_string()];
            v.extend(names(&tp[1..]));
            v
        }
        1 if tp.len() >= fp.len() && tp[..fp.len()] == fp[..] => names(&tp[fp.len()..]),
        _ => {
            // up to the common ancestor with supers, then down
            let common = tp.iter().zip(fp.iter()).take_while(|(a, b)| a == b).count();
            let ups = fp.len() - common;
            if ups == 0 {
                names(&tp[fp.len()..])
            } else {
                let mut v: Vec<String> = (0..ups).map(|_| "super".to_string()).collect();
                v.extend(names(&tp[common..]));
                v
            }
        }
    };
    p.push(item);
    // perturbation
    match c.below(10) {
        0 if p.len() >= 2 => {
            let i = c.below(p.len() - 1);
            p.remove(i);
        }
        1 if p.len() >= 2 => {
            let i = c.below(p.len() - 1);
            p[i] = MOD_NAMES[c.below(3)].to_string();
        }
        // `pkg` is only documented at the start of a path: never put a super in front of it
        2 if p[0] != "pkg" => p.insert(0, "super".into()),
        _ => {}
    }
    p
}

fn decode(ctl: &[u8]) -> Tree {
    let mut c = Choices::new(ctl);
    let mut mods = vec![Module { name: "pkg".into(), parent: None, children: vec![], fns: BTreeMap::new(), consts: BTreeMap::new(), imports: vec![], as_dir: true, has_type: false }];
    // tree shape: depth <= 3, <= 3 children per module, distinct child names
    let mut frontier = vec![(0usize, 0u32)];
    while let Some((m, depth)) = frontier.pop() {
        if depth >= 3 {
            continue;
        }
        let n = c.below(if depth == 0 { 4 } else { 3 });
        let mut names: Vec<&str> = MOD_NAMES.to_vec();
        for _ in 0..n {
            if names.is_empty() {
                break;
            }
            let name = names.remove(c.below(names.len()));
            let id = mods.len();
            mods.push(Module { name: name.into(), parent: Some(m), children: vec![], fns: BTreeMap::new(), consts: BTreeMap::new(), imports: vec![], as_dir: c.chance(100), has_type: false });
            mods[m].children.push(id);
            frontier.push((id, depth + 1));
        }
    }
    let mut tag = 1;
    for m in 0..mods.len() {
        for f in FN_NAMES {
            if c.chance(150) {
                mods[m].fns.insert(f.to_string(), tag);
                tag += 1;
            }
        }
        for k in CONST_NAMES {
            if c.chance(120) {
                mods[m].consts.insert(k.to_string(), 100 + tag);
                tag += 1;
            }
        }
        // module-level imports (aliases must be distinct within the scope)
        let n_imp = if c.chance(90) { 1 + c.below(2) } else { 0 };
        for _ in 0..n_imp {
            let mut p = if c.chance(40) {
                let mn = MOD_NAMES[c.below(3)];
                gen_path(&mut c, mn)
            } else {
                gen_ref(&mut c, &mods, m, None)
            };
            if p.len() == 1 {
                p.insert(0, "pkg".into());
            }
            let alias = p.last().unwrap().clone();
            if !mods[m].imports.iter().any(|q| q.last() == Some(&alias)) {
                mods[m].imports.push(p);
            }
        }
    }
    // chains of imports in one scope, each importing through the alias of another one, in random order:
    // `import c.f; import b.c; import pkg.a.b;` for the item pkg.a.b.c.f
    for m in 0..mods.len() {
        if !c.chance(50) {
            continue;
        }
        let depth_path = |t: usize| -> Vec<usize> {
            let mut v = vec![t];
            let mut cur = t;
            while let Some(p) = mods[cur].parent {
                v.push(p);
                cur = p;
            }
            v.reverse();
            v
        };
        let deep: Vec<usize> = (0..mods.len()).filter(|t| depth_path(*t).len() >= 3 && (!mods[*t].fns.is_empty() || !mods[*t].consts.is_empty())).collect();
        if deep.is_empty() {
            continue;
        }
        let tm = deep[c.below(deep.len())];
        let tp = depth_path(tm);
        let item: String = mods[tm].fns.keys().chain(mods[tm].consts.keys()).next().unwrap().clone();
        let mut chain: Vec<Vec<String>> = Vec::new();
        // pkg.<m1> ... then <m_i>.<m_i+1> ... then <m_last>.<item>
        let mut keep = 1 + c.below(tp.len() - 1);
        let own = tp.iter().position(|t| *t == m).filter(|i| i + 2 < tp.len());
        if let (Some(i), true) = (own, c.chance(160)) {
            // the module is an ancestor of the target: the chain starts at its own child, a name
            // the scope declares itself (which goes before every import, also before an alias of
            // the same name that a later link of the chain introduces: pkg.a.b.a)
            keep = i + 1;
        } else {
            let mut first: Vec<String> = vec!["pkg".into()];
            for t in &tp[1..=keep] {
                first.push(mods[*t].name.clone());
            }
            chain.push(first);
        }
        for w in keep..tp.len() - 1 {
            chain.push(vec![mods[tp[w]].name.clone(), mods[tp[w + 1]].name.clone()]);
        }
        chain.push(vec![mods[*tp.last().unwrap()].name.clone(), item]);
        for p in chain {
            let alias = p.last().unwrap().clone();
            if !mods[m].imports.iter().any(|q| q.last() == Some(&alias)) {
                mods[m].imports.push(p);
            }
        }
        // random order of all imports of this module
        let n = mods[m].imports.len();
        for i in (1..n).rev() {
            let j = c.below(i + 1);
            mods[m].imports.swap(i, j);
        }
    }
    // two imports that introduce each other's first name, where one of those names is also a child
    // the scope declares itself: m has child a, a has child b, b has child a (added if missing), m has
    // no child b; `import a.b; import b.a;` in either order.  The declared `a` goes before the alias
    // `a`, so the first import never has to wait for the second; the second needs the first.
    if c.chance(40) {
        let mut cands: Vec<(usize, usize, usize)> = Vec::new();
        for m in 0..mods.len() {
            for &c1 in &mods[m].children {
                for &c2 in &mods[c1].children {
                    if !mods[m].children.iter().any(|x| mods[*x].name == mods[c2].name) && mods[c2].name != mods[c1].name {
                        cands.push((m, c1, c2));
                    }
                }
            }
        }
        if !cands.is_empty() {
            let (m, c1, c2) = cands[c.below(cands.len())];
            let n1 = mods[c1].name.clone();
            let n2 = mods[c2].name.clone();
            if !mods[c2].children.iter().any(|x| mods[*x].name == n1) {
                let id = mods.len();
                let mut fns = BTreeMap::new();
                fns.insert(FN_NAMES[c.below(FN_NAMES.len())].to_string(), tag);
                tag += 1;
                mods.push(Module { name: n1.clone(), parent: Some(c2), children: vec![], fns, consts: BTreeMap::new(), imports: vec![], as_dir: c.chance(100), has_type: false });
                mods[c2].children.push(id);
            }
            let (a, b) = (vec![n1.clone(), n2.clone()], vec![n2.clone(), n1.clone()]);
            mods[m].imports.retain(|q| q.last() != Some(&n1) && q.last() != Some(&n2) && q.first() != Some(&n2));
            if c.chance(128) {
                mods[m].imports.push(a);
                mods[m].imports.push(b);
            } else {
                mods[m].imports.push(b);
                mods[m].imports.push(a);
            }
        }
    }
    let n_probes = 1 + c.below(4);
    let mut probes = Vec::new();
    for i in 0..n_probes {
        let module = c.below(mods.len());
        let want_fn = c.chance(180);
        let via_module_import = c.chance(40);
        let mut block_imports = Vec::new();
        let mut path = gen_ref(&mut c, &mods, module, Some(want_fn));
        let item_owned = path.last().unwrap().clone();
        let item = item_owned.as_str();
        if c.chance(90) {
            // import the item (or its module) inside the function, then use the short form
            let depth = c.below(2);
            if via_module_import && path.len() >= 2 {
                let mpath: Vec<String> = path[..path.len() - 1].to_vec();
                if !matches!(mpath.last().map(|s| s.as_str()), Some("pkg" | "super")) {
                    let malias = mpath.last().unwrap().clone();
                    block_imports.push((depth, mpath));
                    path = vec![malias, item.to_string()];
                }
            } else if path.len() >= 2 {
                block_imports.push((depth, path.clone()));
                path = vec![item.to_string()];
            }
        }
        if block_imports.len() == 1 && block_imports[0].1.len() >= 3 && c.chance(110) {
            // the same import written as two imports of one block, the second one going through the
            // alias of the first, in either order: `import pkg.a.b; import b.f;` / `import b.f; import
            // pkg.a.b;`.  With three module names in the pool the alias is often also the name of
            // something visible further out, which the block's own import has to hide.
            let (d, full) = block_imports[0].clone();
            let k = 1 + c.below(full.len() - 2);
            let alias = full[k].clone();
            if alias != "pkg" && alias != "super" && Some(&alias) != full.last() {
                let head = full[..=k].to_vec();
                let mut tail = vec![alias];
                tail.extend(full[k + 1..].iter().cloned());
                block_imports = if c.chance(128) { vec![(d, head), (d, tail)] } else { vec![(d, tail), (d, head)] };
            }
        }
        let local = if c.chance(40) { Some((CONST_NAMES[c.below(2)].to_string(), 700 + i as i32)) } else { None };
        let nested_use = c.chance(128) || block_imports.iter().any(|(d, _)| *d == 1);
        let import_after_use = c.chance(100);
        let sibling_imports = if c.chance(60) {
            let q = gen_ref(&mut c, &mods, module, Some(want_fn));
            if q.len() >= 2 { vec![q] } else { vec![] }
        } else {
            vec![]
        };
        let nested_use = nested_use || !sibling_imports.is_empty();
        let shape = c.byte();
        let decoy = if !nested_use && c.chance(110) {
            // preferably something that has the name of the reference but lives elsewhere
            let mut best: Vec<String> = Vec::new();
            for _ in 0..4 {
                let q = gen_ref(&mut c, &mods, module, Some(want_fn));
                if q.len() >= 2 && (best.is_empty() || q.last() == path.last()) {
                    best = q;
                }
            }
            if best.len() >= 2 { vec![best] } else { vec![] }
        } else {
            vec![]
        };
        let decoy_shape = c.byte();
        probes.push(Probe { module, block_imports, import_after_use, local, path, nested_use, sibling_imports, shape, decoy, decoy_shape });
    }
    // import bundles: several items of one module and of one of its children imported into one
    // scope by absolute paths, so that list syntax has something to nest (`import pkg.a.{b.{f, g}, K};`)
    for m in 0..mods.len() {
        if !c.chance(50) {
            continue;
        }
        let with_child: Vec<usize> = (1..mods.len()).filter(|t| !mods[*t].children.is_empty()).collect();
        if with_child.is_empty() {
            continue;
        }
        let tm = with_child[c.below(with_child.len())];
        let ch = mods[tm].children[c.below(mods[tm].children.len())];
        let abs = |t: usize| -> Vec<String> {
            let mut v = Vec::new();
            let mut cur = Some(t);
            while let Some(x) = cur {
                v.push(if x == 0 { "pkg".to_string() } else { mods[x].name.clone() });
                cur = mods[x].parent;
            }
            v.reverse();
            v
        };
        let mut cands: Vec<Vec<String>> = Vec::new();
        for t in [ch, tm] {
            for k in mods[t].fns.keys().chain(mods[t].consts.keys()) {
                let mut p = abs(t);
                p.push(k.clone());
                cands.push(p);
            }
        }
        // the child itself, written after its items: `a.{b.{f, g}, b}` is not a list the trie makes, so
        // it comes as an entry of its own
        cands.push(abs(ch));
        let mut k = 0;
        while k < cands.len() {
            let j = k + c.below(cands.len() - k);
            cands.swap(k, j);
            k += 1;
        }
        for p in cands.into_iter().take(2 + c.below(3)) {
            let alias = p.last().unwrap().clone();
            // a module does not import a name it declares itself or has imported already
            let declared = mods[m].fns.contains_key(&alias) || mods[m].consts.contains_key(&alias) || mods[m].children.iter().any(|x| mods[*x].name == alias);
            if !declared && !mods[m].imports.iter().any(|q| q.last() == Some(&alias)) {
                mods[m].imports.push(p);
            }
        }
    }
    // types: some modules declare `enum Color`; a probe may go through it (`Color.f()`, `a.Color.K`,
    // `import a.Color; Color.g()`), which reaches nothing, whatever the module next to the type declares
    for m in 0..mods.len() {
        if c.chance(70) {
            mods[m].has_type = true;
        }
    }
    let typed: Vec<usize> = (0..mods.len()).filter(|m| mods[*m].has_type).collect();
    if !typed.is_empty() && c.chance(110) && !probes.is_empty() {
        let k = c.below(probes.len());
        let tm = typed[c.below(typed.len())];
        let item: String = mods[tm].fns.keys().chain(mods[tm].consts.keys()).next().cloned().unwrap_or_else(|| "f".to_string());
        let mut abs: Vec<String> = Vec::new();
        let mut cur = Some(tm);
        while let Some(x) = cur {
            abs.push(if x == 0 { "pkg".to_string() } else { mods[x].name.clone() });
            cur = mods[x].parent;
        }
        abs.reverse();
        abs.push("Color".into());
        let p = &mut probes[k];
        p.sibling_imports.clear();
        p.decoy.clear();
        p.local = None;
        match c.below(3) {
            0 if p.module == tm => {
                p.block_imports.clear();
                p.path = vec!["Color".into(), item];
            }
            1 => {
                // the type itself is imported into the function, then used as the first segment
                p.block_imports = vec![(0, abs)];
                p.nested_use = false;
                p.path = vec!["Color".into(), item];
            }
            _ => {
                p.block_imports.clear();
                abs.push(item);
                p.path = abs;
            }
        }
    }
    let list_style = c.byte();
    Tree { list_style, mods, probes }
}

// ------------------------------------------------------------------ the independent resolver

impl Tree {
    fn member(&self, m: usize, name: &str) -> Option<Item> {
        let md = &self.mods[m];
        if let Some(t) = md.fns.get(name) {
            return Some(Item::Fn(*t));
        }
        if let Some(v) = md.consts.get(name) {
            return Some(Item::Const(*v));
        }
        if name == "Color" && md.has_type {
            return Some(Item::Type(m));
        }
        md.children.iter().find(|c| self.mods[**c].name == name).map(|c| Item::Module(*c))
    }

    /// Later segments: only among the direct members of the item before them.
    fn walk(&self, mut cur: Item, rest: &[String]) -> Option<Item> {
        for seg in rest {
            match cur {
                Item::Module(m) => {
                    if seg == "super" || seg == "pkg" {
                        return None;
                    }
                    cur = self.member(m, seg)?;
                }
                _ => return None,
            }
        }
        Some(cur)
    }

    /// Resolve a path written in module `m`, where `first` resolves the first ordinary identifier.
    fn resolve_path(&self, m: usize, path: &[String], first: &dyn Fn(&str) -> Option<Item>) -> Option<Item> {
        if path[0] == "pkg" {
            return self.walk(Item::Module(0), &path[1..]);
        }
        if path[0] == "super" {
            let mut cur = m;
            let mut i = 0;
            while i < path.len() && path[i] == "super" {
                cur = self.mods[cur].parent?;
                i += 1;
            }
            return self.walk(Item::Module(cur), &path[i..]);
        }
        let start = first(&path[0])?;
        self.walk(start, &path[1..])
    }

    /// module scope: declarations, then the module's imports; its enclosing scope is the global scope
    fn module_lookup(&self, m: usize, name: &str, depth: u32) -> Option<Item> {
        if let Some(i) = self.member(m, name) {
            return Some(i);
        }
        if depth > 6 {
            return None; // import chains that do not bottom out
        }
        for imp in &self.mods[m].imports {
            if imp.last().map(|s| s.as_str()) == Some(name) {
                return self.resolve_path(m, imp, &|n| self.module_lookup(m, n, depth + 1));
            }
        }
        None
    }

    /// is every module-level import resolvable? (an unresolvable import is a compile error)
    fn imports_ok(&self) -> bool {
        (0..self.mods.len()).all(|m| self.mods[m].imports.iter().all(|imp| self.resolve_path(m, imp, &|n| self.module_lookup_excluding(m, n, imp)).is_some()))
    }

    /// first segment of an import path: looked up in the module scope, but not through the import itself
    fn module_lookup_excluding(&self, m: usize, name: &str, skip: &Vec<String>) -> Option<Item> {
        if let Some(i) = self.member(m, name) {
            return Some(i);
        }
        for imp in &self.mods[m].imports {
            if std::ptr::eq(imp, skip) {
                continue;
            }
            if imp.last().map(|s| s.as_str()) == Some(name) {
                return self.resolve_path(m, imp, &|n| self.module_lookup(m, n, 1));
            }
        }
        None
    }

    fn resolve_probe(&self, p: &Probe) -> Option<Item> {
        let m = p.module;
        let from = if p.nested_use { 1 } else { 0 };
        // every block import must itself resolve; its first segment is looked up from its own
        // block outward (the other imports of that block and of the enclosing blocks included)
        for (bd, imp) in &p.block_imports {
            let dd = *bd;
            self.resolve_path(m, imp, &|n| self.block_lookup(p, n, dd, Some(imp), 8))?;
        }
        // imports of a sibling / neighbouring nested block: they see the function block, not
        // the block that holds the use
        for imp in p.sibling_imports.iter().chain(p.decoy.iter()) {
            self.resolve_path(m, imp, &|n| self.block_lookup(p, n, 0, None, 8))?;
        }
        self.resolve_path(m, &p.path, &|n| self.block_lookup(p, n, from, None, 8))
    }

    /// scopes from the inside out: nested block (depth 1), function block (depth 0), module,
    /// global; per block its declarations, then its imports. `skip` is the import whose own
    /// path is being resolved (an import does not see itself).
    fn block_lookup(&self, p: &Probe, name: &str, from_depth: usize, skip: Option<&Vec<String>>, fuel: u32) -> Option<Item> {
        if fuel == 0 {
            return None; // imports that only lead to each other
        }
        let m = p.module;
        let mut d = from_depth as i32;
        while d >= 0 {
            if d == 0 {
                if let Some((n, v)) = &p.local {
                    if n == name {
                        return Some(Item::Local(*v));
                    }
                }
            }
            for (bd, imp) in &p.block_imports {
                if *bd as i32 == d && Some(imp) != skip && imp.last().map(|s| s.as_str()) == Some(name) {
                    let dd = d as usize;
                    return self.resolve_path(m, imp, &|n| self.block_lookup(p, n, dd, Some(imp), fuel - 1));
                }
            }
            d -= 1;
        }
        self.module_lookup(m, name, 0)
    }

    fn module_path(&self, m: usize) -> Vec<String> {
        let mut v = Vec::new();
        let mut cur = Some(m);
        while let Some(x) = cur {
            if x != 0 {
                v.push(self.mods[x].name.clone());
            }
            cur = self.mods[x].parent;
        }
        v.reverse();
        v
    }
}

// ------------------------------------------------------------------ rendering

fn render_module(t: &Tree, m: usize) -> String {
    let md = &t.mods[m];
    let mut s = String::new();
    let _ = writeln!(s, "{}", import_text(&md.imports.iter().collect::<Vec<_>>(), t.list_style));
    for (f, tag) in &md.fns {
        if is_fm(f) {
            let _ = writeln!(s, "filtermap {f}() {{ accept {tag} }}");
        } else {
            let _ = writeln!(s, "fn {f}() -> i32 {{ {tag} }}");
        }
    }
    for (k, v) in &md.consts {
        let _ = writeln!(s, "const {k}: i32 = {v};");
    }
    if md.has_type {
        // a variant may hold the same-named type of a child module: two types of one name in two modules,
        // one inside the other, are not a cycle
        match md.children.iter().find(|c| t.mods[**c].has_type) {
            Some(c) => {
                let cn = &t.mods[*c].name;
                let _ = writeln!(s, "enum Color {{ Red, Green, Deep({cn}.Color) }}\nfn color_depth() -> i32 {{ match Color.Deep({cn}.Color.Green) {{ Deep(zc) => 1, _ => 0 }} }}");
            }
            None => {
                let _ = writeln!(s, "enum Color {{ Red, Green }}");
            }
        }
    } else if let Some(c) = md.children.iter().find(|c| t.mods[**c].has_type) {
        // a type declaration whose field type comes through a top-level import of the module
        if !md.imports.iter().any(|q| q.last().map(|x| x == "Color").unwrap_or(false)) {
            let cn = &t.mods[*c].name;
            let _ = writeln!(s, "import {cn}.Color;\nrecord Holder {{ c: Color, n: i32 }}\nfn holder_depth() -> i32 {{ let h = Holder {{ c: Color.Green, n: 2 }}; match h.c {{ Green => h.n, _ => 0 }} }}");
        }
    }
    for (i, p) in t.probes.iter().enumerate() {
        if p.module != m {
            continue;
        }
        let is_fn = FN_NAMES.contains(&p.path.last().unwrap().as_str());
        let use_expr = if is_fn { call_text(&p.path) } else { p.path.join(".") };
        let _ = writeln!(s, "fn probe_{i}() -> i32 {{");
        let imports_at = |d: usize| -> String { import_text(&p.block_imports.iter().filter(|(bd, _)| *bd == d).map(|(_, q)| q).collect::<Vec<_>>(), t.list_style / 4) };
        if let Some((n, v)) = &p.local {
            let _ = writeln!(s, "    let {n} = {v};");
        }
        if !p.import_after_use {
            let _ = writeln!(s, "    {}", imports_at(0));
        }
        let zmatch = |u: &str| format!("match Option.Some(0) {{ Some(z) => {u} + z, None => 0 }}");
        let decoy_block = if p.decoy.is_empty() {
            String::new()
        } else {
            let d: Vec<String> = p.decoy.iter().map(|q| format!("import {};", q.join("."))).collect();
            let d = d.join(" ");
            match p.decoy_shape % 6 {
                // (5: the decoy is the body of a match arm whose guard holds the use, see below)
                5 => String::new(),
                0 => format!("    {{ {d} 0 }};\n"),
                1 => format!("    if true {{ {d} }}\n"),
                2 => format!("    let zd = {{ {d} 5 }};\n"),
                3 => format!("    for zq in [0] {{ {d} }}\n"),
                _ => format!("    {{ {d} }};\n"),
            }
        };
        let decoy_first = p.decoy_shape / 6 % 2 == 0;
        let mut tail = "r".to_string();
        if !p.sibling_imports.is_empty() {
            let sib: Vec<String> = p.sibling_imports.iter().map(|q| format!("import {};", q.join("."))).collect();
            let _ = writeln!(s, "    let r = if false {{");
            let _ = writeln!(s, "        {}", sib.join(" "));
            let _ = writeln!(s, "        0");
            let _ = writeln!(s, "    }} else {{");
            if !p.import_after_use {
                let _ = writeln!(s, "        {}", imports_at(1));
            }
            let _ = writeln!(s, "        let q = {use_expr};");
            if p.import_after_use {
                let _ = writeln!(s, "        {}", imports_at(1));
            }
            let _ = writeln!(s, "        q");
            let _ = writeln!(s, "    }};");
        } else if p.nested_use {
            let i1 = imports_at(1);
            match p.shape % 6 {
                1 => {
                    // plain block without a `let`
                    let _ = writeln!(s, "    let r = {{ {i1} {use_expr} }};");
                }
                2 => {
                    // block whose value is a match
                    let _ = writeln!(s, "    let r = {{\n        {i1}\n        {}\n    }};", zmatch(&use_expr));
                }
                3 => {
                    // match arm body
                    let _ = writeln!(s, "    let r = match Option.Some(0) {{\n        Some(z) => {{ {i1} {use_expr} + z }}\n        None => 0,\n    }};");
                }
                4 => {
                    let _ = writeln!(s, "    let r = 0;\n    for z in [0] {{");
                    if !p.import_after_use {
                        let _ = writeln!(s, "        {i1}");
                    }
                    let _ = writeln!(s, "        r = {use_expr} + z;");
                    if p.import_after_use {
                        let _ = writeln!(s, "        {i1}");
                    }
                    let _ = writeln!(s, "    }}");
                }
                5 => {
                    let _ = writeln!(s, "    let r = 0;\n    let zw = 0;\n    while zw < 1 {{");
                    if !p.import_after_use {
                        let _ = writeln!(s, "        {i1}");
                    }
                    let _ = writeln!(s, "        r = {use_expr};\n        zw = zw + 1;");
                    if p.import_after_use {
                        let _ = writeln!(s, "        {i1}");
                    }
                    let _ = writeln!(s, "    }}");
                }
                _ => {
                    let _ = writeln!(s, "    let r = if true {{");
                    if !p.import_after_use {
                        let _ = writeln!(s, "        {i1}");
                    }
                    let _ = writeln!(s, "        let q = {use_expr};");
                    if p.import_after_use {
                        let _ = writeln!(s, "        {i1}");
                    }
                    let _ = writeln!(s, "        q");
                    let _ = writeln!(s, "    }} else {{ 0 }};");
                }
            }
        } else {
            if decoy_first {
                s.push_str(&decoy_block);
            }
            let guard_form = !p.decoy.is_empty() && p.decoy_shape % 6 == 5;
            match p.shape % 4 {
                _ if guard_form => {
                    // the use stands in the examinee and in the guard of an arm whose body imports a
                    // decoy: the guard is outside that body
                    let d: Vec<String> = p.decoy.iter().map(|q| format!("import {};", q.join("."))).collect();
                    let _ = writeln!(s, "    let r = match Option.Some({use_expr}) {{\n        Some(z) if z == {use_expr} => {{ {} z }}\n        _ => -1,\n    }};", d.join(" "));
                }
                // the use is the value of the function body itself
                1 if !p.import_after_use => tail = use_expr.clone(),
                2 if !p.import_after_use => tail = zmatch(&use_expr),
                3 if !p.import_after_use => tail = format!("if true {{ {use_expr} }} else {{ 0 }}"),
                _ => {
                    let _ = writeln!(s, "    let r = {use_expr};");
                }
            }
            if !decoy_first {
                if tail == "r" {
                    s.push_str(&decoy_block);
                } else {
                    // nothing may follow the value of the body: the block goes in front
                    let at = s.rfind("\nfn probe_").map(|k| k + 1).unwrap_or(0);
                    let head_end = s[at..].find('\n').map(|k| at + k + 1).unwrap_or(s.len());
                    s.insert_str(head_end, &decoy_block);
                }
            }
        }
        if p.import_after_use {
            let _ = writeln!(s, "    {}", imports_at(0));
        }
        let _ = writeln!(s, "    {tail}\n}}");
    }
    s
}

fn spec(t: &Tree, m: usize) -> FileSpec {
    let md = &t.mods[m];
    let path = t.module_path(m).join("/");
    let sf = SourceFile {
        name: if m == 0 { "pkg.roto".into() } else { format!("{path}.roto") },
        module_name: md.name.clone(),
        contents: render_module(t, m),
        location_offset: 0,
        children: Vec::new(),
    };
    if md.children.is_empty() {
        FileSpec::File(sf)
    } else {
        FileSpec::Directory(sf, md.children.iter().map(|c| spec(t, *c)).collect())
    }
}

fn write_disk(t: &Tree, root: &PathBuf) -> std::io::Result<()> {
    let _ = std::fs::remove_dir_all(root);
    std::fs::create_dir_all(root)?;
    for m in 0..t.mods.len() {
        let md = &t.mods[m];
        let text = render_module(t, m);
        if m == 0 {
            std::fs::write(root.join("pkg.roto"), text)?;
            continue;
        }
        let mp = t.module_path(m);
        let parent_dir = mp[..mp.len() - 1].iter().fold(root.clone(), |p, s| p.join(s));
        if !md.children.is_empty() || md.as_dir {
            let d = parent_dir.join(&md.name);
            std::fs::create_dir_all(&d)?;
            std::fs::write(d.join("mod.roto"), text)?;
        } else {
            std::fs::create_dir_all(&parent_dir)?;
            std::fs::write(parent_dir.join(format!("{}.roto", md.name)), text)?;
        }
    }
    // files that are not modules: only `*.roto` files (and directories with a mod.roto) belong to the package
    let salt = t.mods.len() + t.probes.len() + t.mods.iter().map(|m| m.fns.len() + m.imports.len()).sum::<usize>();
    if salt % 3 != 0 {
        std::fs::write(root.join("LICENSE"), "this is not roto {{{ é\n")?;
        std::fs::write(root.join("notes.txt"), "fn f() -> i32 { 999 }\n")?;
        // valid roto text in files without the extension, named like the modules scripts refer to
        for n in MOD_NAMES {
            let p = root.join(n);
            if !p.exists() {
                std::fs::write(p, "fn f() -> i32 { 999 }\nfn g() -> i32 { 998 }\nconst K: i32 = 997;\n")?;
            }
        }
        std::fs::write(root.join("pkg"), "fn f() -> i32 { 996 }\n")?;
        std::fs::write(root.join("a.roto.bak"), "fn f() -> i32 { 995 }\n")?;
    }
    if salt % 4 != 1 {
        // directories that are not modules (no mod.roto in them), in every directory of the tree;
        // enough of them that some come before and some after the module files in any directory order
        let mut dirs = vec![root.clone()];
        for m in 1..t.mods.len() {
            let md = &t.mods[m];
            if !md.children.is_empty() || md.as_dir {
                dirs.push(t.module_path(m).iter().fold(root.clone(), |p, s| p.join(s)));
            }
        }
        for d in dirs {
            for n in [".git", "assets", "0docs", "zz_data", "m_notes", "b.d"] {
                let sd = d.join(n);
                if !sd.exists() {
                    std::fs::create_dir_all(&sd)?;
                    std::fs::write(sd.join("f.roto"), "fn f() -> i32 { 993 }\nfn g() -> i32 { 992 }\n")?;
                }
            }
        }
    }
    // modules that are reached through a symbolic link: the directory (or file) of a top-level module lives
    // outside the package directory and `name` / `name.roto` is a link to it
    let links = PathBuf::from(format!("{}-links", root.display()));
    let _ = std::fs::remove_dir_all(&links);
    if salt % 5 == 2 {
        std::fs::create_dir_all(&links)?;
        for (k, &m) in t.mods[0].children.iter().enumerate() {
            let md = &t.mods[m];
            let name = if !md.children.is_empty() || md.as_dir { md.name.clone() } else { format!("{}.roto", md.name) };
            let from = root.join(&name);
            let to = links.join(format!("{k}-{name}"));
            std::fs::rename(&from, &to)?;
            std::os::unix::fs::symlink(&to, &from)?;
        }
    }
    // links that lead back into the tree (to the directory they are in, to the package directory): a module
    // directory is a module once, however many ways lead to it
    if salt % 7 == 3 {
        for m in 1..t.mods.len() {
            let md = &t.mods[m];
            if !md.children.is_empty() || md.as_dir {
                let d = t.module_path(m).iter().fold(root.clone(), |p, s| p.join(s));
                if d.is_dir() {
                    let _ = std::os::unix::fs::symlink(".", d.join("zz_again"));
                    let _ = std::os::unix::fs::symlink(root, d.join("zz_top"));
                }
            }
        }
    }
    Ok(())
}

struct W {
    rt: Runtime<NoCtx>,
    tmp: PathBuf,
    excl_super_import: bool,
}

impl Tree {
    /// known finding C13-F1: after leading supers (or pkg) the next segment is also found through the
    /// reached module's imports.  Is this path of that shape?
    fn through_import_after_super(&self, m: usize, path: &[String]) -> bool {
        let (start, i) = if path[0] == "pkg" {
            (Some(0), 1)
        } else if path[0] == "super" {
            let mut cur = Some(m);
            let mut i = 0;
            while i < path.len() && path[i] == "super" {
                cur = cur.and_then(|c| self.mods[c].parent);
                i += 1;
            }
            (cur, i)
        } else {
            return false;
        };
        match (start, path.get(i)) {
            (Some(sm), Some(seg)) => self.member(sm, seg).is_none() && self.module_lookup(sm, seg, 0).is_some(),
            _ => false,
        }
    }
}

fn render_tree(t: &Tree) -> String {
    (0..t.mods.len()).map(|m| format!("=== module pkg{}{} ===\n{}", if m == 0 { "" } else { "." }, t.module_path(m).join("."), render_module(t, m))).collect()
}

impl WorkerState for W {
    fn render_only(&mut self, case: &Case) -> String {
        let empty: Vec<u8> = Vec::new();
        render_tree(&decode(case.first().unwrap_or(&empty)))
    }

    fn run(&mut self, case: &Case, render: bool) -> Outcome {
        if case.first().map(|c| c.as_slice()) == Some(b"#!must-fail") {
            // literal tree: ["#!must-fail", relative path, contents, ...] must be rejected with a type error
            let _ = std::fs::remove_dir_all(&self.tmp);
            let mut text = String::new();
            let mut i = 1;
            while i + 1 < case.len() {
                let rel = String::from_utf8_lossy(&case[i]).to_string();
                let body = String::from_utf8_lossy(&case[i + 1]).to_string();
                let p = self.tmp.join(&rel);
                let _ = std::fs::create_dir_all(p.parent().unwrap());
                let _ = std::fs::write(&p, &body);
                let _ = writeln!(text, "=== {rel} ===\n{body}");
                i += 2;
            }
            return match FileTree::read(&self.tmp).and_then(|ft| ft.compile(&self.rt)) {
                Ok(_) => Outcome::fail(format!("resolved-unreachable-name:literal:{:016x}", fnv(text.as_bytes())), format!("the tree compiled although a reference is unreachable under the lookup rules\n{text}")),
                Err(e) if host::render_report(&e).starts_with("Error: Type error") => {
                    let mut o = Outcome::pass();
                    o.nontrivial = true;
                    o.render = Some(text);
                    o
                }
                Err(e) => Outcome::fail("wrong-error-kind", host::render_report(&e)),
            };
        }
        if case.first().map(|c| c.as_slice()) == Some(b"#!main-returns") {
            // literal tree: ["#!main-returns", expected value, relative path, contents, ...]:
            // `fn main() -> i32` of pkg.roto has to return the value the lookup rules designate
            let _ = std::fs::remove_dir_all(&self.tmp);
            let want: i32 = String::from_utf8_lossy(case.get(1).map(|c| c.as_slice()).unwrap_or(b"0")).trim().parse().unwrap_or(0);
            let mut text = String::new();
            let mut i = 2;
            while i + 1 < case.len() {
                let rel = String::from_utf8_lossy(&case[i]).to_string();
                let body = String::from_utf8_lossy(&case[i + 1]).to_string();
                let p = self.tmp.join(&rel);
                let _ = std::fs::create_dir_all(p.parent().unwrap());
                if let Some(target) = body.strip_prefix("@symlink:") {
                    // a symbolic link to another path of the tree (written before this entry)
                    let _ = std::os::unix::fs::symlink(self.tmp.join(target.trim()), &p);
                } else {
                    let _ = std::fs::write(&p, &body);
                }
                let _ = writeln!(text, "=== {rel} ===\n{body}");
                i += 2;
            }
            let sig = format!("resolved-to-wrong-item:literal:{:016x}", fnv(text.as_bytes()));
            return match FileTree::read(&self.tmp).and_then(|ft| ft.compile(&self.rt)) {
                Ok(mut pkg) => match pkg.get_function::<fn() -> i32>("main") {
                    Ok(f) => {
                        let got = f.call();
                        if got == want {
                            let mut o = Outcome::pass();
                            o.nontrivial = true;
                            o.render = Some(text);
                            o
                        } else {
                            Outcome::fail(sig, format!("main() returned {got}, the lookup rules designate {want}\n{text}"))
                        }
                    }
                    Err(e) => Outcome::fail("literal:no-main", format!("{e}\n{text}")),
                },
                Err(e) => Outcome::fail("rejected-reachable-name:literal", format!("{}\n{text}", host::render_report(&e))),
            };
        }
        let empty: Vec<u8> = Vec::new();
        let t = decode(case.first().unwrap_or(&empty));
        let text = render_tree(&t);
        let expected: Vec<Option<Item>> = t.probes.iter().map(|p| t.resolve_probe(p)).collect();
        let imports_ok = t.imports_ok();
        // a probe that resolves to a module or the wrong kind of item is a type error as well
        let kind_ok = |p: &Probe, it: &Item| -> bool {
            let is_fn = FN_NAMES.contains(&p.path.last().unwrap().as_str());
            match it {
                Item::Fn(_) => is_fn,
                Item::Const(_) | Item::Local(_) => !is_fn,
                Item::Module(_) | Item::Type(_) => false,
            }
        };
        if self.excl_super_import {
            let hit = t.probes.iter().any(|p| t.through_import_after_super(p.module, &p.path) || p.block_imports.iter().any(|(_, q)| t.through_import_after_super(p.module, q)) || p.sibling_imports.iter().any(|q| t.through_import_after_super(p.module, q)))
                || (0..t.mods.len()).any(|m| t.mods[m].imports.iter().any(|q| t.through_import_after_super(m, q)));
            if hit {
                let mut o = Outcome::pass();
                o.evals = 0;
                o.excluded.push(("C13-F1".into(), 1));
                return o;
            }
        }
        let all_ok = imports_ok && t.probes.iter().zip(&expected).all(|(p, e)| e.as_ref().map(|it| kind_ok(p, it)).unwrap_or(false));
        let fail = |sig: &str, msg: String| -> Outcome {
            let mut f = Outcome::fail(sig, format!("{msg}\nmodel: imports resolvable = {imports_ok}, probes = {expected:?}\n{text}"));
            f.render = Some(text.clone());
            f
        };
        let mem = FileTree::file_spec(spec(&t, 0)).compile(&self.rt);
        let disk = match write_disk(&t, &self.tmp) {
            Ok(()) => FileTree::read(&self.tmp).and_then(|ft| ft.compile(&self.rt)),
            Err(e) => return Outcome::discard(format!("cannot write the tree to disk: {e}")),
        };
        let mut o = Outcome::pass();
        if mem.is_ok() != disk.is_ok() {
            return fail("memory-vs-disk", format!("in-memory tree compiles: {}, on-disk tree compiles: {}", mem.is_ok(), disk.is_ok()));
        }
        match (all_ok, mem) {
            (false, Ok(_)) => return fail("resolved-unreachable-name", "the tree compiled although the lookup rules reach no suitable item for some reference".into()),
            (true, Err(e)) => return fail("rejected-reachable-name", host::render_report(&e)),
            (false, Err(e)) => {
                let r = host::render_report(&e);
                if !r.starts_with("Error: Type error") {
                    return fail("wrong-error-kind", r);
                }
                o.classes.push("unreachable-name-rejected".into());
                o.nontrivial = true;
            }
            (true, Ok(mut pkg)) => {
                let mut disk = disk.ok().unwrap();
                for (i, (p, e)) in t.probes.iter().zip(&expected).enumerate() {
                    let want = match e {
                        Some(Item::Fn(t)) | Some(Item::Const(t)) | Some(Item::Local(t)) => *t,
                        _ => unreachable!(),
                    };
                    let mut path = t.module_path(p.module);
                    path.push(format!("probe_{i}"));
                    let name = path.join(".");
                    for (which, pk) in [("memory", &mut pkg), ("disk", &mut disk)] {
                        let f = match pk.get_function::<fn() -> i32>(&name) {
                            Ok(f) => f,
                            Err(e) => return fail("get_function-by-path", format!("{name} ({which}): {e}")),
                        };
                        let got = f.call();
                        if got != want {
                            return fail("resolved-to-wrong-item", format!("{name} ({which}) returned {got}, the rules designate the item with tag {want} for `{}`", p.path.join(".")));
                        }
                    }
                    // non-trivial: the name exists in >= 2 places, or super / import involved
                    let last = p.path.last().unwrap();
                    let places = t.mods.iter().filter(|m| m.fns.contains_key(last) || m.consts.contains_key(last)).count();
                    if places >= 2 || p.path.iter().any(|s| s == "super") || !p.block_imports.is_empty() {
                        o.nontrivial = true;
                    }
                }
                // every declared function is retrievable by its module path
                for m in 0..t.mods.len() {
                    for (f, tag) in &t.mods[m].fns {
                        let mut path = t.module_path(m);
                        path.push(f.clone());
                        let name = path.join(".");
                        if is_fm(f) {
                            match pkg.get_function::<fn() -> roto::Verdict<i32, ()>>(&name) {
                                Ok(h) => {
                                    if h.call() != roto::Verdict::Accept(*tag) {
                                        return fail("get_function-wrong-item", format!("get_function(\"{name}\") returned the filtermap with another tag"));
                                    }
                                }
                                Err(e) => return fail("get_function-by-path", format!("{name}: {e}")),
                            }
                            continue;
                        }
                        match pkg.get_function::<fn() -> i32>(&name) {
                            Ok(h) => {
                                if h.call() != *tag {
                                    return fail("get_function-wrong-item", format!("get_function(\"{name}\") returned the function with another tag"));
                                }
                            }
                            Err(e) => return fail("get_function-by-path", format!("{name}: {e}")),
                        }
                    }
                }
                o.classes.push("all-resolved".into());
            }
        }
        if t.probes.iter().any(|p| !p.block_imports.is_empty()) {
            o.classes.push("block-import".into());
        }
        if t.probes.iter().any(|p| p.path.iter().any(|s| s == "super")) {
            o.classes.push("super-path".into());
        }
        if t.mods.iter().any(|m| !m.imports.is_empty()) {
            o.classes.push("module-import".into());
        }
        o.hash = fnv(text.as_bytes());
        if render {
            o.render = Some(text);
        }
        o
    }
}

impl Prop for C13P {
    fn id(&self) -> &'static str {
        "C13"
    }
    fn rule(&self) -> String {
        "module trees (depth <= 3, <= 3 children per module, module names from {a,b,pkgs}) whose modules declare functions {f,g,pkg_h} and constants {K,L} from shared name pools with unique tags, module-level imports (also chains of imports that go through each other's aliases, in random order), and 1-4 probe functions each containing one reference: bare name, relative path, absolute pkg path, 1-3 leading supers, import of an item or of a whole module inside the function body or a nested block (before or after the use), local let shadowing a constant; imports of one scope written as statements, nested lists, one top-level list or leaf-wise lists, two imports of one block going through each other's alias in either order, bundles of imports by absolute path, filtermap items, an `enum Color` in some modules with paths that go through it; the tree is compiled from FileSpec in memory and from a temp directory (pkg.roto, name.roto, name/mod.roto, plus stray files that are not modules: no extension, other extensions, and plain sub-directories without mod.roto). Oracle: an independent resolver implementing the stated lookup rules predicts the tag each probe returns, or that compilation fails with a type error; both layouts agree; every declared function is retrievable by get_function(\"<module path>.<fn>\"). Non-trivial: the referenced name exists in >= 2 modules, or the path uses super, or resolution goes through an import, or the reference is unreachable; distinct by tree text".into()
    }
    fn assumptions(&self) -> Vec<String> {
        vec!["tree size bounded as stated; import aliases are distinct within a scope".into(), "locals only use constant names, so a local never shadows a module or function".into()]
    }
    fn cases(&self, tier: Tier) -> u32 {
        match tier {
            Tier::Quick => 12_000,
            Tier::Thorough => 600_000,
        }
    }
    fn shape(&self, _tier: Tier) -> CaseShape {
        CaseShape::streams(&[200])
    }
    fn worker(&self, excl: &[String]) -> Box<dyn WorkerState> {
        let tmp = crate::runner::verif_root().join(format!("harness/target/tmp-c13/{}", std::process::id()));
        Box::new(W { rt: host::build_runtime(), tmp, excl_super_import: excl.iter().any(|e| e == "C13-F1") })
    }
}
