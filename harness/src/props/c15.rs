//! C15 — Lists behave like one shared growable array.
//!
//! Operation histories over up to 3 (aliasing) handles per element type, issued
//! through the Rust `List<T>` API or through compiled script functions, compared
//! step by step with a shared-vector model; tracked element counts must balance.

use roto::{List, NoCtx, Package, RotoString, Runtime, TypedFunc, Val, Value};

use crate::core::*;
use crate::host::{self, Tr, Tz};

pub struct C15P;
pub static C15: C15P = C15P;

/// element types: a value is determined by a small key
pub trait Elem: Value + Clone + 'static
where
    Self::Transformed: PartialEq,
{
    fn roto_ty() -> &'static str;
    fn from_key(k: u64) -> Self;
    fn key(&self) -> u64;
    /// 0 = untracked, 1 = counted through the Tr live set, 2 = counted through the Tz counter
    fn tracked() -> u8 {
        0
    }
    /// Rust-side contains/index are known to be wrong for this element type (C15-F2)
    fn transformed_differs() -> bool {
        false
    }
}

impl Elem for u8 {
    fn roto_ty() -> &'static str { "u8" }
    fn from_key(k: u64) -> Self { k as u8 }
    fn key(&self) -> u64 { *self as u64 }
}
impl Elem for u64 {
    fn roto_ty() -> &'static str { "u64" }
    fn from_key(k: u64) -> Self { k.wrapping_mul(0x0101_0101_0101_0101) }
    fn key(&self) -> u64 { *self & 0xff }
}
impl Elem for RotoString {
    fn roto_ty() -> &'static str { "String" }
    fn from_key(k: u64) -> Self { RotoString::from(format!("s{}é", k)) }
    fn key(&self) -> u64 { self.to_string().trim_start_matches('s').trim_end_matches('é').parse().unwrap_or(999) }
}
impl Elem for List<u64> {
    fn roto_ty() -> &'static str { "List[u64]" }
    fn from_key(k: u64) -> Self { List::from((0..(k % 4)).map(|i| k + i).collect::<Vec<u64>>()) }
    fn key(&self) -> u64 { self.to_vec().first().copied().unwrap_or(0) }
}
impl Elem for Val<Tz> {
    fn roto_ty() -> &'static str { "Tz" }
    fn from_key(_k: u64) -> Self { Val(Tz::new()) }
    fn key(&self) -> u64 { 0 }
    fn tracked() -> u8 { 2 }
}
impl Elem for Val<Tr> {
    fn roto_ty() -> &'static str { "Tr" }
    fn from_key(k: u64) -> Self { Val(Tr::new(k as i32)) }
    fn key(&self) -> u64 { self.0.tag as u64 }
    fn tracked() -> u8 { 1 }
}
impl Elem for Option<u32> {
    fn roto_ty() -> &'static str { "Option[u32]" }
    fn from_key(k: u64) -> Self { if k % 4 == 0 { None } else { Some(k as u32) } }
    fn key(&self) -> u64 { self.map(|x| x as u64).unwrap_or(0) }
    fn transformed_differs() -> bool { true }
}
impl Elem for Option<RotoString> {
    fn roto_ty() -> &'static str { "Option[String]" }
    fn from_key(k: u64) -> Self { if k % 4 == 0 { None } else { Some(RotoString::from(format!("{k}"))) } }
    fn key(&self) -> u64 { self.as_ref().map(|s| s.to_string().parse().unwrap_or(999)).unwrap_or(0) }
    fn transformed_differs() -> bool { true }
}

/// normalise a key the way from_key/key round-trips it
fn norm<T: Elem>(k: u64) -> u64
where
    T::Transformed: PartialEq,
{
    T::from_key(k).key()
}

struct Scripts<T: Elem>
where
    T::Transformed: PartialEq,
{
    _pkg: Package<NoCtx>,
    push: TypedFunc<NoCtx, fn(List<T>, T)>,
    get: TypedFunc<NoCtx, fn(List<T>, u64) -> Option<T>>,
    len: TypedFunc<NoCtx, fn(List<T>) -> u64>,
    is_empty: TypedFunc<NoCtx, fn(List<T>) -> bool>,
    swap: TypedFunc<NoCtx, fn(List<T>, u64, u64)>,
    concat: TypedFunc<NoCtx, fn(List<T>, List<T>) -> List<T>>,
    plus: TypedFunc<NoCtx, fn(List<T>, List<T>) -> List<T>>,
    contains: TypedFunc<NoCtx, fn(List<T>, T) -> bool>,
    index: TypedFunc<NoCtx, fn(List<T>, T) -> Option<u64>>,
    eq: TypedFunc<NoCtx, fn(List<T>, List<T>) -> bool>,
    ne: TypedFunc<NoCtx, fn(List<T>, List<T>) -> bool>,
    lit2: TypedFunc<NoCtx, fn(T, T) -> List<T>>,
    lit_exit: TypedFunc<NoCtx, fn(T, T, bool) -> Option<List<T>>>,
    lit_after: TypedFunc<NoCtx, fn(T, T, bool) -> List<T>>,
    count: TypedFunc<NoCtx, fn(List<T>) -> u64>,
    copy: TypedFunc<NoCtx, fn(List<T>) -> List<T>>,
    pushpush: TypedFunc<NoCtx, fn(List<T>, T, T) -> u64>,
    pluseq: TypedFunc<NoCtx, fn(List<T>, T, T) -> List<T>>,
    growfor: TypedFunc<NoCtx, fn(List<T>, u64) -> u64>,
}

fn script_src(ty: &str) -> String {
    format!(
        "fn s_push(l: List[{ty}], v: {ty}) {{ l.push(v); }}
fn s_get(l: List[{ty}], i: u64) -> {ty}? {{ l.get(i) }}
fn s_len(l: List[{ty}]) -> u64 {{ l.len() }}
fn s_is_empty(l: List[{ty}]) -> bool {{ l.is_empty() }}
fn s_swap(l: List[{ty}], i: u64, j: u64) {{ l.swap(i, j); }}
fn s_concat(a: List[{ty}], b: List[{ty}]) -> List[{ty}] {{ a.concat(b) }}
fn s_plus(a: List[{ty}], b: List[{ty}]) -> List[{ty}] {{ a + b }}
fn s_contains(l: List[{ty}], v: {ty}) -> bool {{ l.contains(v) }}
fn s_index(l: List[{ty}], v: {ty}) -> u64? {{ l.index(v) }}
fn s_eq(a: List[{ty}], b: List[{ty}]) -> bool {{ a == b }}
fn s_ne(a: List[{ty}], b: List[{ty}]) -> bool {{ a != b }}
fn s_lit2(a: {ty}, b: {ty}) -> List[{ty}] {{ [a, b] }}
fn s_lit_exit(a: {ty}, b: {ty}, leave: bool) -> List[{ty}]? {{
    Option.Some([a, {{ if leave {{ return Option.None; }}; b }}])
}}
fn s_lit_after(a: {ty}, b: {ty}, taken: bool) -> List[{ty}] {{
    if taken {{
        let early = [b];
        early.push(a);
        let none: List[{ty}] = List.new();
        none.push(b);
    }}
    let i = 0u64;
    while taken && i < 2 {{
        let inner: List[{ty}] = [];
        inner.push(a);
        i = i + 1;
    }}
    let out = [a];
    let rest: List[{ty}] = List.new();
    rest.push(b);
    out + rest
}}
fn s_count(l: List[{ty}]) -> u64 {{
    let n = 0u64;
    for x in l {{
        n = n + 1;
    }}
    n
}}
fn s_copy(l: List[{ty}]) -> List[{ty}] {{
    let out: List[{ty}] = [];
    for x in l {{
        out.push(x);
    }}
    out
}}
fn s_pushpush(l: List[{ty}], a: {ty}, b: {ty}) -> u64 {{
    let alias = l;
    alias.push(a);
    l.push(b);
    alias.len()
}}
fn s_pluseq(l: List[{ty}], a: {ty}, b: {ty}) -> List[{ty}] {{
    let t = l;
    t += [a];
    t += [a, b];
    t
}}
fn s_growfor(l: List[{ty}], cap: u64) -> u64 {{
    let alias = l;
    let n = 0u64;
    for x in l {{
        n = n + 1;
        if alias.len() < cap {{
            alias.push(x);
        }}
    }}
    n
}}
"
    )
}

impl<T: Elem> Scripts<T>
where
    T::Transformed: PartialEq,
{
    fn new(rt: &Runtime<NoCtx>) -> Result<Self, String> {
        let src = script_src(T::roto_ty());
        let mut p = host::compile(rt, &src)?;
        macro_rules! g {
            ($name:literal) => {
                p.get_function($name).map_err(|e| format!("{}: {e}", $name))?
            };
        }
        Ok(Scripts {
            push: g!("s_push"),
            get: g!("s_get"),
            len: g!("s_len"),
            is_empty: g!("s_is_empty"),
            swap: g!("s_swap"),
            concat: g!("s_concat"),
            plus: g!("s_plus"),
            contains: g!("s_contains"),
            index: g!("s_index"),
            eq: g!("s_eq"),
            ne: g!("s_ne"),
            lit2: g!("s_lit2"),
            lit_exit: g!("s_lit_exit"),
            lit_after: g!("s_lit_after"),
            count: g!("s_count"),
            copy: g!("s_copy"),
            pushpush: g!("s_pushpush"),
            pluseq: g!("s_pluseq"),
            growfor: g!("s_growfor"),
            _pkg: p,
        })
    }
}

pub struct Stats {
    pub ops: u64,
    pub growths: u32,
    pub aliases_used: bool,
    pub self_concat: bool,
    pub eq_distinct: bool,
    pub trace: Vec<String>,
    pub excluded: u64,
}

const SLOTS: usize = 3;

fn idx_of(b: u8, len: usize) -> u64 {
    match b % 8 {
        0 => 0,
        1 => len.saturating_sub(1) as u64,
        2 => len as u64,
        3 => len as u64 + 1,
        4 => u64::MAX,
        5 => (len / 2) as u64,
        _ => (b as u64 / 8) % (len as u64 + 2),
    }
}

fn run_history<T: Elem>(rt: &Runtime<NoCtx>, sc: &Scripts<T>, ops: &[Vec<u8>], excl_f2: bool) -> Result<Stats, (String, String)>
where
    T::Transformed: PartialEq,
{
    let _ = rt;
    let mut st = Stats { ops: 0, growths: 0, aliases_used: false, self_concat: false, eq_distinct: false, trace: vec![], excluded: 0 };
    // model: storages and which storage each slot refers to
    let mut storages: Vec<Vec<u64>> = Vec::new();
    let mut slots: Vec<Option<(List<T>, usize)>> = (0..SLOTS).map(|_| None).collect();
    host::reset(vec![]);
    let live_now = || -> i64 {
        let (tr, tz) = host::live_count();
        if T::tracked() == 2 { tz } else { tr as i64 }
    };
    let live_base = live_now();
    let ty = T::roto_ty();
    let fail = |sig: &str, msg: String, trace: &[String]| -> (String, String) {
        (format!("{sig}:{ty}"), format!("{msg}\nelement type {ty}; history:\n  {}", trace.join("\n  ")))
    };
    macro_rules! bail {
        ($sig:expr, $($arg:tt)*) => { return Err(fail($sig, format!($($arg)*), &st.trace)) };
    }
    for op in ops {
        if op.len() < 5 {
            continue;
        }
        let (code, a, b, v, via) = (op[0] % 21, op[1] as usize % SLOTS, op[2] as usize % SLOTS, op[3] as u64 % 7, op[4] % 2 == 1);
        let how = if via { "script" } else { "rust" };
        st.ops += 1;
        if std::env::var_os("VERIF_TRACE").is_some() {
            eprintln!("op code={code} a={a} b={b} v={v} via={via}; trace so far: {:?}", st.trace.last());
        }
        // slot a must hold a list for most operations: create one on demand
        if slots[a].is_none() && code != 0 {
            storages.push(Vec::new());
            slots[a] = Some((List::<T>::new(), storages.len() - 1));
            st.trace.push(format!("h{a} = new"));
        }
        match code {
            0 => {
                storages.push(Vec::new());
                slots[a] = Some((List::<T>::new(), storages.len() - 1));
                st.trace.push(format!("h{a} = new"));
            }
            1 => {
                // alias: h[b] = clone of h[a]
                let (l, s) = slots[a].as_ref().unwrap();
                let c = (l.clone(), *s);
                slots[b] = Some(c);
                st.aliases_used = true;
                st.trace.push(format!("h{b} = h{a}.clone()"));
            }
            2 => {
                slots[a] = None;
                st.trace.push(format!("drop h{a}"));
            }
            3 | 4 | 5 => {
                let (l, s) = slots[a].as_ref().unwrap();
                let before = storages[*s].len();
                if via {
                    sc.push.call(l.clone(), T::from_key(v));
                } else {
                    l.push(T::from_key(v));
                }
                storages[*s].push(norm::<T>(v));
                if before > 0 && before.is_power_of_two() && before >= 4 {
                    st.growths += 1;
                }
                st.trace.push(format!("h{a}.push({v}) [{how}]"));
            }
            6 => {
                let (l, s) = slots[a].as_ref().unwrap();
                let i = idx_of(op[3], storages[*s].len());
                let got = if via { sc.get.call(l.clone(), i) } else { usize::try_from(i).ok().and_then(|i| l.get(i)) };
                let exp = usize::try_from(i).ok().and_then(|i| storages[*s].get(i).copied());
                st.trace.push(format!("h{a}.get({i}) [{how}]"));
                if got.as_ref().map(|x| x.key()) != exp {
                    bail!("get", "get({i}) returned {:?}, the shared vector has {:?}", got.as_ref().map(|x| x.key()), exp);
                }
            }
            7 => {
                let (l, s) = slots[a].as_ref().unwrap();
                let (n, e, cap) = if via { (sc.len.call(l.clone()) as usize, sc.is_empty.call(l.clone()), usize::MAX) } else { (l.len(), l.is_empty(), l.capacity()) };
                st.trace.push(format!("h{a}.len()/is_empty()/capacity() [{how}]"));
                if n != storages[*s].len() || e != storages[*s].is_empty() {
                    bail!("len", "len {n} / is_empty {e}, the shared vector has {} elements", storages[*s].len());
                }
                if cap < n {
                    bail!("capacity", "capacity {cap} < len {n}");
                }
            }
            8 => {
                let (l, s) = slots[a].as_ref().unwrap();
                let n = storages[*s].len();
                let (i, j) = (idx_of(op[2], n), idx_of(op[3], n));
                if via {
                    sc.swap.call(l.clone(), i, j);
                } else if let (Ok(i), Ok(j)) = (usize::try_from(i), usize::try_from(j)) {
                    l.swap(i, j);
                }
                if let (Ok(i), Ok(j)) = (usize::try_from(i), usize::try_from(j)) {
                    if i < n && j < n {
                        storages[*s].swap(i, j);
                    }
                }
                st.trace.push(format!("h{a}.swap({i}, {j}) [{how}]"));
            }
            9 | 10 => {
                // concat into slot (b+1)%SLOTS, operands may be the same handle
                if slots[b].is_none() {
                    storages.push(Vec::new());
                    slots[b] = Some((List::<T>::new(), storages.len() - 1));
                }
                let (la, sa) = slots[a].as_ref().unwrap();
                let (lb, sb) = slots[b].as_ref().unwrap();
                let r = if via {
                    if code == 9 { sc.concat.call(la.clone(), lb.clone()) } else { sc.plus.call(la.clone(), lb.clone()) }
                } else {
                    la.concat(lb)
                };
                if sa == sb {
                    st.self_concat = true;
                }
                let mut nv = storages[*sa].clone();
                nv.extend(storages[*sb].iter().copied());
                let (before_a, before_b) = (storages[*sa].clone(), storages[*sb].clone());
                let got: Vec<u64> = r.to_vec().iter().map(|x| x.key()).collect();
                st.trace.push(format!("h{} = h{a} ++ h{b} [{how}]", (b + 1) % SLOTS));
                if got != nv {
                    bail!("concat", "concatenation gave {got:?}, expected {nv:?}");
                }
                let now_a: Vec<u64> = la.to_vec().iter().map(|x| x.key()).collect();
                let now_b: Vec<u64> = lb.to_vec().iter().map(|x| x.key()).collect();
                if now_a != before_a || now_b != before_b {
                    bail!("concat-mutated-operand", "operands after concat: {now_a:?} / {now_b:?}, before: {before_a:?} / {before_b:?}");
                }
                storages.push(nv);
                slots[(b + 1) % SLOTS] = Some((r, storages.len() - 1));
            }
            11 | 12 => {
                let (l, s) = slots[a].as_ref().unwrap();
                if !via && T::transformed_differs() && excl_f2 {
                    st.excluded += 1;
                    continue;
                }
                let item = T::from_key(v);
                let k = norm::<T>(v);
                if code == 11 {
                    let got = if via { sc.contains.call(l.clone(), item) } else { l.contains(&item) };
                    let exp = storages[*s].contains(&k);
                    st.trace.push(format!("h{a}.contains({v}) [{how}]"));
                    if got != exp {
                        bail!(&format!("needle:contains-{how}"), "contains({v}) returned {got}, the shared vector {:?} says {exp}", storages[*s]);
                    }
                } else {
                    let got = if via { sc.index.call(l.clone(), item).map(|x| x as usize) } else { l.index(&item) };
                    let exp = storages[*s].iter().position(|x| *x == k);
                    st.trace.push(format!("h{a}.index({v}) [{how}]"));
                    if got != exp {
                        bail!(&format!("needle:index-{how}"), "index({v}) returned {got:?}, the shared vector {:?} says {exp:?}", storages[*s]);
                    }
                }
            }
            13 => {
                if slots[b].is_none() {
                    storages.push(Vec::new());
                    slots[b] = Some((List::<T>::new(), storages.len() - 1));
                }
                let (la, sa) = slots[a].as_ref().unwrap();
                let (lb, sb) = slots[b].as_ref().unwrap();
                if sa != sb {
                    st.eq_distinct = true;
                }
                eprintln!("@@ctx list-eq");
                let got = if via { sc.eq.call(la.clone(), lb.clone()) && !sc.ne.call(la.clone(), lb.clone()) } else { la == lb };
                let exp = storages[*sa] == storages[*sb];
                st.trace.push(format!("h{a} == h{b} [{how}]"));
                if got != exp {
                    bail!(&format!("eq-{how}"), "== returned {got}, the shared vectors are {:?} and {:?}", storages[*sa], storages[*sb]);
                }
            }
            14 => {
                // from Vec / array / iterator, or a script list literal
                let (k1, k2) = (op[2] as u64 % 7, op[3] as u64 % 7);
                let l = if via && op[1] % 4 >= 2 {
                    // a literal whose second element may leave the function: nothing may stay behind
                    if sc.lit_exit.call(T::from_key(k1), T::from_key(k2), true).is_some() {
                        bail!("literal-exit", "a list literal whose element expression returns early produced a list");
                    }
                    match sc.lit_exit.call(T::from_key(k1), T::from_key(k2), false) {
                        Some(l) => l,
                        None => bail!("literal-exit", "a list literal without early exit produced no list"),
                    }
                } else if via && op[1] % 4 == 1 {
                    // literals and List.new() that stand behind a branch and a loop which build lists of the same
                    // element type and which may not run
                    let other = sc.lit_after.call(T::from_key(k1), T::from_key(k2), op[2] % 2 == 0);
                    let got: Vec<u64> = other.to_vec().iter().map(|x| x.key()).collect();
                    if got != vec![norm::<T>(k1), norm::<T>(k2)] {
                        bail!("literal-after-branch", "a list built after a branch (taken: {}) holds {got:?}, expected [{k1}, {k2}]", op[2] % 2 == 0);
                    }
                    sc.lit_after.call(T::from_key(k1), T::from_key(k2), op[2] % 2 != 0)
                } else if via {
                    sc.lit2.call(T::from_key(k1), T::from_key(k2))
                } else if op[1] % 2 == 0 {
                    List::from(vec![T::from_key(k1), T::from_key(k2)])
                } else {
                    [T::from_key(k1), T::from_key(k2)].into_iter().collect()
                };
                storages.push(vec![norm::<T>(k1), norm::<T>(k2)]);
                slots[a] = Some((l, storages.len() - 1));
                st.trace.push(format!("h{a} = [{k1}, {k2}] [{how}]"));
            }
            15 => {
                let (l, s) = slots[a].as_ref().unwrap();
                let exp = storages[*s].clone();
                if via {
                    let n = sc.count.call(l.clone()) as usize;
                    let c = sc.copy.call(l.clone());
                    let got: Vec<u64> = c.to_vec().iter().map(|x| x.key()).collect();
                    st.trace.push(format!("for-loop count and copy of h{a} [script]"));
                    if n != exp.len() || got != exp {
                        bail!("for", "for loop visited {n} elements and copied {got:?}, the shared vector is {exp:?}");
                    }
                } else {
                    let got: Vec<u64> = l.clone().into_iter().map(|x| x.key()).collect();
                    let got2: Vec<u64> = l.to_vec().iter().map(|x| x.key()).collect();
                    st.trace.push(format!("h{a}.into_iter() / to_vec() [rust]"));
                    if got != exp || got2 != exp {
                        bail!("iter", "into_iter gave {got:?}, to_vec {got2:?}, the shared vector is {exp:?}");
                    }
                }
            }
            16 => {
                // push through an alias made inside the script, then through the original
                let (l, s) = slots[a].as_ref().unwrap();
                let (k1, k2) = (op[2] as u64 % 7, op[3] as u64 % 7);
                let n = sc.pushpush.call(l.clone(), T::from_key(k1), T::from_key(k2)) as usize;
                storages[*s].push(norm::<T>(k1));
                storages[*s].push(norm::<T>(k2));
                st.aliases_used = true;
                st.trace.push(format!("alias = h{a}; alias.push({k1}); h{a}.push({k2}); alias.len() [script]"));
                if n != storages[*s].len() {
                    bail!("alias-push", "alias.len() = {n} after pushes through both names, expected {}", storages[*s].len());
                }
            }
            17 | 18 => {
                // `t += [a]` on a copy of the handle is `t = t + [a]`: a new list, the operand stays as it was
                let (l, s) = slots[a].as_ref().unwrap();
                let (k1, k2) = (op[2] as u64 % 7, op[3] as u64 % 7);
                let before = storages[*s].clone();
                let t = sc.pluseq.call(l.clone(), T::from_key(k1), T::from_key(k2));
                let got: Vec<u64> = t.to_vec().iter().map(|x| x.key()).collect();
                let mut want = before.clone();
                want.extend([norm::<T>(k1), norm::<T>(k1), norm::<T>(k2)]);
                st.trace.push(format!("t = h{a}; t += [{k1}]; t += [{k1}, {k2}]; t [script]"));
                if got != want {
                    bail!("plus-assign", "t holds {got:?} after the two `+=`, expected {want:?}");
                }
                let now: Vec<u64> = l.to_vec().iter().map(|x| x.key()).collect();
                if now != before {
                    bail!("plus-assign", "`t += ..` changed the list that t was copied from: {now:?}, it held {before:?}");
                }
                // the result has storage of its own: pushing to it does not show through h{a}
                t.push(T::from_key(k2));
                if l.len() != before.len() {
                    bail!("plus-assign", "a push to the result of `+=` is visible through the operand (len {} instead of {})", l.len(), before.len());
                }
                st.aliases_used = true;
                if code == 18 {
                    storages.push({
                        let mut w = want.clone();
                        w.push(norm::<T>(k2));
                        w
                    });
                    slots[b] = Some((t, storages.len() - 1));
                    st.trace.push(format!("h{b} = t; t.push({k2}) [rust]"));
                }
            }
            19 => {
                // a for loop over a list that grows through an alias while it runs visits the new elements too
                let (l, s) = slots[a].as_ref().unwrap();
                let n0 = storages[*s].len();
                let cap = n0 as u64 + op[3] as u64 % 4;
                let got = sc.growfor.call(l.clone(), cap) as usize;
                let mut i = 0;
                while i < storages[*s].len() {
                    if (storages[*s].len() as u64) < cap {
                        let x = storages[*s][i];
                        storages[*s].push(x);
                    }
                    i += 1;
                }
                st.aliases_used = true;
                st.trace.push(format!("for x in h{a} {{ if alias.len() < {cap} {{ alias.push(x) }} }} [script]"));
                if got != i {
                    bail!("for-sees-pushes", "the loop ran {got} times over a list that started with {n0} elements and grew to {} while it ran", storages[*s].len());
                }
            }
            _ => {
                // full content check of every live handle
                for (i, sl) in slots.iter().enumerate() {
                    if let Some((l, s)) = sl {
                        let got: Vec<u64> = l.to_vec().iter().map(|x| x.key()).collect();
                        if got != storages[*s] {
                            bail!("content", "handle h{i} holds {got:?}, the shared vector is {:?}", storages[*s]);
                        }
                    }
                }
                st.trace.push("check all handles".into());
            }
        }
        if T::tracked() != 0 {
            // live elements = sum over storages that still have a handle
            let mut live: std::collections::BTreeSet<usize> = Default::default();
            for sl in slots.iter().flatten() {
                live.insert(sl.1);
            }
            let exp: i64 = live.iter().map(|s| storages[*s].len() as i64).sum();
            let now = live_now();
            let anomalies = host::anomalies();
            if !anomalies.is_empty() {
                bail!("ownership", "{anomalies:?}");
            }
            if now - live_base != exp {
                bail!("tracked-count", "{} tracked elements alive, the model has {exp}", now - live_base);
            }
        }
    }
    // final content check and teardown balance
    for (i, sl) in slots.iter().enumerate() {
        if let Some((l, s)) = sl {
            let got: Vec<u64> = l.to_vec().iter().map(|x| x.key()).collect();
            if got != storages[*s] {
                bail!("content", "at the end handle h{i} holds {got:?}, the shared vector is {:?}", storages[*s]);
            }
        }
    }
    slots.clear();
    if T::tracked() != 0 {
        let now = live_now();
        if now != live_base {
            bail!("tracked-count", "{} tracked elements alive after all handles were dropped", now - live_base);
        }
    }
    Ok(st)
}

trait Runner {
    fn name(&self) -> &'static str;
    fn run(&self, rt: &Runtime<NoCtx>, ops: &[Vec<u8>], excl_f2: bool) -> Result<Stats, (String, String)>;
}

struct TypedRunner<T: Elem>
where
    T::Transformed: PartialEq,
{
    sc: Scripts<T>,
}

impl<T: Elem> Runner for TypedRunner<T>
where
    T::Transformed: PartialEq,
{
    fn name(&self) -> &'static str {
        T::roto_ty()
    }
    fn run(&self, rt: &Runtime<NoCtx>, ops: &[Vec<u8>], excl_f2: bool) -> Result<Stats, (String, String)> {
        run_history::<T>(rt, &self.sc, ops, excl_f2)
    }
}

struct W {
    rt: Runtime<NoCtx>,
    runners: Vec<Box<dyn Runner>>,
    excl_f2: bool,
    excl_tz: bool,
}

impl WorkerState for W {
    fn render_only(&mut self, case: &Case) -> String {
        format!("{} operations (see failure message for the decoded history)", case.len().saturating_sub(1))
    }

    fn run(&mut self, case: &Case, render: bool) -> Outcome {
        let empty: Vec<u8> = Vec::new();
        let ctl = case.first().unwrap_or(&empty);
        let mut k = ctl.first().copied().unwrap_or(0) as usize % self.runners.len();
        if self.excl_tz && self.runners[k].name() == "Tz" {
            k = 0;
        }
        let ops = &case[1.min(case.len())..];
        eprintln!("@@ctx type={}", self.runners[k].name());
        let mut o = Outcome::pass();
        match self.runners[k].run(&self.rt, ops, self.excl_f2) {
            Ok(st) => {
                o.evals = st.ops.max(1);
                o.nontrivial = (st.growths >= 1 && st.aliases_used) || st.self_concat || st.eq_distinct;
                o.classes.push(format!("elem:{}", self.runners[k].name()));
                if st.growths > 0 {
                    o.classes.push("crossed-growth-boundary".into());
                }
                if st.self_concat {
                    o.classes.push("self-concat".into());
                }
                if st.eq_distinct {
                    o.classes.push("eq-distinct-storages".into());
                }
                if st.aliases_used {
                    o.classes.push("aliases".into());
                }
                if st.excluded > 0 {
                    o.excluded.push(("C15-F2".into(), st.excluded));
                }
                let text = format!("elem {}:\n  {}", self.runners[k].name(), st.trace.join("\n  "));
                o.hash = fnv(text.as_bytes());
                if render {
                    o.render = Some(text);
                }
                o
            }
            Err((sig, msg)) => {
                let mut f = Outcome::fail(sig, msg.clone());
                f.render = Some(msg);
                f
            }
        }
    }
}

impl Prop for C15P {
    fn id(&self) -> &'static str {
        "C15"
    }
    fn rule(&self) -> String {
        "operation histories (one proptest chunk per operation, up to 60) over 3 handle slots with arbitrary aliasing, for element types u8, u64, String, List[u64], zero-sized tracked Tz, 24-byte tracked Tr, Option[u32], Option[String]; operations new / clone handle / drop handle / push / get / len / is_empty / capacity / swap / concat and + (incl. self) / contains / index / == and != / from Vec, array, iterator and script literal / into_iter, to_vec and for loops / pushes through a script-made alias / `+=` on a copy of the handle / a for loop over a list that grows through an alias while it runs, each issued through the Rust List API or a compiled script function; indices around 0, len-1, len, len+1, u64::MAX; oracle: every result equals the shared-vector model, concat leaves operands unchanged, tracked element count equals the model's after every step and 0 at the end. Non-trivial: crosses a growth boundary with aliases in use, or self-concat, or == on distinct storages; distinct by decoded history".into()
    }
    fn assumptions(&self) -> Vec<String> {
        vec![
            "single-threaded histories (C16 covers threads)".into(),
            "capacity is only checked as >= len".into(),
            "a hang is reported by the watchdog as inconclusive".into(),
        ]
    }
    fn cases(&self, tier: Tier) -> u32 {
        match tier {
            Tier::Quick => 400_000,
            Tier::Thorough => 3_000_000,
        }
    }
    fn shape(&self, _tier: Tier) -> CaseShape {
        CaseShape::history(&[2], 60, 5)
    }
    fn worker(&self, excl: &[String]) -> Box<dyn WorkerState> {
        let rt = host::build_runtime();
        macro_rules! runner {
            ($t:ty) => {
                Box::new(TypedRunner::<$t> { sc: Scripts::<$t>::new(&rt).expect("list scripts compile") }) as Box<dyn Runner>
            };
        }
        let runners: Vec<Box<dyn Runner>> = vec![
            runner!(u8),
            runner!(u64),
            runner!(RotoString),
            runner!(List<u64>),
            runner!(Val<Tz>),
            runner!(Val<Tr>),
            runner!(Option<u32>),
            runner!(Option<RotoString>),
        ];
        Box::new(W {
            rt,
            runners,
            excl_f2: excl.iter().any(|e| e == "C15-F2"),
            excl_tz: excl.iter().any(|e| e == "C03-F3"),
        })
    }
}
