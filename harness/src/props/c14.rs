//! C14 — Constants are evaluated once, in dependency order, before any call.

use std::collections::{BTreeMap, BTreeSet};
use std::fmt::Write as _;

use roto::{Context, FileSpec, FileTree, NoCtx, Runtime, SourceFile};

use crate::core::*;
use crate::host;
use crate::model::{Ev, V};

pub struct C14P;
pub static C14: C14P = C14P;

#[derive(Clone, Context)]
pub struct CCtx {
    pub cx: i32,
}

#[derive(Clone, Debug)]
struct Item {
    is_const: bool,
    module: usize,
    /// items referenced, each with the syntactic form used
    refs: Vec<(usize, u8)>,
    uses_context: bool,
    /// how the context variable is mentioned (plain, method receiver, f-string, argument, comparison)
    ctx_form: u8,
    /// constants: 0 = i32, 1 = a record with a String and the value (needs a generated clone), 2 = unit
    const_kind: u8,
    /// constants: no function reads this constant directly (it is still evaluated, once)
    no_helper: bool,
}

struct Graph {
    /// modules that get a `test` block checking one of their items
    tests: Vec<(usize, usize)>,
    items: Vec<Item>,
    n_modules: usize,
    /// source order of items per module (declaration order is free)
    order: Vec<usize>,
}

fn name(g: &Graph, i: usize) -> String {
    if g.items[i].is_const { format!("K{i}") } else { format!("g{i}") }
}

fn module_path(m: usize) -> String {
    if m == 0 { "pkg".into() } else { format!("pkg.m{m}") }
}

fn decode(ctl: &[u8]) -> Graph {
    let mut c = Choices::new(ctl);
    let n_modules = 1 + c.below(3);
    let n_consts = 2 + c.below(7);
    let n_fns = c.below(6);
    let n = n_consts + n_fns;
    let mut items: Vec<Item> = Vec::new();
    for i in 0..n {
        items.push(Item { is_const: i < n_consts, module: c.below(n_modules), refs: vec![], uses_context: false, ctx_form: 0, const_kind: 0, no_helper: false });
    }
    // a hidden rank makes most graphs acyclic; a few extra edges ignore it
    let mut rank: Vec<usize> = (0..n).collect();
    for i in 0..n.saturating_sub(1) {
        let j = i + c.below(n - i);
        rank.swap(i, j);
    }
    for i in 0..n {
        let k = c.below(4);
        for _ in 0..k {
            let j = c.below(n);
            let form = c.below(10) as u8;
            // edges against the rank make cycles: more often between functions (legal) than through constants (errors)
            let allowed = rank[j] < rank[i] || c.chance(if !items[i].is_const && !items[j].is_const { 45 } else { 10 });
            if allowed && !(items[i].refs.iter().any(|(x, _)| *x == j)) {
                items[i].refs.push((j, form));
            }
        }
    }
    // a planted shape: a constant reaches a group of mutually recursive functions, and the context is
    // read by (or behind) a member of the group other than the one the constant enters through
    if n_fns >= 3 && c.chance(45) {
        let fns: Vec<usize> = (n_consts..n).collect();
        let a = fns[c.below(fns.len())];
        let b = *fns.iter().filter(|x| **x != a).nth(c.below(fns.len() - 1)).unwrap();
        let z = *fns.iter().filter(|x| **x != a && **x != b).nth(c.below(fns.len() - 2)).unwrap();
        let k = c.below(n_consts);
        let mut add = |items: &mut Vec<Item>, from: usize, to: usize, form: u8| {
            if !items[from].refs.iter().any(|(x, _)| *x == to) {
                items[from].refs.push((to, form));
            }
        };
        let f1 = c.below(7) as u8;
        add(&mut items, a, b, f1);
        add(&mut items, b, a, 0);
        let reader = if c.chance(128) { a } else { b };
        if c.chance(170) {
            add(&mut items, reader, z, 0);
            items[z].uses_context = true;
            items[z].ctx_form = c.below(5) as u8;
        } else {
            items[reader].uses_context = true;
            items[reader].ctx_form = c.below(5) as u8;
        }
        let entry = if c.chance(128) { a } else { b };
        add(&mut items, k, entry, c.below(7) as u8);
    }
    for it in items.iter_mut() {
        if it.is_const {
            it.const_kind = match c.below(8) {
                0 | 1 => 1,
                2 => 2,
                3 => 3,
                _ => 0,
            };
        }
    }
    if c.chance(70) {
        let k = c.below(n);
        items[k].uses_context = true;
        items[k].ctx_form = c.below(5) as u8;
        if c.chance(60) {
            let k2 = c.below(n);
            items[k2].uses_context = true;
            items[k2].ctx_form = c.below(5) as u8;
        }
    }
    let mut order: Vec<usize> = (0..n).collect();
    for i in 0..n.saturating_sub(1) {
        let j = i + c.below(n - i);
        order.swap(i, j);
    }
    let mut tests = Vec::new();
    for m in 0..n_modules {
        if c.chance(70) {
            let here: Vec<usize> = (0..n).filter(|i| items[*i].module == m).collect();
            if !here.is_empty() {
                tests.push((m, here[c.below(here.len())]));
            }
        }
    }
    // some constants are read by no helper function: if nothing else mentions them either, they are
    // unused, and still have to be evaluated exactly once
    for i in 0..n {
        if items[i].is_const && !tests.iter().any(|(_, t)| *t == i) {
            items[i].no_helper = c.chance(90);
        }
    }
    Graph { tests, items, n_modules, order }
}

fn reference(g: &Graph, from: usize, to: usize, imports: &mut BTreeSet<String>, c_form: u8) -> String {
    let n = name(g, to);
    // functions carry fuel, so that functions calling each other in a cycle terminate
    let fuel = if g.items[from].is_const { "2" } else { "d - 1" };
    let call = if g.items[to].is_const { n.clone() } else { format!("{n}({fuel})") };
    let same = g.items[from].module == g.items[to].module;
    let path = if same {
        call
    } else {
        match c_form % 3 {
            0 => format!("{}.{}", module_path(g.items[to].module), call),
            1 => {
                imports.insert(format!("import {}.{};", module_path(g.items[to].module), n));
                call
            }
            _ => {
                // relative path: from the root into a child, or through super from a child
                if g.items[from].module == 0 {
                    format!("m{}.{}", g.items[to].module, call)
                } else if g.items[to].module == 0 {
                    format!("super.{call}")
                } else {
                    format!("super.m{}.{}", g.items[to].module, call)
                }
            }
        }
    };
    // an i32-valued mention of the item
    if g.items[to].is_const {
        match g.items[to].const_kind {
            1 => format!("{path}.n"),
            2 => format!("({{ {path}; 0 }})"),
            3 => format!("{path}.a"),
            _ => path,
        }
    } else {
        path
    }
}

fn render(g: &Graph) -> Vec<(String, String)> {
    render_with(g, None)
}

/// `vals`: the model's values, for the test blocks (accepted graphs only)
fn render_with(g: &Graph, vals: Option<&BTreeMap<usize, i64>>) -> Vec<(String, String)> {
    let mut files: Vec<String> = vec![String::new(); g.n_modules];
    // helper functions (read_K.., call_g..) stand before the items, so that the last declaration of a
    // module can be a constant
    let mut helpers: Vec<String> = vec![String::new(); g.n_modules];
    let mut imports: Vec<BTreeSet<String>> = vec![BTreeSet::new(); g.n_modules];
    for &i in &g.order {
        let it = &g.items[i];
        let m = it.module;
        let mut terms: Vec<String> = Vec::new();
        let mut pre: Vec<String> = Vec::new();
        for (k, (j, form)) in it.refs.iter().enumerate() {
            let r = reference(g, i, *j, &mut imports[m], *form);
            match form % 10 {
                // the first mention in the text stands on a path that is not taken
                7 => {
                    pre.push(format!("let u{k} = if 1 > 2 {{ {r} }} else {{ 0 }};"));
                    terms.push(format!("(u{k} + {r})"));
                }
                8 => terms.push(format!("(match Option.Some(0) {{ Some(v) if v > 5 => {r}, _ => {r} + 0 }})")),
                9 => {
                    pre.push(format!("let w{k} = 0; let n{k} = 0; while n{k} < 2 {{ if n{k} == 1 {{ w{k} = w{k} + {r}; }} n{k} = n{k} + 1; }}"));
                    terms.push(format!("w{k}"));
                }
                0 => terms.push(r),
                1 => terms.push(format!("idf({r})")),
                2 => terms.push(format!("({{ let t{k} = {r}; t{k} }})")),
                3 => terms.push(format!("(match Option.Some({r}) {{ Some(v) => v, None => 0 }})")),
                4 => {
                    pre.push(format!("let s{k} = f\"{{{r}}}\";"));
                    terms.push(format!("(if s{k} == \"\" {{ 0 }} else {{ {r} }})"));
                }
                5 => terms.push(format!("(if {r} > 1000000 {{ 1 }} else {{ {r} }})")),
                _ => terms.push(format!("({r} + 0)")),
            }
        }
        if it.uses_context {
            terms.push(
                match it.ctx_form {
                    0 => "cx",
                    1 => "(if cx.to_string() == \"7\" { 7 } else { 7 })",
                    2 => "(if f\"{cx}\" == \"\" { 7 } else { 7 })",
                    3 => "(idf(cx) - cx + 7)",
                    _ => "(if cx > 100 { 7 } else { 7 })",
                }
                .into(),
            );
        }
        let sum = if terms.is_empty() { "0".to_string() } else { terms.join(" + ") };
        let f = &mut files[m];
        let hf = &mut helpers[m];
        if it.is_const {
            let conf = if m == 0 { "Conf" } else { "pkg.Conf" };
            match it.const_kind {
                1 => {
                    let _ = writeln!(f, "const {}: {conf} = {{ {} {conf} {{ name: \"c{}\", n: e({}) + {} }} }};", name(g, i), pre.join(" "), i, i + 1, sum);
                    if !it.no_helper {
                        let _ = writeln!(hf, "fn read_{}() -> i32 {{ let c = {}; if c.name == \"c{}\" {{ c.n }} else {{ -1 }} }}", name(g, i), name(g, i), i);
                    }
                }
                3 => {
                    // plain data: a copy is modified by the helper, the constant must stay what it was
                    let pt = if m == 0 { "Pt" } else { "pkg.Pt" };
                    let _ = writeln!(f, "const {}: {pt} = {{ {} {pt} {{ a: e({}) + {}, b: 5 }} }};", name(g, i), pre.join(" "), i + 1, sum);
                    if !it.no_helper {
                        let _ = writeln!(hf, "fn read_{0}() -> i32 {{ let c = {0}; c.a = c.a + 100; c.b = c.b + 1; if c.b == 6 && {0}.b == 5 {{ {0}.a }} else {{ -1 }} }}", name(g, i));
                    }
                }
                2 => {
                    let _ = writeln!(f, "const {}: () = {{ {} let t = e({}) + {}; }};", name(g, i), pre.join(" "), i + 1, sum);
                    if !it.no_helper {
                        let _ = writeln!(hf, "fn read_{}() -> i32 {{ {}; 0 }}", name(g, i), name(g, i));
                    }
                }
                _ => {
                    if pre.is_empty() {
                        let _ = writeln!(f, "const {}: i32 = e({}) + {};", name(g, i), i + 1, sum);
                    } else {
                        let _ = writeln!(f, "const {}: i32 = {{ {} e({}) + {} }};", name(g, i), pre.join(" "), i + 1, sum);
                    }
                    if !it.no_helper {
                        let k = name(g, i);
                        let body = match i % 4 {
                            0 => k.clone(),
                            1 => format!("if 1 > 2 {{ return {k}; }} {k}"),
                            2 => format!("let r = 0; let i = 0; while i < 2 {{ if i == 1 {{ r = r + {k}; }} i = i + 1; }} r"),
                            _ => format!("match Option.Some(0) {{ Some(v) if v > 5 => {k}, _ => {k} }}"),
                        };
                        let _ = writeln!(hf, "fn read_{k}() -> i32 {{ {body} }}");
                    }
                }
            }
        } else {
            let _ = writeln!(f, "fn {}(d: i32) -> i32 {{ if d <= 0 {{ return {}; }} {} {} + {} }}", name(g, i), 1000 * (i + 1), pre.join(" "), 1000 * (i + 1), sum);
            let _ = writeln!(hf, "fn call_{}() -> i32 {{ {}(2) }}", name(g, i), name(g, i));
        }
    }
    let mut out = Vec::new();
    for m in 0..g.n_modules {
        let mut text = String::new();
        for imp in &imports[m] {
            let _ = writeln!(text, "{imp}");
        }
        if m == 0 {
            text.push_str("record Conf { name: String, n: i32 }\nrecord Pt { a: i32, b: i32 }\n");
            text.push_str("fn idf(x: i32) -> i32 { x }\n");
        } else {
            text.push_str("import pkg.idf;\n");
        }
        text.push_str(&helpers[m]);
        // every module has a constant `LIMIT` of its own, written as a plain literal, and reads it
        let _ = writeln!(text, "const LIMIT: i32 = {};\nfn read_limit() -> i32 {{\n    let r = LIMIT;\n    r + LIMIT - LIMIT\n}}", 7000 + m);
        for (tm, item) in &g.tests {
            if *tm == m {
                let want = vals.and_then(|v| v.get(item).copied()).unwrap_or(0);
                let f = if g.items[*item].is_const { format!("read_{}", name(g, *item)) } else { format!("call_{}", name(g, *item)) };
                let _ = writeln!(text, "test tm{m} {{ if {f}() == {want} {{ accept }} else {{ reject }} }}");
            }
        }
        text.push_str(&files[m]);
        out.push((if m == 0 { "pkg".to_string() } else { format!("m{m}") }, text));
    }
    out
}

/// transitive closure of references
fn reach(g: &Graph, from: usize) -> BTreeSet<usize> {
    let mut seen = BTreeSet::new();
    let mut stack: Vec<usize> = g.items[from].refs.iter().map(|(j, _)| *j).collect();
    while let Some(x) = stack.pop() {
        if seen.insert(x) {
            stack.extend(g.items[x].refs.iter().map(|(j, _)| *j));
        }
    }
    seen
}

enum Expect {
    /// compile error: a cycle containing a constant, or a constant that transitively reads the context
    Reject(String),
    /// values of every item
    Accept(BTreeMap<usize, i64>),
}

fn model(g: &Graph) -> Expect {
    let n = g.items.len();
    for i in 0..n {
        if g.items[i].is_const {
            let r = reach(g, i);
            if r.contains(&i) {
                return Expect::Reject(format!("constant {} depends on itself", name(g, i)));
            }
            if g.items[i].uses_context || r.iter().any(|j| g.items[*j].uses_context) {
                return Expect::Reject(format!("constant {} reads the context", name(g, i)));
            }
        }
    }
    // values: constants once; functions by remaining fuel
    fn fval(g: &Graph, i: usize, d: i32, consts: &BTreeMap<usize, i64>) -> i64 {
        let base = 1000 * (i + 1) as i64;
        if d <= 0 {
            return base;
        }
        let mut v = base + if g.items[i].uses_context { 7 } else { 0 };
        for (j, _) in &g.items[i].refs {
            let r = if g.items[*j].is_const { mention(g, *j, consts) } else { fval(g, *j, d - 1, consts) };
            v = (v + r) as i32 as i64;
        }
        v
    }
    /// what an i32-valued mention of constant j is worth (a unit constant is only evaluated)
    fn mention(g: &Graph, j: usize, consts: &BTreeMap<usize, i64>) -> i64 {
        if g.items[j].const_kind == 2 { 0 } else { consts[&j] }
    }
    fn cval(g: &Graph, i: usize, consts: &mut BTreeMap<usize, i64>) -> i64 {
        if let Some(v) = consts.get(&i) {
            return *v;
        }
        // constants reachable from this one (also through functions) first: the graph is acyclic for constants
        for j in reach(g, i) {
            if g.items[j].is_const {
                cval(g, j, consts);
            }
        }
        let mut v = (i + 1) as i64;
        for (j, _) in &g.items[i].refs {
            let r = if g.items[*j].is_const { mention(g, *j, consts) } else { fval(g, *j, 2, consts) };
            v = (v + r) as i32 as i64;
        }
        consts.insert(i, v);
        v
    }
    let mut consts: BTreeMap<usize, i64> = BTreeMap::new();
    for i in 0..n {
        if g.items[i].is_const {
            cval(g, i, &mut consts);
        }
    }
    let mut vals: BTreeMap<usize, i64> = BTreeMap::new();
    for i in 0..n {
        let v = if g.items[i].is_const { mention(g, i, &consts) } else { fval(g, i, 2, &consts) };
        vals.insert(i, v);
    }
    Expect::Accept(vals)
}

struct W {
    rt: Runtime<NoCtx>,
    rt_ctx: Runtime<roto::Ctx<CCtx>>,
}

fn tree(files: &[(String, String)]) -> FileTree {
    crate::props::c06::build_tree(files)
}

impl WorkerState for W {
    fn render_only(&mut self, case: &Case) -> String {
        let empty: Vec<u8> = Vec::new();
        let g = decode(case.first().unwrap_or(&empty));
        render(&g).iter().map(|(n, t)| format!("=== {n}.roto ===\n{t}")).collect()
    }

    fn run(&mut self, case: &Case, render_flag: bool) -> Outcome {
        let empty: Vec<u8> = Vec::new();
        let g = decode(case.first().unwrap_or(&empty));
        let expect = model(&g);
        let files = match &expect {
            Expect::Accept(vals) => render_with(&g, Some(vals)),
            _ => render(&g),
        };
        let text: String = files.iter().map(|(n, t)| format!("=== {n}.roto ===\n{t}")).collect();
        let uses_ctx = g.items.iter().any(|i| i.uses_context);
        host::reset(vec![]);
        // compile; the log collected here is what ran *during* compilation
        let mut o = Outcome::pass();
        let fail = |sig: &str, msg: String| -> Outcome {
            let mut f = Outcome::fail(sig, format!("{msg}\n{text}"));
            f.render = Some(text.clone());
            f
        };
        macro_rules! after_compile {
            ($res:expr, $call:expr, $tests:expr) => {{
                let res = $res;
                let log = host::take_log();
                let tags: Vec<i64> = log
                    .iter()
                    .filter_map(|e| match e {
                        Ev::Eff(n, a) if n == "e" => match a.first() {
                            Some(V::Int(_, k)) => Some(*k as i64),
                            _ => None,
                        },
                        _ => None,
                    })
                    .collect();
                match (&expect, res) {
                    (Expect::Reject(why), Ok(_)) => return fail("accepted-cyclic-or-context-constant", format!("compiled although {why}")),
                    (Expect::Reject(_), Err(e)) => {
                        let r = host::render_report(&e);
                        if !r.starts_with("Error: Type error") {
                            return fail("wrong-error-kind", r);
                        }
                        if !tags.is_empty() {
                            return fail("evaluated-before-rejecting", format!("constants {tags:?} were evaluated although compilation failed"));
                        }
                        o.classes.push("rejected-cycle-or-context".into());
                        // the context is read inside or behind a group of mutually recursive functions
                        let ctx_behind_cycle = (0..g.items.len()).any(|i| {
                            g.items[i].is_const && reach(&g, i).iter().any(|f| !g.items[*f].is_const && reach(&g, *f).contains(f) && (g.items[*f].uses_context || reach(&g, *f).iter().any(|z| g.items[*z].uses_context)))
                        });
                        if ctx_behind_cycle {
                            o.classes.push("context-behind-a-function-cycle".into());
                        }
                        o.nontrivial = true;
                    }
                    (Expect::Accept(_), Err(e)) => return fail("rejected-acyclic", host::render_report(&e)),
                    (Expect::Accept(vals), Ok(mut pkg)) => {
                        // each constant exactly once
                        let n_consts = g.items.iter().filter(|i| i.is_const).count();
                        let mut sorted = tags.clone();
                        sorted.sort();
                        let expected_tags: Vec<i64> = (0..g.items.len()).filter(|i| g.items[*i].is_const).map(|i| (i + 1) as i64).collect();
                        if sorted != expected_tags {
                            return fail("not-exactly-once", format!("initialiser tags during compilation: {tags:?}, expected each of {expected_tags:?} exactly once"));
                        }
                        // dependency order (closed through functions)
                        for i in 0..g.items.len() {
                            if !g.items[i].is_const {
                                continue;
                            }
                            for j in reach(&g, i) {
                                if g.items[j].is_const {
                                    let pi = tags.iter().position(|t| *t == (i + 1) as i64).unwrap();
                                    let pj = tags.iter().position(|t| *t == (j + 1) as i64).unwrap();
                                    if pj > pi {
                                        return fail("dependency-order", format!("{} was evaluated before its dependency {} (order {tags:?})", name(&g, i), name(&g, j)));
                                    }
                                }
                            }
                        }
                        // same-named literal constants, one per module
                        for m in 0..g.n_modules {
                            let full = if m == 0 { "read_limit".to_string() } else { format!("m{m}.read_limit") };
                            let f = match pkg.get_function::<fn() -> i32>(&full) {
                                Ok(f) => f,
                                Err(e) => return fail("get_function", format!("{full}: {e}")),
                            };
                            let got = $call(&f) as i64;
                            if got != 7000 + m as i64 {
                                return fail("wrong-value", format!("{full}() returned {got}: the constant LIMIT of that module is {}", 7000 + m));
                            }
                        }
                        // values, and no re-evaluation on use
                        for i in 0..g.items.len() {
                            if g.items[i].no_helper {
                                continue;
                            }
                            let fname = if g.items[i].is_const { format!("read_{}", name(&g, i)) } else { format!("call_{}", name(&g, i)) };
                            let full = if g.items[i].module == 0 { fname.clone() } else { format!("m{}.{}", g.items[i].module, fname) };
                            let f = match pkg.get_function::<fn() -> i32>(&full) {
                                Ok(f) => f,
                                Err(e) => return fail("get_function", format!("{full}: {e}")),
                            };
                            // twice: every call observes the one value
                            for round in 0..2 {
                                let got = $call(&f) as i64;
                                if got != vals[&i] {
                                    return fail("wrong-value", format!("{full}() returned {got} (call {}), expected {}", round + 1, vals[&i]));
                                }
                            }
                        }
                        if !g.tests.is_empty() {
                            // the test blocks read constants and call functions: they must all accept
                            if ($tests)(&mut pkg).is_err() {
                                return fail("test-block-failed", "run_tests() reports a failure although every test block compares an item with the model's value".into());
                            }
                            o.classes.push("with-test-blocks".into());
                        }
                        // the same values through handles that outlive the package
                        {
                            let mut keep = Vec::new();
                            for i in 0..g.items.len() {
                                if g.items[i].no_helper {
                                    continue;
                                }
                                let fname = if g.items[i].is_const { format!("read_{}", name(&g, i)) } else { format!("call_{}", name(&g, i)) };
                                let full = if g.items[i].module == 0 { fname.clone() } else { format!("m{}.{}", g.items[i].module, fname) };
                                match pkg.get_function::<fn() -> i32>(&full) {
                                    Ok(f) => keep.push((full, f, vals[&i])),
                                    Err(e) => return fail("get_function", format!("{full}: {e}")),
                                }
                            }
                            drop(pkg);
                            for (full, f, want) in &keep {
                                let got = $call(f) as i64;
                                if got != *want {
                                    return fail("wrong-value:after-the-package-was-dropped", format!("{full}() returned {got} after the package was dropped (the handle is still alive), expected {want}"));
                                }
                            }
                        }
                        let later = host::take_log();
                        if !later.is_empty() {
                            return fail("re-evaluated", format!("constant initialisers ran again after compilation: {} events", later.len()));
                        }
                        let fn_cycle = (0..g.items.len()).any(|i| !g.items[i].is_const && reach(&g, i).contains(&i));
                        if fn_cycle {
                            o.classes.push("functions-in-a-cycle".into());
                        }
                        let through_fn = (0..g.items.len()).any(|i| g.items[i].is_const && g.items[i].refs.iter().any(|(j, _)| !g.items[*j].is_const));
                        let cross_mod = (0..g.items.len()).any(|i| g.items[i].refs.iter().any(|(j, _)| g.items[*j].module != g.items[i].module));
                        o.nontrivial = n_consts >= 3 && (through_fn || cross_mod);
                        if through_fn {
                            o.classes.push("dependency-through-function".into());
                        }
                        if cross_mod {
                            o.classes.push("dependency-across-modules".into());
                        }
                    }
                }
            }};
        }
        if uses_ctx {
            let res = tree(&files).compile(&self.rt_ctx);
            after_compile!(res, |f: &roto::TypedFunc<roto::Ctx<CCtx>, fn() -> i32>| f.call(&mut CCtx { cx: 7 }), |p: &mut roto::Package<roto::Ctx<CCtx>>| p.run_tests(CCtx { cx: 7 }));
        } else {
            let res = tree(&files).compile(&self.rt);
            after_compile!(res, |f: &roto::TypedFunc<NoCtx, fn() -> i32>| f.call(), |p: &mut roto::Package<NoCtx>| p.run_tests());
        }
        o.hash = fnv(text.as_bytes());
        if render_flag {
            o.render = Some(text);
        }
        o
    }
}

fn with_context(rt: Runtime<NoCtx>) -> Runtime<roto::Ctx<CCtx>> {
    rt.with_context_type::<CCtx>().expect("context type")
}

impl Prop for C14P {
    fn id(&self) -> &'static str {
        "C14"
    }
    fn rule(&self) -> String {
        "random reference graphs over 2-8 constants and 0-5 functions (mostly acyclic by a hidden rank, a few edges ignore it; sometimes one item mentions a context variable: plainly, as a method receiver, in an f-string, as an argument or in a comparison; functions carry a fuel parameter so that functions calling each other in cycles are part of the domain), references placed as operand, call argument, block-local, match arm, f-string, if-condition or parenthesised term, spread over 1-3 modules (absolute path, import, relative / super path) in random declaration order; constants are i32 values, records with a String (read through a field) or unit; some modules carry a `test` block comparing an item with the model's value; every constant initialiser logs a unique tag through e(k). Oracle: if a constant reaches itself or (transitively) reads the context, compile fails with a type error and no tag was logged; otherwise compile succeeds, each tag was logged exactly once during compilation, every constant's dependencies (closed through functions) were logged before it, every constant and function returns the model's value and reading them logs nothing. Non-trivial: >= 3 constants with a dependency through a function or a module boundary, or an injected cycle/context use; distinct by file contents".into()
    }
    fn assumptions(&self) -> Vec<String> {
        vec![
            "graph size <= 14 items".into(),
            "graphs whose functions recurse without a constant in the cycle are discarded (generated functions carry no fuel)".into(),
        ]
    }
    fn cases(&self, tier: Tier) -> u32 {
        match tier {
            Tier::Quick => 30_000,
            Tier::Thorough => 1_000_000,
        }
    }
    fn shape(&self, _tier: Tier) -> CaseShape {
        CaseShape::streams(&[160])
    }
    fn worker(&self, _excl: &[String]) -> Box<dyn WorkerState> {
        Box::new(W { rt: host::build_runtime(), rt_ctx: with_context(host::build_runtime()) })
    }
    fn max_discard_rate(&self) -> f64 {
        0.2
    }
}
