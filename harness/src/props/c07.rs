//! C07 — Ill-typed scripts never compile: one type-breaking edit on a well-typed
//! generated program must be rejected with a type error.

use roto::{Context, NoCtx, Runtime};

use crate::ast::*;
use crate::core::*;
use crate::host;
use crate::illtyped;
use crate::mutate;
use crate::pgen::{Gen, Profile, SCALAR_TYS};

pub struct C07P;
pub static C07: C07P = C07P;

#[derive(Clone, Context)]
pub struct SnipCtx {
    pub cx: i32,
}

struct W {
    rt: Runtime<NoCtx>,
    /// the same runtime with a context type (field `cx: i32`)
    rt_ctx: Runtime<roto::Ctx<SnipCtx>>,
    prof: Profile,
    excl_assign_const: bool,
}

/// a well-typed program and its ill-typed variant, both as source text
struct Built {
    orig: String,
    mutated: String,
    kind: String,
    desc: String,
    needs_ctx: bool,
}

impl W {
    fn build_any(&self, case: &Case) -> Option<Built> {
        let empty: Vec<u8> = Vec::new();
        let ctl = case.get(2).unwrap_or(&empty);
        // the first control byte selects the family
        let fam = ctl.first().copied().unwrap_or(0);
        if fam >= 170 {
            return self.build_snippet(case);
        }
        if fam >= 90 {
            if let Some(b) = self.build_sabotage(case) {
                return Some(b);
            }
        }
        let (orig, mutated, k, desc) = self.build(case)?;
        Some(Built {
            orig: print_program(&orig, Parens::Minimal),
            mutated: print_program(&mutated, Parens::Minimal),
            kind: mutate::kind_name(k).to_string(),
            desc,
            needs_ctx: false,
        })
    }

    /// the generator itself puts a value of another kind of type at one of the places
    /// whose context fixes the expected type (operands, arguments, fields, conditions,
    /// initialisers, results, list elements, assigned values, ...)
    fn build_sabotage(&self, case: &Case) -> Option<Built> {
        let empty: Vec<u8> = Vec::new();
        let s0 = case.first().unwrap_or(&empty);
        let s1 = case.get(1).unwrap_or(&empty);
        let ctl = case.get(2).unwrap_or(&empty);
        let mut rets: Vec<Ty> = SCALAR_TYS.to_vec();
        rets.push(Ty::Unit);
        rets.push(Ty::Str);
        let (orig, n_sites, _) = Gen::new(s0, s1, self.prof.clone()).program_sabotaged(&rets, None);
        if n_sites == 0 {
            return None;
        }
        let mut c = Choices::new(ctl.get(1..).unwrap_or(&[]));
        let target = (c.u16() as u32) % n_sites;
        let (mutated, _, desc) = Gen::new(s0, s1, self.prof.clone()).program_sabotaged(&rets, Some(target));
        let desc = desc?;
        let mutated_text = print_program(&mutated, Parens::Minimal);
        // the marker has to be there as a token of its own: `47.25f32` is an ordinary literal
        let has_float_marker = mutated_text
            .split(|ch: char| !(ch.is_ascii_alphanumeric() || ch == '.' || ch == '_'))
            .any(|tok| tok == "7.25f32");
        let present = if desc.contains("zz_sab") { mutated_text.contains("\"zz_sab\"") } else { has_float_marker };
        if !present {
            // the generator threw the expression away after building it
            return None;
        }
        Some(Built {
            orig: print_program(&orig, Parens::Minimal),
            mutated: mutated_text,
            kind: "wrong-type-at-typed-site".into(),
            desc: format!("site {target} of {n_sites}: {desc}"),
            needs_ctx: false,
        })
    }

    fn build_snippet(&self, case: &Case) -> Option<Built> {
        let empty: Vec<u8> = Vec::new();
        let s0 = case.first().unwrap_or(&empty);
        let s1 = case.get(1).unwrap_or(&empty);
        let ctl = case.get(2).unwrap_or(&empty);
        let mut rets: Vec<Ty> = SCALAR_TYS.to_vec();
        rets.push(Ty::Unit);
        rets.push(Ty::Str);
        let prog = Gen::new(s0, s1, self.prof.clone()).program(&rets);
        let orig = print_program(&prog, Parens::Minimal);
        let mut c = Choices::new(ctl.get(1..).unwrap_or(&[]));
        let k = c.below(illtyped::N_SNIPPETS);
        let sn = illtyped::snippet(k, &mut c);
        let indent = |s: &str| s.lines().map(|l| format!("    {l}\n")).collect::<String>();
        let mut lines: Vec<String> = orig.lines().map(|l| l.to_string()).collect();
        let headers: Vec<usize> = lines
            .iter()
            .enumerate()
            .filter(|(_, l)| (l.starts_with("fn ") || l.starts_with("filtermap ")) && l.ends_with('{'))
            .map(|(i, _)| i)
            .collect();
        let own = sn.own_fn.is_some() || headers.is_empty() || c.chance(128);
        let desc;
        let mutated = if own {
            let (hdr, tail) = sn.own_fn.clone().unwrap_or((String::new(), String::new()));
            let tail = if tail.is_empty() { String::new() } else { format!("    {tail}\n") };
            desc = format!("ill-typed function `zz_snippet` appended ({})", sn.kind);
            format!("{orig}\n{}fn zz_snippet() {hdr} {{\n{}{tail}}}\n", sn.decls, indent(&sn.body))
        } else {
            let h = headers[c.below(headers.len())];
            desc = format!("ill-typed statements inserted at the top of `{}` ({})", lines[h].trim_end_matches('{').trim(), sn.kind);
            lines.insert(h + 1, indent(&sn.body).trim_end_matches('\n').to_string());
            format!("{}\n{}", lines.join("\n"), sn.decls)
        };
        Some(Built { orig, mutated, kind: format!("snippet:{}", sn.kind), desc, needs_ctx: sn.needs_ctx })
    }

    fn build(&self, case: &Case) -> Option<(Program, Program, usize, String)> {
        let empty: Vec<u8> = Vec::new();
        let s0 = case.first().unwrap_or(&empty);
        let s1 = case.get(1).unwrap_or(&empty);
        let ctl = case.get(2).unwrap_or(&empty);
        let mut rets: Vec<Ty> = SCALAR_TYS.to_vec();
        rets.push(Ty::Unit);
        rets.push(Ty::Str);
        let prog = Gen::new(s0, s1, self.prof.clone()).program(&rets);
        let mut c = Choices::new(ctl.get(1..).unwrap_or(&[]));
        // try kinds starting from the chosen one until one applies
        let k0 = c.below(mutate::N_KINDS);
        for dk in 0..mutate::N_KINDS {
            let k = (k0 + dk) % mutate::N_KINDS;
            if k == 24 && self.excl_assign_const {
                continue;
            }
            if let Some((m, desc)) = mutate::apply(&prog, k, &mut c) {
                return Some((prog, m, k, desc));
            }
        }
        None
    }
}

fn literal_case(rt: &Runtime<NoCtx>, case: &Case) -> Option<Outcome> {
    // ["#!illtyped", source]: must be rejected with a type error
    if case.first().map(|c| c.as_slice()) != Some(b"#!illtyped") {
        return None;
    }
    let src = String::from_utf8_lossy(case.get(1)?).to_string();
    let mut o = Outcome::pass();
    o.render = Some(src.clone());
    o.nontrivial = true;
    o.hash = fnv(src.as_bytes());
    Some(match host::compile(rt, &src) {
        Ok(_) => Outcome::fail("accepted:literal-case", format!("ill-typed script was accepted:\n{src}")),
        Err(e) if e.starts_with("Error: Type error") => o,
        Err(e) => Outcome::fail("wrong-error-kind:literal-case", format!("{e}\n{src}")),
    })
}

impl WorkerState for W {
    fn render_only(&mut self, case: &Case) -> String {
        if case.first().map(|c| c.as_slice()) == Some(b"#!illtyped") {
            return String::from_utf8_lossy(case.get(1).map(|c| c.as_slice()).unwrap_or(b"")).to_string();
        }
        match self.build_any(case) {
            Some(b) => format!("// edit: {} -- {}\n{}", b.kind, b.desc, b.mutated),
            None => "(no applicable edit)".into(),
        }
    }

    fn run(&mut self, case: &Case, render: bool) -> Outcome {
        if let Some(o) = literal_case(&self.rt, case) {
            return o;
        }
        let Some(Built { orig: osrc, mutated: msrc, kind, desc, needs_ctx }) = self.build_any(case) else {
            return Outcome::discard("no edit applicable to this program");
        };
        let compile = |src: &str| -> Result<(), String> {
            if needs_ctx {
                roto::FileTree::test_file("case.roto", src, 0).compile(&self.rt_ctx).map(|_| ()).map_err(|e| host::render_report(&e))
            } else {
                host::compile(&self.rt, src).map(|_| ())
            }
        };
        if let Err(e) = compile(&osrc) {
            return Outcome::discard(format!("original program rejected by the compiler:\n{e}\n--- source ---\n{osrc}"));
        }
        eprintln!("@@ctx edit={kind}");
        let mut o = Outcome::pass();
        o.classes.push(format!("edit:{kind}"));
        o.nontrivial = true;
        o.hash = fnv(msrc.as_bytes());
        let rendered = format!("// edit: {kind} -- {desc}\n{msrc}");
        match compile(&msrc) {
            Ok(_) => {
                let mut f = Outcome::fail(
                    format!("accepted:{kind}"),
                    format!("the ill-typed program compiled. Edit: {desc}\n--- source ---\n{msrc}"),
                );
                f.render = Some(rendered);
                f
            }
            Err(e) => {
                if e.starts_with("Error: Type error") {
                    if render {
                        o.render = Some(format!("{rendered}\n// rejected with: {}", e.lines().next().unwrap_or("")));
                    }
                    o
                } else {
                    let mut f = Outcome::fail(
                        format!("wrong-error-kind:{kind}"),
                        format!("expected a type error, got:\n{e}\nEdit: {desc}\n--- source ---\n{msrc}"),
                    );
                    f.render = Some(rendered);
                    f
                }
            }
        }
    }
}

impl Prop for C07P {
    fn id(&self) -> &'static str {
        "C07"
    }
    fn rule(&self) -> String {
        "a well-typed generated program (known to compile) plus exactly one type-breaking edit from a catalogue of 32 AST-level edit kinds (patterns with too few / extra binders or unknown variants, names used outside the branch, arm or loop that binds them, wrong-typed initialiser/condition/argument/result, arity, undefined or out-of-scope name, missing/duplicate/unknown record field, missing match arm, arm after `_`, negated unsigned, arithmetic/remainder/ordering on non-numbers, `?`/accept where forbidden, assignment to a function/constant/field of a scalar, redeclaration, recursive types/constants, return in a constant), applied at a random applicable site; or (3 cases in 10) the program generator itself fills one of the places whose context fixes the expected type (any operand, argument, field, condition, initialiser, result, list element or assigned value; typically 20-150 such places per program) with a literal of another kind of type; or (3 cases in 10) one of 34 families of self-contained ill-typed statement snippets with randomised types (signedness chains of un-annotated literals, branches/arms/list elements/operands of different types, constructor arity, assignment or return of another type, for over a non-list, logical operators on non-bool, literal against annotation, a variant matched twice while another is missing, only-guarded arms, anonymous records of another width against named or annotated records, type-argument mismatches, wrapper against plain, undeclared types, negated unsigned, distinct named records, fields of scalars, assignments to a context variable (compiled against a runtime with a context type), early exits in constant initialisers, built-in methods of generic types used with other element types, ...) inserted at the top of a generated function or appended as a function of its own; oracle: compile returns a report starting with `Error: Type error`. Every case is non-trivial; distinct by mutated program text".into()
    }
    fn assumptions(&self) -> Vec<String> {
        vec![
            "each catalogue edit is ill-typed under the documented rules whatever the surrounding program (checked edit by edit in DESIGN.md)".into(),
            "only single edits are explored".into(),
        ]
    }
    fn cases(&self, tier: Tier) -> u32 {
        match tier {
            Tier::Quick => 40_000,
            Tier::Thorough => 1_500_000,
        }
    }
    fn shape(&self, _tier: Tier) -> CaseShape {
        CaseShape::streams(&[500, 200, 24])
    }
    fn worker(&self, excl: &[String]) -> Box<dyn WorkerState> {
        let mut prof = crate::props::prog::profile_for(crate::props::prog::Kind::C02, excl);
        prof.budget = 160;
        // the scope edits (a local used outside its block) rely on every `let` name being unique
        prof.shadowing = false;
        let rt_ctx = host::build_runtime().with_context_type::<SnipCtx>().expect("context type");
        Box::new(W { rt: host::build_runtime(), rt_ctx, prof, excl_assign_const: excl.iter().any(|e| e == "C07-F1") })
    }
    fn max_discard_rate(&self) -> f64 {
        0.05
    }
}
