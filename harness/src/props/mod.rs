//! Property registry.
use crate::core::Prop;

pub mod c10;
pub mod prog;
pub mod c11;
pub mod c12;
pub mod c13;
pub mod c14;
pub mod c15;
pub mod c16;
pub mod c16p;
pub mod c16s;
pub mod c17;
pub mod c18;
pub mod c19;
pub mod c20;
pub mod c04;
pub mod c05;
pub mod c06;
pub mod c07;
pub mod c09;

pub fn all() -> Vec<&'static dyn Prop> {
    vec![&prog::C01, &prog::C02, &prog::C03, &prog::C08, &c04::C04, &c05::C05, &c06::C06, &c07::C07, &c09::C09, &c10::C10, &c11::C11, &c12::C12, &c13::C13, &c14::C14, &c15::C15, &c16::C16, &c17::C17, &c18::C18, &c19::C19, &c20::C20]
}

pub fn find(id: &str) -> Option<&'static dyn Prop> {
    all().into_iter().find(|p| p.id().eq_ignore_ascii_case(id))
}
