//! C17 — Built-in methods follow their documented meaning on every argument.
//! (also hosts C10 part (b): the same catalogue driven for survival only)

use roto::{NoCtx, Package, Runtime};

use crate::builtins::{self, Builtin, Ctx, Mode};
use crate::core::*;
use crate::host;

pub struct C17P;
pub static C17: C17P = C17P;

pub struct BuiltinWorker {
    pub rt: Runtime<NoCtx>,
    pub cat: Vec<Builtin>,
    pub pkg: Package<NoCtx>,
    pub mode: Mode,
    pub excl_lines_get: bool,
    pub excl_prefix_len: bool,
    /// catalogue entries the compiler rejects (name, message)
    pub broken: Vec<(&'static str, String)>,
}

impl BuiltinWorker {
    pub fn new(mode: Mode, excl: &[String]) -> Self {
        let rt = host::build_runtime();
        let cat = builtins::catalogue();
        let (pkg, broken) = builtins::compile_catalogue_lenient(&rt, &cat).expect("built-in catalogue compiles");
        BuiltinWorker {
            rt,
            cat,
            pkg,
            broken,
            mode,
            excl_lines_get: excl.iter().any(|e| e == "C17-F1"),
            excl_prefix_len: excl.iter().any(|e| e == "C10-F3"),
        }
    }

    pub fn run_case(&mut self, case: &Case, render: bool) -> Outcome {
        // literal case: ["#!doc-usage", source]: a documented usage that must compile
        if case.first().map(|c| c.as_slice()) == Some(b"#!doc-usage") {
            let src = String::from_utf8_lossy(case.get(1).map(|c| c.as_slice()).unwrap_or(b"")).to_string();
            return match host::compile(&self.rt, &src) {
                Ok(_) => {
                    let mut o = Outcome::pass();
                    o.nontrivial = true;
                    o.render = Some(src);
                    o
                }
                Err(e) => Outcome::fail(format!("documented-usage-rejected:{:016x}", fnv(src.as_bytes())), format!("{e}\n{src}")),
            };
        }
        let empty: Vec<u8> = Vec::new();
        let ctl = case.first().unwrap_or(&empty);
        let mut c = Choices::new(ctl);
        let k = c.below(self.cat.len());
        let name = self.cat[k].name;
        if let Some((_, e)) = self.broken.iter().find(|(n, _)| *n == name) {
            let mut f = Outcome::fail(format!("documented-usage-rejected:{name}"), format!("the compiler rejects the documented usage\n{}\n{e}", self.cat[k].src));
            f.render = Some(self.cat[k].src.to_string());
            return f;
        }
        let mut o = Outcome::pass();
        o.classes.push(format!("builtin:{name}"));
        // three argument tuples per case
        let mut samples = Vec::new();
        for _ in 0..3 {
            if self.excl_prefix_len && self.mode == Mode::Survive && (name == "prefix_new" || name == "prefix_div") {
                // exclusion by construction happens inside the entry (lengths > max are marked by @@ctx);
                // with the known finding active the Survive domain is narrowed to valid lengths
                let mut cx = Ctx { pkg: &mut self.pkg, c: &mut c, mode: Mode::Semantic, nontrivial: false, sample: String::new() };
                let r = (self.cat[k].run)(&mut cx);
                o.excluded.push(("C10-F3".into(), 1));
                if let Err((sig, msg)) = r {
                    return Outcome::fail(sig, msg);
                }
                continue;
            }
            eprintln!("@@ctx builtin={name}");
            let mut cx = Ctx { pkg: &mut self.pkg, c: &mut c, mode: self.mode, nontrivial: false, sample: String::new() };
            match (self.cat[k].run)(&mut cx) {
                Ok(()) => {
                    o.nontrivial |= cx.nontrivial;
                    samples.push(cx.sample);
                }
                Err((sig, msg)) => {
                    let mut f = Outcome::fail(sig, msg.clone());
                    f.render = Some(format!("{}\n{}", self.cat[k].src, msg));
                    return f;
                }
            }
        }
        o.evals = 3;
        let text = samples.join("\n");
        o.hash = fnv(text.as_bytes());
        if render {
            o.render = Some(text);
        }
        o
    }
}

impl WorkerState for BuiltinWorker {
    fn render_only(&mut self, case: &Case) -> String {
        let empty: Vec<u8> = Vec::new();
        let ctl = case.first().unwrap_or(&empty);
        let mut c = Choices::new(ctl);
        let k = c.below(self.cat.len());
        self.cat[k].src.to_string()
    }
    fn run(&mut self, case: &Case, render: bool) -> Outcome {
        self.run_case(case, render)
    }
}

impl Prop for C17P {
    fn id(&self) -> &'static str {
        "C17"
    }
    fn rule(&self) -> String {
        "a hand-written catalogue of the default runtime's built-ins (String methods and operators, the byte/char/line views, StringBuf, List.join, to_string of every primitive, f32/f64 methods, IpAddr and Prefix functions and constants; ~85 entries), each compiled once as a script function and called with generated arguments: Unicode subjects (ASCII, 2/3-byte scalars, combining marks, with and without newlines, empty), needles derived from the subject, indices around 0, len-1, len, len+1, u64::MAX and mid-code-point, counts 0/1/2/1000, float edge values and random bit patterns, v4/v6/v4-mapped addresses with every valid prefix length; oracle: the corresponding Rust std / inetnum operation computed in the harness (floats bitwise, NaN tolerant). Non-trivial: subject has a multi-byte scalar or a newline, or the numeric argument is not a 'nice' value; distinct by (built-in, arguments)".into()
    }
    fn assumptions(&self) -> Vec<String> {
        vec![
            "for the delegating methods the oracle shares Rust's std with the implementation: what is checked independently is the binding (function, argument order, Option mapping) and the hand-written index arithmetic of the views".into(),
            "line slices that start at the line count are not judged (contested, pinned by the repository's unit test); StringLines.get is judged through its documented usage only (known finding C17-F1)".into(),
        ]
    }
    fn cases(&self, tier: Tier) -> u32 {
        match tier {
            Tier::Quick => 400_000,
            Tier::Thorough => 3_000_000,
        }
    }
    fn shape(&self, _tier: Tier) -> CaseShape {
        CaseShape::streams(&[120])
    }
    fn worker(&self, excl: &[String]) -> Box<dyn WorkerState> {
        Box::new(BuiltinWorker::new(Mode::Semantic, excl))
    }
}
