//! C20 — The IR evaluator agrees with the compiled code or stops loudly.
//!
//! Each generated program is lowered once (hook `verif_eval` on the lowered IR);
//! the evaluator runs first under catch_unwind, then the package is built from
//! the same lowered IR and called with the same arguments.

use roto::verif::{EvalResult, Scalar};
use roto::{NoCtx, Runtime};

use crate::ast::*;
use crate::core::*;
use crate::host;
use crate::model::{self, Ev, Interp, Stop, V};
use crate::pgen::{Gen, Profile, SCALAR_TYS};
use crate::progexec::*;

pub struct C20P;
pub static C20: C20P = C20P;

struct W {
    rt: Runtime<NoCtx>,
    prof: Profile,
}

fn scalar_of(v: &V) -> Option<Scalar> {
    Some(match v {
        V::Int(IntTy::U8, x) => Scalar::U8(*x as u8),
        V::Int(IntTy::U16, x) => Scalar::U16(*x as u16),
        V::Int(IntTy::U32, x) => Scalar::U32(*x as u32),
        V::Int(IntTy::U64, x) => Scalar::U64(*x as u64),
        V::Int(IntTy::I8, x) => Scalar::I8(*x as i8),
        V::Int(IntTy::I16, x) => Scalar::I16(*x as i16),
        V::Int(IntTy::I32, x) => Scalar::I32(*x as i32),
        V::Int(IntTy::I64, x) => Scalar::I64(*x as i64),
        V::F32(x) => Scalar::F32(*x),
        V::F64(x) => Scalar::F64(*x),
        V::Bool(x) => Scalar::Bool(*x),
        V::Char(x) => Scalar::Char(*x),
        _ => return None,
    })
}

fn v_of(s: &Scalar) -> V {
    match s {
        Scalar::U8(x) => V::Int(IntTy::U8, *x as i128),
        Scalar::U16(x) => V::Int(IntTy::U16, *x as i128),
        Scalar::U32(x) => V::Int(IntTy::U32, *x as i128),
        Scalar::U64(x) => V::Int(IntTy::U64, *x as i128),
        Scalar::I8(x) => V::Int(IntTy::I8, *x as i128),
        Scalar::I16(x) => V::Int(IntTy::I16, *x as i128),
        Scalar::I32(x) => V::Int(IntTy::I32, *x as i128),
        Scalar::I64(x) => V::Int(IntTy::I64, *x as i128),
        Scalar::F32(x) => V::F32(*x),
        Scalar::F64(x) => V::F64(*x),
        Scalar::Bool(x) => V::Bool(*x),
        Scalar::Char(x) => V::Char(*x),
    }
}

pub fn eval_profile(excl: &[String]) -> Profile {
    let mut p = crate::props::prog::profile_for(crate::props::prog::Kind::C08, excl);
    p.no_recursion = true;
    p.lists = false;
    p.no_out_stmts = true;
    p.effect_weight = 40;
    p.budget = 120;
    p.max_depth = 4;
    p
}

struct EvalRun {
    words: Vec<u64>,
    args: (u64, u64),
    /// Some(result, log) if the evaluator completed, None if it panicked
    outcome: Option<(EvalResult, Vec<Ev>)>,
    panic_msg: String,
}

impl W {
    fn make(&self, case: &Case) -> Program {
        let empty: Vec<u8> = Vec::new();
        let s0 = case.first().unwrap_or(&empty);
        let s1 = case.get(1).unwrap_or(&empty);
        if s0.first().copied().unwrap_or(0) >= 180 {
            // one program in five comes from the layout-directed generator (nested records and
            // enums of mixed field sizes, copies, field writes, equality, strings)
            let mut g = crate::lgen::LGen::new(&s0[1..], s1.first().copied().unwrap_or(0) % 2 == 0);
            g.allow_lists = false;
            g.main_returns_i32 = true;
            g.value_returning_outs = true;
            return g.program();
        }
        let mut rets: Vec<Ty> = SCALAR_TYS.to_vec();
        rets.push(Ty::Unit);
        // weight the profile toward what the evaluator supports, keep the rest at a low rate
        let mut prof = self.prof.clone();
        match s1.first().copied().unwrap_or(0) % 8 {
            0..=4 => {
                prof.strings = false;
                prof.owning = false;
            }
            5 | 6 => {
                prof.owning = false;
            }
            _ => {}
        }
        Gen::new(s0, s1, prof).program(&rets)
    }
}

impl WorkerState for W {
    fn render_only(&mut self, case: &Case) -> String {
        print_program(&self.make(case), Parens::Minimal)
    }

    fn reduce(&mut self, case: &Case, sig: &str) -> String {
        let prog = self.make(case);
        let sig = sig.to_string();
        let budget = std::env::var("VERIF_REDUCE_BUDGET").ok().and_then(|s| s.parse().ok()).unwrap_or(1500);
        if sig.starts_with("crash:") {
            let want: String = sig.split(':').take(2).collect::<Vec<_>>().join(":");
            let reduced = crate::reduce::reduce(
                &prog,
                |cand| crate::worker::forked_sig(|| self.check(cand, case, false)).starts_with(&want),
                budget,
            );
            return format!("{}\n// dies with {}", print_program(&reduced, Parens::Minimal), want);
        }
        let reduced = crate::reduce::reduce(
            &prog,
            |cand| {
                let o = crate::worker::guarded(|| self.check(cand, case, false));
                o.verdict == Verdict::Fail && o.sig == sig
            },
            budget * 2,
        );
        let o = crate::worker::guarded(|| self.check(&reduced, case, false));
        format!("{}\n// {}", print_program(&reduced, Parens::Minimal), o.msg.lines().take(8).collect::<Vec<_>>().join("\n// "))
    }

    fn run(&mut self, case: &Case, render: bool) -> Outcome {
        if case.first().map(|c| c.as_slice()) == Some(b"#!script") {
            return self.script_case(case);
        }
        let empty: Vec<u8> = Vec::new();
        let s0 = case.first().unwrap_or(&empty);
        if s0.first().copied().unwrap_or(0) >= 236 {
            return self.template_case(&s0[1..]);
        }
        let prog = self.make(case);
        self.check(&prog, case, render)
    }
}

impl W {
    /// Scripts from templates around values of the built-in types the program generator does not
    /// produce (addresses, prefixes, AS numbers, long strings, 64-bit constants): a literal in a helper
    /// function that is called several times, in a loop, from two call sites.
    fn template_case(&mut self, ctl: &[u8]) -> Outcome {
        let mut c = Choices::new(ctl);
        let lits: [(&str, &[&str]); 7] = [
            ("IpAddr", &["10.0.0.1", "192.168.1.255", "::1", "2001:db8::53", "0.0.0.0", "255.255.255.255"]),
            ("Prefix", &["10.0.0.0 / 8", "192.168.0.0 / 16", "2001:db8:: / 32", "0.0.0.0 / 0"]),
            ("Asn", &["AS0", "AS65000", "AS4294967295"]),
            ("String", &["\"\"", "\"a\"", "\"a string of more than twenty-three bytes, to be sure\"", "\"é\""]),
            ("u64", &["0", "4294967296", "9223372036854775807", "1311768467463790320"]),
            ("char", &["'a'", "'é'", "'\\n'"]),
            ("i64", &["-1", "-9223372036854775807", "4294967297"]),
        ];
        let (ty, pool) = lits[c.below(lits.len())];
        let a = pool[c.below(pool.len())];
        let b = pool[c.below(pool.len())];
        let d = pool[c.below(pool.len())];
        let k = 1 + c.below(4);
        let helper = match c.below(4) {
            0 => format!("fn hit(v: {ty}) -> i32 {{ if v == {a} {{ 1 }} else {{ 0 }} }}"),
            1 => format!("fn hit(v: {ty}) -> i32 {{ let w = {a}; if w == v {{ 1 }} else {{ 0 }} }}"),
            2 => format!("fn lit() -> {ty} {{ {a} }}\nfn hit(v: {ty}) -> i32 {{ if lit() == v && v == lit() {{ 1 }} else {{ 0 }} }}"),
            _ => format!("fn hit(v: {ty}) -> i32 {{ let n = 0; if v == {a} {{ n = n + 1; }} if v != {b} {{ n = n + 10; }} n }}"),
        };
        let main = match c.below(3) {
            0 => format!("fn main() -> i32 {{ let v = {d}; let n = 0; let i = 0; while i < {k} {{ n = n + hit(v); i = i + 1; }} n }}"),
            1 => format!("fn main() -> i32 {{ hit({d}) + hit({a}) * 100 + hit({b}) * 10000 }}"),
            _ => format!("fn twice(v: {ty}) -> i32 {{ hit(v) + hit(v) }}\nfn main() -> i32 {{ twice({d}) + twice({a}) * 100 }}"),
        };
        let src = format!("{helper}\n{main}\n");
        let lowered = match roto::FileTree::test_file("case.roto", &src, 0).parse().and_then(|p| p.typecheck(&self.rt)) {
            Ok(tc) => tc.lower_to_mir().lower_to_lir(),
            Err(e) => return Outcome::discard(format!("template rejected by the compiler:\n{}\n{src}", host::render_report(&e))),
        };
        host::reset(vec![1, 2, 3, 4, 5, 6]);
        crate::worker::take_panic();
        let r = std::panic::catch_unwind(std::panic::AssertUnwindSafe(|| lowered.verif_eval(&[])));
        let mut o = Outcome::pass();
        o.hash = fnv(src.as_bytes());
        o.classes.push("sub:template".into());
        let r = match r {
            Ok(r) => r,
            Err(_) => {
                crate::worker::take_panic();
                o.classes.push("evaluator:stopped-loudly".into());
                return o;
            }
        };
        let mut pkg = lowered.codegen();
        let f = match pkg.get_function::<fn() -> i32>("main") {
            Ok(f) => f,
            Err(e) => return Outcome::discard(format!("{e}")),
        };
        let got = f.call();
        match r {
            EvalResult::Value(Scalar::I32(x)) if x == got => {
                o.nontrivial = true;
                o.classes.push("evaluator:agrees".into());
                o.render = Some(src);
                o
            }
            EvalResult::Value(_) => Outcome::fail("evaluator-disagrees:return-value", format!("evaluator: {r:?}, compiled code: {got}\n{src}")),
            _ => {
                o.classes.push("evaluator:stopped-loudly".into());
                o
            }
        }
    }
}

impl W {
    /// literal script with `fn main() -> i32`: evaluator vs compiled code
    fn script_case(&mut self, case: &Case) -> Outcome {
        let src = String::from_utf8_lossy(case.get(1).map(|c| c.as_slice()).unwrap_or(b"")).to_string();
        let lowered = match roto::FileTree::test_file("case.roto", &src, 0).parse().and_then(|p| p.typecheck(&self.rt)) {
            Ok(tc) => tc.lower_to_mir().lower_to_lir(),
            Err(e) => return Outcome::fail("script-case:compile-error", host::render_report(&e)),
        };
        host::reset(vec![1, 2, 3, 4, 5, 6]);
        eprintln!("@@ctx script-case");
        let r = lowered.verif_eval(&[]);
        let elog = host::take_log();
        let mut pkg = lowered.codegen();
        let f = match pkg.get_function::<fn() -> i32>("main") {
            Ok(f) => f,
            Err(e) => return Outcome::fail("script-case:no-main", format!("{e}")),
        };
        host::reset(vec![1, 2, 3, 4, 5, 6]);
        let got = f.call();
        let jlog = host::take_log();
        let mut o = Outcome::pass();
        o.render = Some(src.clone());
        o.nontrivial = true;
        o.hash = fnv(src.as_bytes());
        if r != EvalResult::Value(Scalar::I32(got)) {
            return Outcome::fail("evaluator-disagrees:return-value", format!("evaluator: {r:?}, compiled code: {got}\n{src}"));
        }
        let same_log = elog.len() == jlog.len() && elog.iter().zip(jlog.iter()).all(|(a, b)| model::ev_same(a, b));
        if !same_log {
            return Outcome::fail("evaluator-disagrees:host-call-log", src);
        }
        o
    }
}

impl W {
    fn check(&mut self, prog: &Program, case: &Case, render: bool) -> Outcome {
        let empty: Vec<u8> = Vec::new();
        let src = print_program(prog, Parens::Minimal);
        let main = &prog.funcs[0];
        let lowered = match roto::FileTree::test_file("case.roto", &src, 0)
            .parse()
            .and_then(|p| p.typecheck(&self.rt))
        {
            Ok(tc) => tc.lower_to_mir().lower_to_lir(),
            Err(e) => {
                return Outcome::discard(format!(
                    "generated program rejected by the compiler:\n{}\n--- source ---\n{src}",
                    host::render_report(&e)
                ));
            }
        };
        // 1. evaluator on every input
        let mut runs: Vec<EvalRun> = Vec::new();
        for i in 0..4 {
            let chunk = case.get(2 + i).unwrap_or(&empty);
            if i > 0 && chunk.is_empty() {
                continue;
            }
            let words = decode_inputs(chunk, 8);
            let args = (words[6], words[7]);
            let margs = if main.params.is_empty() { vec![] } else { main_args(&main.ret, args.0, args.1) };
            let sargs: Vec<Scalar> = margs.iter().filter_map(scalar_of).collect();
            host::reset(words[..6].to_vec());
            crate::worker::take_panic();
            let r = std::panic::catch_unwind(std::panic::AssertUnwindSafe(|| lowered.verif_eval(&sargs)));
            let log = host::take_log();
            match r {
                Ok(res) => runs.push(EvalRun { words, args, outcome: Some((res, log)), panic_msg: String::new() }),
                Err(_) => {
                    let (loc, msg) = crate::worker::take_panic().unwrap_or_default();
                    runs.push(EvalRun { words, args, outcome: None, panic_msg: format!("{}: {}", crate::worker::short_loc(&loc), crate::worker::skeleton(&msg)) });
                }
            }
        }
        // 2. native code from the same lowered IR
        let mut pkg = lowered.codegen();
        let mainf = match get_main(&mut pkg, &main.ret, !main.params.is_empty()) {
            Ok(f) => f,
            Err(e) => return Outcome::discard(format!("cannot get main: {e}\n{src}")),
        };
        let mut o = Outcome::pass();
        o.evals = 0;
        let mut any_nt = false;
        let mut excluded: std::collections::BTreeMap<String, u64> = Default::default();
        for run in &runs {
            let inp = run.words[..6].to_vec();
            let margs = if main.params.is_empty() { vec![] } else { main_args(&main.ret, run.args.0, run.args.1) };
            // the model decides whether this pair may be executed natively at all (traps)
            let mut it = Interp::new(prog, inp.clone(), 300_000);
            let expected = match it.call_fn(0, margs.clone()) {
                Ok(v) | Err(Stop::Return(v)) => Some(v),
                Err(Stop::Trap(k)) => {
                    let id = if k.contains("by-zero") { "C10-F1" } else { "C10-F2" };
                    *excluded.entry(id.to_string()).or_default() += 1;
                    continue;
                }
                Err(_) => None,
            };
            o.evals += 1;
            let Some((eres, elog)) = &run.outcome else {
                o.classes.push("evaluator-stopped-loudly".into());
                o.classes.push(format!("evaluator-panic:{}", run.panic_msg.chars().take(70).collect::<String>()));
                continue;
            };
            o.classes.push("evaluator-completed".into());
            host::reset(inp.clone());
            let got = call_main(&mainf, run.args.0, run.args.1);
            let jlog = host::take_log();
            let eval_v = match eres {
                EvalResult::Unit => V::Unit,
                // the IR represents chars as 32-bit integers: same value, different tag
                EvalResult::Value(Scalar::U32(x)) if main.ret == Ty::Char => {
                    char::from_u32(*x).map(V::Char).unwrap_or(V::Int(IntTy::U32, *x as i128))
                }
                EvalResult::Value(s) => v_of(s),
                EvalResult::Other => V::Str("<non-scalar>".into()),
            };
            let ctx = || {
                format!(
                    "inputs in_*(k): {:?}\nmain args: {}\nreference model says: {}\n--- source ---\n{}",
                    inp.iter().map(|w| format!("{w:#x}")).collect::<Vec<_>>(),
                    margs.iter().map(model::show).collect::<Vec<_>>().join(", "),
                    expected.as_ref().map(model::show).unwrap_or_else(|| "?".into()),
                    src
                )
            };
            if !model::same(&eval_v, &got) {
                let mut f = Outcome::fail(
                    "evaluator-disagrees:return-value",
                    format!("IR evaluator completed with {} but the compiled code returns {}\n{}", model::show(&eval_v), model::show(&got), ctx()),
                );
                f.render = Some(src.clone());
                return f;
            }
            let same_log = elog.len() == jlog.len() && elog.iter().zip(jlog.iter()).all(|(a, b)| model::ev_same(a, b));
            if !same_log {
                let show_log = |l: &[Ev]| l.iter().map(model::show_ev).collect::<Vec<_>>().join("; ");
                let mut f = Outcome::fail(
                    "evaluator-disagrees:host-call-log",
                    format!("IR evaluator host calls: [{}]\ncompiled code host calls: [{}]\n{}", show_log(elog), show_log(&jlog), ctx()),
                );
                f.render = Some(src.clone());
                return f;
            }
            let p = &it.path;
            if p.not_ops > 0 || p.cmp_ops > 0 || p.calls > 0 || p.aggregate_access > 0 || p.host_calls > 0 {
                any_nt = true;
            }
            if p.not_ops > 0 {
                o.classes.push("path:not".into());
            }
            if p.float_ops > 0 {
                o.classes.push("path:float".into());
            }
        }
        o.excluded = excluded.into_iter().collect();
        o.nontrivial = any_nt;
        o.hash = fnv(src.as_bytes());
        o.classes.sort();
        o.classes.dedup();
        if render {
            o.render = Some(src);
        }
        o
    }
}

impl Prop for C20P {
    fn id(&self) -> &'static str {
        "C20"
    }
    fn rule(&self) -> String {
        "non-recursive generated programs (scalars, records, enums, options, strings, lists, host calls; three in ten from the layout-directed generator of C02: nested records and enums of mixed field sizes, copies, field writes, equality, strings) lowered once; the LIR evaluator runs main on up to 4 input vectors under catch_unwind, then the package built from the same lowered IR is called with the same arguments; oracle: if the evaluator completes, its return value and host-call log equal the compiled code's; a panic counts as 'stopped loudly'. Non-trivial: the evaluator completed and the executed path contains a `!`, a comparison, a script call, an aggregate access or a host call; distinct by program text".into()
    }
    fn assumptions(&self) -> Vec<String> {
        vec![
            "hook verif_eval (cfg roto_verif) passes scalar arguments to LoweredToLir::eval with a fresh Memory".into(),
            "pairs predicted to trap natively (integer division by zero) are not executed; MIN / -1 wraps and is executed".into(),
            "any evaluator panic is accepted as 'stops loudly'; the fraction of completed runs is reported in classes".into(),
        ]
    }
    fn cases(&self, tier: Tier) -> u32 {
        match tier {
            Tier::Quick => 30_000,
            Tier::Thorough => 1_000_000,
        }
    }
    fn shape(&self, _tier: Tier) -> CaseShape {
        CaseShape::streams(&[500, 200, 72, 72, 72, 72])
    }
    fn worker(&self, excl: &[String]) -> Box<dyn WorkerState> {
        Box::new(W { rt: host::build_runtime(), prof: eval_profile(excl) })
    }
}
