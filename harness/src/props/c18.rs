//! C18 — Registration is validated and makes items reachable where declared.

use std::collections::{BTreeMap, BTreeSet};
use std::fmt::Write as _;

use roto::{Constant, Function, Impl, Item, Library, Module, NoCtx, Runtime, Type, Use, Val, location};

use crate::core::*;
use crate::host;

pub struct C18P;
pub static C18: C18P = C18P;

/// marker types
#[derive(Clone, Copy, PartialEq, Debug)]
pub struct Mk<const N: usize>(pub u8);

const N_MARKERS: usize = 6;

#[derive(Clone, Debug)]
enum Spec {
    Module { name: String, children: Vec<Spec> },
    Type { name: String, marker: usize, copy: bool },
    /// shape: 0 = fn() -> i32, 1 = fn(M) -> i32, 2 = fn() -> M, 3 = fn(Option<M>) -> i32, 4 = fn(List<M>) -> i32, 5 = fn(Result<M, i32>) -> i32, 6 = fn(Verdict<bool, M>) -> i32
    Function { name: String, shape: u8, marker: usize, tag: i32 },
    Constant { name: String, marker: Option<usize>, value: i32 },
    Impl { marker: usize, methods: Vec<(String, bool, i32)> },
    Use { paths: Vec<Vec<String>> },
}

const NAMES: [&str; 10] = ["alpha", "beta", "gamma", "delta", "eps", "zeta", "Tx", "Ty", "Конь", "_u"];
const BAD_NAMES: [&str; 10] = ["", "fn", "a b", "1x", "a-b", "filter", "x.y", "\"q\"", "if", "a+"];
/// names that lex as one identifier followed by trivia: the documented rule ("a valid non-keyword identifier") rejects them
const TRIVIA_NAMES: [&str; 3] = ["a ", " a", "a//c"];

fn mname(i: usize) -> String {
    format!("M{i}")
}

struct Gen<'c> {
    c: Choices<'c>,
    tag: i32,
    /// injected defect description (None = library must register)
    defect: Option<String>,
    want_defect: u8,
}

impl<'c> Gen<'c> {
    fn name(&mut self) -> String {
        if self.c.chance(12) {
            // a name the runtime itself declares at the root: taken there, free inside a module
            return BUILTIN_ROOT_NAMES[self.c.below(BUILTIN_ROOT_NAMES.len())].to_string();
        }
        NAMES[self.c.below(NAMES.len())].to_string()
    }
    fn next_tag(&mut self) -> i32 {
        self.tag += 1;
        self.tag
    }
    fn items(&mut self, depth: u32, in_impl: bool) -> Vec<Spec> {
        let n = if depth == 0 { 2 + self.c.below(5) } else { self.c.below(4) };
        let mut v = Vec::new();
        for _ in 0..n {
            let k = self.c.below(if in_impl { 1 } else { 10 });
            let s = match k {
                0 | 1 | 2 => {
                    let shape = self.c.below(7) as u8;
                    Spec::Function { name: self.name(), shape, marker: self.c.below(N_MARKERS), tag: self.next_tag() }
                }
                3 | 4 if depth < 3 => {
                    let name = self.name();
                    let children = self.items(depth + 1, false);
                    Spec::Module { name, children }
                }
                5 => {
                    // mostly M<marker>, sometimes any name of the pool (also one the runtime declares itself)
                    let marker = self.c.below(N_MARKERS);
                    let copy = self.c.chance(128);
                    let name = if self.c.chance(45) { self.name() } else { mname(marker) };
                    Spec::Type { name, marker, copy }
                }
                6 => {
                    let marker = if self.c.chance(60) { Some(self.c.below(N_MARKERS)) } else { None };
                    Spec::Constant { name: self.name().to_uppercase(), marker, value: self.next_tag() }
                }
                7 => {
                    let marker = self.c.below(N_MARKERS);
                    let n = 1 + self.c.below(2);
                    let mut methods = Vec::new();
                    for _ in 0..n {
                        let nm = self.name();
                        let is_method = self.c.chance(150);
                        let t = self.next_tag();
                        methods.push((nm, is_method, t));
                    }
                    Spec::Impl { marker, methods }
                }
                8 => Spec::Use { paths: vec![] }, // filled in later, when the tree is known
                _ => {
                    let shape = self.c.below(7) as u8;
                    Spec::Function { name: self.name(), shape, marker: self.c.below(N_MARKERS), tag: self.next_tag() }
                }
            };
            v.push(s);
        }
        v
    }
}

// ------------------------------------------------------------------ the registry model

#[derive(Default, Clone)]
struct Scope {
    /// names declared in this scope -> kind
    names: BTreeMap<String, &'static str>,
    modules: BTreeMap<String, usize>,
    /// alias -> target (scope index, name)
    uses: BTreeMap<String, (usize, String)>,
}

#[derive(Clone)]
struct Model {
    scopes: Vec<Scope>,
    /// marker -> (scope, roto name)
    types: BTreeMap<usize, (usize, String)>,
    /// marker -> path of the type from the root (modules, then its name)
    type_paths: BTreeMap<usize, Vec<String>>,
    /// methods per marker
    methods: BTreeMap<usize, BTreeSet<String>>,
    /// reachable functions: (path, shape, marker, tag)
    fns: Vec<(Vec<String>, u8, usize, i32)>,
    consts: Vec<(Vec<String>, i32)>,
    meths: Vec<(usize, String, bool, i32)>,
}

const BUILTIN_ROOT_NAMES: [&str; 11] = ["String", "u8", "Option", "List", "bool", "Result", "Verdict", "Prefix", "i64", "f32", "StringBuf"];

impl Model {
    fn new() -> Self {
        let mut root = Scope::default();
        for b in BUILTIN_ROOT_NAMES {
            root.names.insert(b.to_string(), "builtin");
        }
        Model { scopes: vec![root], types: BTreeMap::new(), type_paths: BTreeMap::new(), methods: BTreeMap::new(), fns: vec![], consts: vec![], meths: vec![] }
    }

    fn valid_name(n: &str) -> bool {
        let mut ch = n.chars();
        let Some(f) = ch.next() else { return false };
        if !(f == '_' || f.is_alphabetic()) {
            return false;
        }
        if !ch.all(|c| c == '_' || c.is_alphanumeric()) {
            return false;
        }
        !matches!(n, "fn" | "if" | "filter" | "filtermap" | "let" | "match" | "for" | "while" | "in" | "import" | "return" | "accept" | "reject" | "const" | "record" | "enum" | "test" | "else" | "pkg" | "std" | "dep" | "super" | "true" | "false" | "_")
    }

    /// Apply one `add` call (five passes: modules, types, functions, constants, uses). Err = must be refused.
    fn add(&mut self, items: &[Spec]) -> Result<(), String> {
        let mut m = self.clone();
        m.pass_modules(0, items, &[])?;
        m.pass_types(0, items, &[])?;
        m.pass_functions(0, items, &[])?;
        m.pass_constants(0, items, &[])?;
        m.pass_uses(0, items)?;
        *self = m;
        Ok(())
    }

    fn declare(&mut self, scope: usize, name: &str, kind: &'static str) -> Result<(), String> {
        if !Self::valid_name(name) {
            return Err(format!("invalid name {name:?}"));
        }
        if self.scopes[scope].names.contains_key(name) {
            return Err(format!("name {name:?} already taken in its scope"));
        }
        self.scopes[scope].names.insert(name.to_string(), kind);
        Ok(())
    }

    fn pass_modules(&mut self, scope: usize, items: &[Spec], _path: &[String]) -> Result<(), String> {
        for it in items {
            if let Spec::Module { name, children } = it {
                self.declare(scope, name, "module")?;
                self.scopes.push(Scope::default());
                let id = self.scopes.len() - 1;
                self.scopes[scope].modules.insert(name.clone(), id);
                self.pass_modules(id, children, &[])?;
            }
        }
        Ok(())
    }

    fn child_scope(&self, scope: usize, name: &str) -> usize {
        self.scopes[scope].modules[name]
    }

    fn pass_types(&mut self, scope: usize, items: &[Spec], path: &[String]) -> Result<(), String> {
        for it in items {
            match it {
                Spec::Type { name, marker, .. } => {
                    self.declare(scope, name, "type")?;
                    if self.types.contains_key(marker) {
                        return Err(format!("Rust type Mk<{marker}> registered twice"));
                    }
                    self.types.insert(*marker, (scope, name.clone()));
                    let mut p = path.to_vec();
                    p.push(name.clone());
                    self.type_paths.insert(*marker, p);
                }
                Spec::Module { name, children } => {
                    let cs = self.child_scope(scope, name);
                    let mut p = path.to_vec();
                    p.push(name.clone());
                    self.pass_types(cs, children, &p)?;
                }
                _ => {}
            }
        }
        Ok(())
    }

    fn pass_functions(&mut self, scope: usize, items: &[Spec], path: &[String]) -> Result<(), String> {
        for it in items {
            match it {
                Spec::Function { name, shape, marker, tag } => {
                    if !Self::valid_name(name) {
                        return Err(format!("invalid name {name:?}"));
                    }
                    if *shape != 0 && !self.types.contains_key(marker) {
                        return Err(format!("function {name} mentions the unregistered type Mk<{marker}>"));
                    }
                    self.declare(scope, name, "function")?;
                    let mut p = path.to_vec();
                    p.push(name.clone());
                    self.fns.push((p, *shape, *marker, *tag));
                }
                Spec::Impl { marker, methods } => {
                    if !self.types.contains_key(marker) {
                        return Err(format!("impl block for the unregistered type Mk<{marker}>"));
                    }
                    for (n, is_method, tag) in methods {
                        if !Self::valid_name(n) {
                            return Err(format!("invalid name {n:?}"));
                        }
                        if !self.methods.entry(*marker).or_default().insert(n.clone()) {
                            return Err(format!("method {n} declared twice on Mk<{marker}>"));
                        }
                        self.meths.push((*marker, n.clone(), *is_method, *tag));
                    }
                }
                Spec::Module { name, children } => {
                    let cs = self.child_scope(scope, name);
                    let mut p = path.to_vec();
                    p.push(name.clone());
                    self.pass_functions(cs, children, &p)?;
                }
                _ => {}
            }
        }
        Ok(())
    }

    fn pass_constants(&mut self, scope: usize, items: &[Spec], path: &[String]) -> Result<(), String> {
        for it in items {
            match it {
                Spec::Constant { name, marker, value } => {
                    if let Some(m) = marker {
                        if !self.types.contains_key(m) {
                            return Err(format!("constant {name} has the unregistered type Mk<{m}>"));
                        }
                    }
                    self.declare(scope, name, "constant")?;
                    if marker.is_none() {
                        let mut p = path.to_vec();
                        p.push(name.clone());
                        self.consts.push((p, *value));
                    }
                }
                Spec::Module { name, children } => {
                    let cs = self.child_scope(scope, name);
                    let mut p = path.to_vec();
                    p.push(name.clone());
                    self.pass_constants(cs, children, &p)?;
                }
                _ => {}
            }
        }
        Ok(())
    }

    fn pass_uses(&mut self, scope: usize, items: &[Spec]) -> Result<(), String> {
        for it in items {
            match it {
                Spec::Use { paths } => {
                    for p in paths {
                        if p.is_empty() {
                            // not in the property's list of failure conditions: only "never a panic" applies
                            return Err("EITHER".into());
                        }
                        // walk the modules from the scope of the use declaration
                        let mut cur = scope;
                        for seg in &p[..p.len() - 1] {
                            // what a `use` of a missing path does is not part of the property: outside the domain
                            cur = *self.scopes[cur].modules.get(seg).ok_or_else(|| "AMBIGUOUS".to_string())?;
                        }
                        let last = p.last().unwrap();
                        if !self.scopes[cur].names.contains_key(last) {
                            return Err("AMBIGUOUS".into());
                        }
                        if let Some(prev) = self.scopes[scope].uses.get(last) {
                            if *prev != (cur, last.clone()) {
                                // two use declarations give one name to two different items: the name is taken
                                return Err(format!("use alias {last:?} already names another item in its scope"));
                            }
                            // naming the same item twice: not covered by the statement
                            return Err("AMBIGUOUS".into());
                        }
                        if self.scopes[scope].names.contains_key(last) {
                            // the statement does not say whether an alias may coexist with a declaration
                            // of the same name: outside the domain
                            return Err("AMBIGUOUS".into());
                        }
                        self.scopes[scope].uses.insert(last.clone(), (cur, last.clone()));
                    }
                }
                Spec::Module { name, children } => {
                    let cs = self.child_scope(scope, name);
                    self.pass_uses(cs, children)?;
                }
                _ => {}
            }
        }
        Ok(())
    }
}

// ------------------------------------------------------------------ building the real library

macro_rules! with_marker {
    ($i:expr, $T:ident => $body:expr) => {
        match $i {
            0 => { type $T = Val<Mk<0>>; $body }
            1 => { type $T = Val<Mk<1>>; $body }
            2 => { type $T = Val<Mk<2>>; $body }
            3 => { type $T = Val<Mk<3>>; $body }
            4 => { type $T = Val<Mk<4>>; $body }
            _ => { type $T = Val<Mk<5>>; $body }
        }
    };
}

fn mk_value<const N: usize>() -> Val<Mk<N>> {
    Val(Mk::<N>(N as u8))
}

fn build_item(s: &Spec) -> Result<Item, roto::RegistrationError> {
    Ok(match s {
        Spec::Module { name, children } => {
            let mut m = Module::new(name.as_str(), "", location!())?;
            for c in children {
                m.add(build_item(c)?);
            }
            m.into()
        }
        Spec::Type { name, marker, copy } => with_marker!(*marker, T => {
            if *copy { Type::copy::<T>(name.as_str(), "", location!())?.into() } else { Type::clone::<T>(name.as_str(), "", location!())?.into() }
        }),
        Spec::Function { name, shape, marker, tag } => {
            let tag = *tag;
            with_marker!(*marker, T => match shape {
                0 => Function::new(name.as_str(), "", vec![], move || -> i32 { tag }, location!())?.into(),
                1 => Function::new(name.as_str(), "", vec!["x"], move |_x: T| -> i32 { tag }, location!())?.into(),
                2 => Function::new(name.as_str(), "", vec![], move || -> T { Val(Mk(tag as u8)) }, location!())?.into(),
                3 => Function::new(name.as_str(), "", vec!["x"], move |_x: Option<T>| -> i32 { tag }, location!())?.into(),
                4 => Function::new(name.as_str(), "", vec!["x"], move |_x: roto::List<T>| -> i32 { tag }, location!())?.into(),
                5 => Function::new(name.as_str(), "", vec!["x"], move |x: Result<T, i32>| -> i32 { if let Err(e) = x { tag + e } else { -1 } }, location!())?.into(),
                _ => Function::new(name.as_str(), "", vec!["x"], move |x: roto::Verdict<bool, T>| -> i32 { if let roto::Verdict::Accept(true) = x { tag } else { -1 } }, location!())?.into(),
            })
        }
        Spec::Constant { name, marker, value } => match marker {
            None => Constant::new(name.as_str(), "", *value, location!())?.into(),
            Some(m) => with_marker!(*m, T => { let v: T = Val(Mk(*value as u8)); Constant::new(name.as_str(), "", v, location!())?.into() }),
        },
        Spec::Impl { marker, methods } => with_marker!(*marker, T => {
            let mut im = Impl::new::<T>(location!());
            for (n, is_method, tag) in methods {
                let tag = *tag;
                if *is_method {
                    im.add(Function::new(n.as_str(), "", vec!["x"], move |_x: T| -> i32 { tag }, location!())?);
                } else {
                    im.add(Function::new(n.as_str(), "", vec![], move || -> i32 { tag }, location!())?);
                }
            }
            im.into()
        }),
        Spec::Use { paths } => Use::new(paths.clone(), location!()).into(),
    })
}

fn describe(specs: &[Spec], ind: usize, out: &mut String) {
    for s in specs {
        let pad = "  ".repeat(ind);
        match s {
            Spec::Module { name, children } => {
                let _ = writeln!(out, "{pad}mod {name:?} {{");
                describe(children, ind + 1, out);
                let _ = writeln!(out, "{pad}}}");
            }
            Spec::Type { name, marker, copy } => {
                let _ = writeln!(out, "{pad}#[{}] type {name:?} = Val<Mk<{marker}>>;", if *copy { "copy" } else { "clone" });
            }
            Spec::Function { name, shape, marker, tag } => {
                let sig = ["() -> i32", "(M) -> i32", "() -> M", "(Option<M>) -> i32", "(List<M>) -> i32", "(Result<M, i32>) -> i32", "(Verdict<bool, M>) -> i32"][*shape as usize].replace('M', &format!("Mk<{marker}>"));
                let _ = writeln!(out, "{pad}fn {name:?}{sig}  // tag {tag}");
            }
            Spec::Constant { name, marker, value } => {
                let _ = writeln!(out, "{pad}const {name:?}: {} = {value};", marker.map(|m| format!("Mk<{m}>")).unwrap_or("i32".into()));
            }
            Spec::Impl { marker, methods } => {
                let _ = writeln!(out, "{pad}impl Mk<{marker}> {{ {:?} }}", methods);
            }
            Spec::Use { paths } => {
                let _ = writeln!(out, "{pad}use {:?};", paths);
            }
        }
    }
}

/// collect all (scope path, item name) pairs for `use` targets
fn collect_targets(specs: &[Spec], path: &mut Vec<String>, out: &mut Vec<Vec<String>>) {
    for s in specs {
        match s {
            Spec::Module { name, children } => {
                path.push(name.clone());
                collect_targets(children, path, out);
                path.pop();
            }
            Spec::Function { name, .. } | Spec::Constant { name, .. } | Spec::Type { name, .. } => {
                let mut p = path.clone();
                p.push(name.clone());
                out.push(p);
            }
            _ => {}
        }
    }
}

fn fill_uses(specs: &mut [Spec], here: &[String], targets: &[Vec<String>], c: &mut Choices) {
    for s in specs.iter_mut() {
        match s {
            Spec::Module { name, children } => {
                let mut h = here.to_vec();
                h.push(name.clone());
                fill_uses(children, &h, targets, c);
            }
            Spec::Use { paths } => {
                // targets below the current scope, written relative to it
                let below: Vec<Vec<String>> = targets.iter().filter(|t| t.len() > here.len() + 1 && t[..here.len()] == here[..]).map(|t| t[here.len()..].to_vec()).collect();
                // only paths that exist: what a `use` of a missing path does is not part of the property
                if !below.is_empty() {
                    paths.push(below[c.below(below.len())].clone());
                }
            }
            _ => {}
        }
    }
}

struct W {
    excl: Vec<String>,
}

fn has_excl(excl: &[String], id: &str) -> bool {
    excl.iter().any(|e| e == id)
}

fn scenario_simple(build: impl Fn() -> Result<Runtime<NoCtx>, String>, script: &str, want: i32) -> Outcome {
    match build() {
        Err(e) => Outcome::fail("refused-valid-library:scenario", e),
        Ok(rt) => match host::compile(&rt, script) {
            Err(e) => Outcome::fail("registered-item-unreachable:scenario", e),
            Ok(mut pkg) => {
                let got = pkg.get_function::<fn() -> i32>("t").map(|f| f.call()).unwrap_or(-1);
                if got == want {
                    let mut o = Outcome::pass();
                    o.nontrivial = true;
                    o
                } else {
                    Outcome::fail("reached-wrong-item:scenario", format!("got {got}, expected {want}"))
                }
            }
        },
    }
}

/// literal scenario: a `use` inside a registered module must make the item available inside that module
fn scenario_use_in_module() -> Outcome {
    let build = || -> Result<Runtime<NoCtx>, String> {
        let mut inner = Module::new("inner", "", location!()).map_err(|e| format!("{e}"))?;
        inner.add(Function::new("g", "", vec![], || -> i32 { 8 }, location!()).map_err(|e| format!("{e}"))?);
        let mut m = Module::new("m", "", location!()).map_err(|e| format!("{e}"))?;
        m.add(Function::new("f", "", vec![], || -> i32 { 7 }, location!()).map_err(|e| format!("{e}"))?);
        m.add(inner);
        m.add(Use::new(vec![vec!["inner".into(), "g".into()]], location!()));
        let mut rt = Runtime::new();
        rt.add(m).map_err(|e| format!("{e}"))?;
        Ok(rt)
    };
    let text = "mod m { fn f() -> i32 { 7 }  mod inner { fn g() -> i32 { 8 } }  use inner::g; }".to_string();
    match build() {
        Err(e) => Outcome::fail("refused-valid-library:use-in-module", format!("{e}\n{text}")),
        Ok(rt) => match host::compile(&rt, "fn t() -> i32 { m.g() + m.inner.g() + m.f() }") {
            Err(e) => Outcome::fail("registered-item-unreachable:use-in-module", format!("`m.g()` is not reachable although `use inner::g` is declared in m\n{e}\n{text}")),
            Ok(mut pkg) => {
                let got = pkg.get_function::<fn() -> i32>("t").map(|f| f.call()).unwrap_or(-1);
                if got == 23 {
                    let mut o = Outcome::pass();
                    o.nontrivial = true;
                    o.render = Some(text);
                    o
                } else {
                    Outcome::fail("reached-wrong-item:use-in-module", format!("m.g() + m.inner.g() + m.f() = {got}, expected 23\n{text}"))
                }
            }
        },
    }
}

struct Built {
    adds: Vec<Vec<Spec>>,
    defect: Option<String>,
}

fn build_case(ctl: &[u8], excl: &[String]) -> Built {
    let mut g = Gen { c: Choices::new(ctl), tag: 0, defect: None, want_defect: 0 };
    let mut items = g.items(0, false);
    // register every marker type that is mentioned, somewhere, unless a defect removes one
    let mut registered: BTreeSet<usize> = BTreeSet::new();
    fn scan(s: &[Spec], reg: &mut BTreeSet<usize>, mentioned: &mut BTreeSet<usize>) {
        for it in s {
            match it {
                Spec::Type { marker, .. } => {
                    reg.insert(*marker);
                }
                Spec::Function { shape, marker, .. } if *shape != 0 => {
                    mentioned.insert(*marker);
                }
                Spec::Constant { marker: Some(m), .. } => {
                    mentioned.insert(*m);
                }
                Spec::Impl { marker, .. } => {
                    mentioned.insert(*marker);
                }
                Spec::Module { children, .. } => scan(children, reg, mentioned),
                _ => {}
            }
        }
    }
    let mut mentioned = BTreeSet::new();
    scan(&items, &mut registered, &mut mentioned);
    for m in mentioned.difference(&registered.clone()) {
        items.push(Spec::Type { name: mname(*m), marker: *m, copy: true });
    }
    if has_excl(excl, "C18-F4") {
        // known finding: a `use` inside a module is registered in the enclosing scope. Keep uses at the root only.
        fn strip_nested_uses(s: &mut Vec<Spec>, depth: u32) {
            if depth > 0 {
                s.retain(|it| !matches!(it, Spec::Use { .. }));
            }
            for it in s.iter_mut() {
                if let Spec::Module { children, .. } = it {
                    strip_nested_uses(children, depth + 1);
                }
            }
        }
        strip_nested_uses(&mut items, 0);
    }
    let mut targets = Vec::new();
    collect_targets(&items, &mut Vec::new(), &mut targets);
    let mut c2 = Choices::new(&ctl[ctl.len().min(40)..]);
    fill_uses(&mut items, &[], &targets, &mut c2);
    // optionally inject one more defect of a chosen kind
    g.want_defect = g.c.below(12) as u8;
    let has = |id: &str| excl.iter().any(|e| e == id);
    match g.want_defect {
        0 => {
            let bad = BAD_NAMES[g.c.below(BAD_NAMES.len())];
            items.push(Spec::Function { name: bad.into(), shape: 0, marker: 0, tag: 999 });
            g.defect = Some(format!("function with the invalid name {bad:?}"));
        }
        1 => {
            let bad = BAD_NAMES[g.c.below(BAD_NAMES.len())];
            items.push(Spec::Module { name: bad.into(), children: vec![] });
            g.defect = Some(format!("module with the invalid name {bad:?}"));
        }
        2 if !has("C18-F5") => {
            let bad = TRIVIA_NAMES[g.c.below(TRIVIA_NAMES.len())];
            items.push(Spec::Constant { name: bad.into(), marker: None, value: 5 });
            g.defect = Some(format!("constant whose name {bad:?} is an identifier plus trivia"));
        }
        4 if !has("C18-F3") => {
            items.push(Spec::Use { paths: vec![vec![]] });
            g.defect = Some("use with an empty path".into());
        }
        6 | 7 => {
            // two use declarations at the root that give one name to two different items
            let mut pair: Option<(Vec<String>, Vec<String>)> = None;
            'find: for a in &targets {
                for b in &targets {
                    if a.len() >= 2 && b.len() >= 2 && a != b && a.last() == b.last() {
                        pair = Some((a.clone(), b.clone()));
                        break 'find;
                    }
                }
            }
            if let Some((a, b)) = pair {
                let one_decl = g.c.chance(128);
                if one_decl {
                    items.push(Spec::Use { paths: vec![a.clone(), b.clone()] });
                } else {
                    items.push(Spec::Use { paths: vec![a.clone()] });
                    items.push(Spec::Use { paths: vec![b.clone()] });
                }
                // (when something else already makes the library invalid or ambiguous the model says so)
                g.defect = Some(format!("uses of {} and {} under one name", a.join("::"), b.join("::")));
            }
        }
        8 | 9 => {
            // a use of something that is not there: the last segment is missing, or a module on the way
            // is.  The statement does not say whether such a library is refused (either outcome), but
            // neither the registration nor a script that mentions the alias afterwards may panic.
            let mut p: Vec<String> = if !targets.is_empty() && g.c.chance(160) { targets[g.c.below(targets.len())].clone() } else { vec![] };
            match g.c.below(3) {
                0 if p.len() >= 2 => {
                    let k = g.c.below(p.len() - 1);
                    p[k] = "zz_no_mod".into();
                }
                1 if !p.is_empty() => {
                    p.pop();
                    p.push("zz_missing".into());
                }
                _ => p = vec!["zz_missing".into()],
            }
            items.push(Spec::Use { paths: vec![p.clone()] });
            g.defect = Some(format!("use of the missing path {}", p.join("::")));
        }
        10 => {
            // an impl block without functions (or with one) for a type that is not registered, at the root
            // or inside a module
            fn strip(s: &mut Vec<Spec>) {
                s.retain(|it| !matches!(it, Spec::Type { marker: 5, .. }) && !matches!(it, Spec::Impl { marker: 5, .. }) && !matches!(it, Spec::Function { marker: 5, shape: 1..=6, .. }) && !matches!(it, Spec::Constant { marker: Some(5), .. }));
                for it in s.iter_mut() {
                    if let Spec::Module { children, .. } = it {
                        strip(children);
                    }
                }
            }
            strip(&mut items);
            let methods = if g.c.chance(170) { vec![] } else { vec![("lonely".to_string(), false, 997)] };
            let imp = Spec::Impl { marker: 5, methods };
            let mods: Vec<usize> = items.iter().enumerate().filter(|(_, it)| matches!(it, Spec::Module { name, .. } if Model::valid_name(name))).map(|(i, _)| i).collect();
            if !mods.is_empty() && g.c.chance(100) {
                let k = mods[g.c.below(mods.len())];
                if let Spec::Module { children, .. } = &mut items[k] {
                    children.push(imp);
                }
            } else {
                items.push(imp);
            }
            g.defect = Some("impl block (without functions) for an unregistered type".into());
        }
        5 => {
            items.push(Spec::Function { name: "needs_unregistered".into(), shape: 1, marker: 5, tag: 998 });
            // remove every registration of marker 5
            fn strip(s: &mut Vec<Spec>) {
                s.retain(|it| !matches!(it, Spec::Type { marker: 5, .. }));
                for it in s.iter_mut() {
                    if let Spec::Module { children, .. } = it {
                        strip(children);
                    }
                }
            }
            strip(&mut items);
            g.defect = Some("function mentioning an unregistered type".into());
        }
        _ => {}
    }
    // split into one or several add calls
    let n_adds = 1 + g.c.below(2);
    let mut adds: Vec<Vec<Spec>> = (0..n_adds).map(|_| Vec::new()).collect();
    for it in items {
        // uses go into the last call, when everything they can name has been declared
        let k = if matches!(it, Spec::Use { .. }) { n_adds - 1 } else { g.c.below(n_adds) };
        adds[k].push(it);
    }
    Built { adds, defect: g.defect }
}

impl WorkerState for W {
    fn render_only(&mut self, case: &Case) -> String {
        let empty: Vec<u8> = Vec::new();
        let b = build_case(case.first().unwrap_or(&empty), &self.excl);
        let mut s = String::new();
        for (i, a) in b.adds.iter().enumerate() {
            let _ = writeln!(s, "--- add call {i} ---");
            describe(a, 0, &mut s);
        }
        s
    }

    fn run(&mut self, case: &Case, render: bool) -> Outcome {
        if case.first().map(|c| c.as_slice()) == Some(b"#!scenario") {
            return match case.get(1).map(|c| c.as_slice()) {
                Some(b"use-in-module") => scenario_use_in_module(),
                Some(b"use-nested-path") => scenario_simple(|| {
                    let mut c = Module::new("c", "", location!()).map_err(|e| format!("{e}"))?;
                    c.add(Function::new("deep", "", vec![], || -> i32 { 9 }, location!()).map_err(|e| format!("{e}"))?);
                    let mut b = Module::new("b", "", location!()).map_err(|e| format!("{e}"))?;
                    b.add(c);
                    let mut a = Module::new("a", "", location!()).map_err(|e| format!("{e}"))?;
                    a.add(b);
                    let mut rt = Runtime::new();
                    let mut lib = Library::new();
                    lib.add(a.into());
                    lib.add(Use::new(vec![vec!["a".into(), "b".into(), "c".into(), "deep".into()]], location!()).into());
                    rt.add(lib).map_err(|e| format!("{e}"))?;
                    Ok(rt)
                }, "fn t() -> i32 { deep() + a.b.c.deep() }", 18),
                Some(b"use-empty-path") => {
                    let mut rt = Runtime::new();
                    let _ = rt.add(Use::new(vec![vec![]], location!()));
                    let mut o = Outcome::pass();
                    o.nontrivial = true;
                    o
                }
                Some(b"use-missing-item") => {
                    // a use of something that is not there may be refused or accepted, but a script that
                    // mentions the name afterwards gets a package or a report, not a panic
                    let mut a = Module::new("a", "", location!()).map_err(|e| format!("{e}")).unwrap();
                    a.add(Function::new("foo", "", vec![], || -> i32 { 1 }, location!()).unwrap());
                    let mut rt = Runtime::new();
                    let mut lib = Library::new();
                    lib.add(a.into());
                    lib.add(Use::new(vec![vec!["a".into(), "nothing".into()]], location!()).into());
                    if rt.add(lib).is_ok() {
                        eprintln!("@@ctx alias-probe");
                        let _ = host::compile(&rt, "fn t() -> i32 { nothing() }");
                        let _ = host::compile(&rt, "fn t() { let x = nothing; }");
                    }
                    let mut o = Outcome::pass();
                    o.nontrivial = true;
                    o
                }
                Some(b"refused-then-registered") => {
                    // an `add` that is refused because a type is not registered must not poison that type: after
                    // the type has been registered, items that mention it are accepted and usable.  The refused
                    // library holds nothing but the one item; marker types that nothing else in the harness uses.
                    fn step<T: Clone + PartialEq + Send + Sync + 'static>(kind: u8, tname: &'static str) -> Result<(), String> {
                        let mk = |name: &'static str| -> Result<roto::Item, String> {
                            Ok(match kind {
                                0 => Function::new(name, "", vec!["x"], |_x: Val<T>| -> i32 { 5 }, location!()).map_err(|e| format!("{e}"))?.into(),
                                1 => Function::new(name, "", vec!["x"], |x: Option<Val<T>>| -> Option<Val<T>> { x }, location!()).map_err(|e| format!("{e}"))?.into(),
                                _ => {
                                    let mut im = Impl::new::<Val<T>>(location!());
                                    im.add(Function::new(name, "", vec![], || -> i32 { 5 }, location!()).map_err(|e| format!("{e}"))?);
                                    im.into()
                                }
                            })
                        };
                        let mut rt = Runtime::new();
                        if rt.add(mk("early")?).is_ok() {
                            return Err(format!("kind {kind}: an item mentioning the unregistered type {tname} was accepted"));
                        }
                        rt.add(Type::clone::<Val<T>>(tname, "", location!()).map_err(|e| format!("{e}"))?).map_err(|e| format!("kind {kind}: registering {tname} after a refused add failed: {e}"))?;
                        rt.add(mk("late")?).map_err(|e| format!("kind {kind}: {tname} is registered now, but an item mentioning it is still refused: {e}"))?;
                        let script = match kind {
                            0 => format!("fn t(x: {tname}) -> i32 {{ late(x) }}"),
                            1 => format!("fn t(x: {tname}?) -> {tname}? {{ late(x) }}"),
                            _ => format!("fn t() -> i32 {{ {tname}.late() }}"),
                        };
                        host::compile(&rt, &script).map(|_| ()).map_err(|e| format!("kind {kind}: the script that uses the item does not compile:\n{e}\n{script}"))
                    }
                    for (kind, r) in [(0u8, step::<Mk<40>>(0, "Early40")), (1, step::<Mk<41>>(1, "Early41")), (2, step::<Mk<42>>(2, "Early42"))] {
                        if let Err(e) = r {
                            return Outcome::fail(format!("refused-valid-library:after-a-refused-add:{kind}"), e);
                        }
                    }
                    // the same for a type whose own registration was refused because its name is taken: it is not
                    // registered afterwards (a function mentioning it is refused) and can be registered under a
                    // free name
                    {
                        let mut rt = Runtime::new();
                        let taken = Type::clone::<Val<Mk<43>>>("String", "", location!()).map_err(|e| format!("{e}")).and_then(|t| rt.add(t).map_err(|e| format!("{e}")));
                        if taken.is_ok() {
                            return Outcome::fail("accepted-invalid-library:type-named-like-a-primitive", "a registered type named \"String\" was accepted at the root".to_string());
                        }
                        let f = Function::new("early43", "", vec!["x"], |_x: Val<Mk<43>>| -> i32 { 5 }, location!()).map_err(|e| format!("{e}"));
                        if let Ok(f) = f {
                            if rt.add(f).is_ok() {
                                return Outcome::fail("accepted-invalid-library:after-a-refused-add", "a function mentioning a type whose registration was refused (name taken) was accepted: the type counts as registered".to_string());
                            }
                        }
                        let late = Type::clone::<Val<Mk<43>>>("Late43", "", location!()).map_err(|e| format!("{e}")).and_then(|t| rt.add(t).map_err(|e| format!("{e}")));
                        if let Err(e) = late {
                            return Outcome::fail("refused-valid-library:after-a-refused-add:3", format!("the registration of a Rust type under the taken name \"String\" was refused; registering it under the free name \"Late43\" afterwards is refused too: {e}"));
                        }
                        let f = Function::new("late43", "", vec!["x"], |_x: Val<Mk<43>>| -> i32 { 5 }, location!()).map_err(|e| format!("{e}")).and_then(|f| rt.add(f).map_err(|e| format!("{e}")));
                        if let Err(e) = f {
                            return Outcome::fail("refused-valid-library:after-a-refused-add:3", format!("Late43 is registered, but a function mentioning it is refused: {e}"));
                        }
                        if let Err(e) = host::compile(&rt, "fn t(x: Late43) -> i32 { late43(x) }") {
                            return Outcome::fail("refused-valid-library:after-a-refused-add:3", format!("the script that uses the late registration does not compile:\n{e}"));
                        }
                    }
                    let mut o = Outcome::pass();
                    o.nontrivial = true;
                    o.hash = fnv(b"refused-then-registered");
                    o
                }
                Some(b"refused-then-accepted") => {
                    // a library that is refused because of its last item, then a library that is fine: every item of
                    // the accepted library is what it was declared as; a name the refused library declared is
                    // either unknown or what it was declared as, never something else; nothing panics
                    let mk = |name: &'static str, v: i32| Function::new(name, "", vec![], move || -> i32 { v }, location!()).map_err(|e| format!("{e}"));
                    let run = || -> Result<(), String> {
                        let mut rt = Runtime::new();
                        let mut lib1 = Library::new();
                        lib1.add(mk("one", 1)?.into());
                        lib1.add(mk("uno", 11)?.into());
                        lib1.add(Function::new("bad", "", vec!["x"], |_x: Val<Mk<44>>| -> i32 { 0 }, location!()).map_err(|e| format!("{e}"))?.into());
                        if rt.add(lib1).is_ok() {
                            return Err("a library with a function that mentions an unregistered type was accepted".into());
                        }
                        // a script right after the refused call
                        let _ = host::compile(&rt, "fn t() -> i32 { 1 }").map_err(|e| format!("after a refused add a plain script does not compile: {e}"))?;
                        let mut a = Module::new("a", "", location!()).map_err(|e| format!("{e}"))?;
                        a.add(mk("f", 10)?);
                        let mut lib2 = Library::new();
                        lib2.add(mk("two", 2)?.into());
                        lib2.add(a.into());
                        lib2.add(mk("three", 3)?.into());
                        rt.add(lib2).map_err(|e| format!("a valid library was refused after an earlier refused add: {e}"))?;
                        for (script, want, must) in [("fn t() -> i32 { two() }", 2, true), ("fn t() -> i32 { a.f() }", 10, true), ("fn t() -> i32 { three() }", 3, true), ("fn t() -> i32 { one() }", 1, false), ("fn t() -> i32 { uno() }", 11, false)] {
                            match host::compile(&rt, script) {
                                Err(e) if must => return Err(format!("`{script}` does not compile although the accepted library declares the item: {e}")),
                                Err(_) => {}
                                Ok(mut pkg) => {
                                    let got = pkg.get_function::<fn() -> i32>("t").map(|f| f.call()).map_err(|e| format!("{e}"))?;
                                    if got != want {
                                        return Err(format!("`{script}` returned {got}, the item was declared to return {want}"));
                                    }
                                }
                            }
                        }
                        Ok(())
                    };
                    if let Err(e) = run() {
                        return Outcome::fail("reached-wrong-item:after-a-refused-add", e);
                    }
                    let mut o = Outcome::pass();
                    o.nontrivial = true;
                    o.hash = fnv(b"refused-then-accepted");
                    o
                }
                Some(b"use-through-alias-order") => {
                    // `use a::b; use b::f;`: whatever a use that starts with another use's alias means, it means
                    // the same in either item order, as separate items and as one item with two paths
                    let build = |swap: bool, one_item: bool| -> Result<Runtime<NoCtx>, String> {
                        let mut b = Module::new("b", "", location!()).map_err(|e| format!("{e}"))?;
                        b.add(Function::new("f", "", vec![], || -> i32 { 20 }, location!()).map_err(|e| format!("{e}"))?);
                        let mut a = Module::new("a", "", location!()).map_err(|e| format!("{e}"))?;
                        a.add(b);
                        let p1: Vec<String> = vec!["a".into(), "b".into()];
                        let p2: Vec<String> = vec!["b".into(), "f".into()];
                        let (x, y) = if swap { (p2, p1) } else { (p1, p2) };
                        let mut lib = Library::new();
                        if swap {
                            // the module comes last as well
                            if one_item {
                                lib.add(Use::new(vec![x, y], location!()).into());
                            } else {
                                lib.add(Use::new(vec![x], location!()).into());
                                lib.add(Use::new(vec![y], location!()).into());
                            }
                            lib.add(a.into());
                        } else {
                            lib.add(a.into());
                            if one_item {
                                lib.add(Use::new(vec![x, y], location!()).into());
                            } else {
                                lib.add(Use::new(vec![x], location!()).into());
                                lib.add(Use::new(vec![y], location!()).into());
                            }
                        }
                        Runtime::from_lib(lib).map_err(|e| format!("{e}"))
                    };
                    for one_item in [false, true] {
                        let r1 = build(false, one_item);
                        let r2 = build(true, one_item);
                        if r1.is_ok() != r2.is_ok() {
                            return Outcome::fail("order-dependent-outcome:use-through-alias", format!("`use a::b; use b::f;` (one item: {one_item}): in this order {:?}, in the other order {:?}", r1.as_ref().map(|_| "accepted").map_err(|e| e.clone()), r2.as_ref().map(|_| "accepted").map_err(|e| e.clone())));
                        }
                        if let (Ok(rt1), Ok(rt2)) = (&r1, &r2) {
                            let c1 = host::compile(rt1, "fn t() -> i32 { f() }").is_ok();
                            let c2 = host::compile(rt2, "fn t() -> i32 { f() }").is_ok();
                            if c1 != c2 {
                                return Outcome::fail("order-dependent-outcome:use-through-alias", format!("`use a::b; use b::f;` registered in both orders, but `f()` compiles only in one (first order: {c1}, other order: {c2})"));
                            }
                        }
                    }
                    let mut o = Outcome::pass();
                    o.nontrivial = true;
                    o.hash = fnv(b"use-through-alias-order");
                    o
                }
                Some(b"type-named-like-a-primitive") => {
                    // at the root the name is taken; in a module it is free and the type is reachable there
                    for n in ["u8", "Prefix", "List", "String", "bool"] {
                        let mut rt = Runtime::new();
                        let r = Type::clone::<Val<Mk<2>>>(n, "", location!()).map_err(|e| format!("{e}")).and_then(|t| rt.add(t).map_err(|e| format!("{e}")));
                        if r.is_ok() {
                            return Outcome::fail("accepted-invalid-library:type-named-like-a-primitive", format!("a registered type named {n:?} was accepted at the root, where that name is taken"));
                        }
                    }
                    return scenario_simple(|| {
                        let mut m = Module::new("shapes", "", location!()).map_err(|e| format!("{e}"))?;
                        m.add(Type::clone::<Val<Mk<2>>>("u8", "", location!()).map_err(|e| format!("{e}"))?);
                        let mut im = Impl::new::<Val<Mk<2>>>(location!());
                        im.add(Function::new("make", "", vec![], || -> i32 { 41 }, location!()).map_err(|e| format!("{e}"))?);
                        m.add(im);
                        let mut rt = Runtime::new();
                        rt.add(m).map_err(|e| format!("{e}"))?;
                        Ok(rt)
                    }, "fn t() -> i32 { let x: u8 = 1; shapes.u8.make() + 1 }", 42);
                }
                Some(b"name-with-trivia") => {
                    for n in TRIVIA_NAMES {
                        if Constant::new(n, "", 1i32, location!()).is_ok() {
                            return Outcome::fail("accepted-invalid-library:name-with-trivia", format!("Constant::new({n:?}, ..) succeeded"));
                        }
                    }
                    let mut o = Outcome::pass();
                    o.nontrivial = true;
                    o
                }
                Some(b"macro-use-groups") => {
                    // the `library!` macro: nested groups in `use` declarations, in several item orders
                    let builds: Vec<(&str, fn() -> Result<Runtime<NoCtx>, String>, &str, i32)> = vec![
                        (
                            "use a::{b::f, g};",
                            || {
                                Runtime::from_lib(roto::library! {
                                    mod a { fn g() -> i32 { 1 } mod b { fn f() -> i32 { 20 } fn g() -> i32 { 300 } } }
                                    use a::{b::f, g};
                                })
                                .map_err(|e| format!("{e}"))
                            },
                            "fn t() -> i32 { f() + g() }",
                            21,
                        ),
                        (
                            "use a::{g, b::f};",
                            || {
                                Runtime::from_lib(roto::library! {
                                    mod a { fn g() -> i32 { 1 } mod b { fn f() -> i32 { 20 } fn g() -> i32 { 300 } } }
                                    use a::{g, b::f};
                                })
                                .map_err(|e| format!("{e}"))
                            },
                            "fn t() -> i32 { f() + g() }",
                            21,
                        ),
                        (
                            "use a::{b::{f, h}, g, c::k};",
                            || {
                                Runtime::from_lib(roto::library! {
                                    mod a {
                                        fn g() -> i32 { 1 }
                                        fn h() -> i32 { 5000 }
                                        mod b { fn f() -> i32 { 20 } fn h() -> i32 { 300 } fn k() -> i32 { 70000 } }
                                        mod c { fn k() -> i32 { 4000 } }
                                    }
                                    use a::{b::{f, h}, g, c::k};
                                })
                                .map_err(|e| format!("{e}"))
                            },
                            "fn t() -> i32 { f() + g() + h() + k() }",
                            4321,
                        ),
                        (
                            "use a::b::f; use a::{b::g};",
                            || {
                                Runtime::from_lib(roto::library! {
                                    mod a { fn g() -> i32 { 1 } mod b { fn f() -> i32 { 20 } fn g() -> i32 { 300 } } }
                                    use a::b::f;
                                    use a::{b::g};
                                })
                                .map_err(|e| format!("{e}"))
                            },
                            "fn t() -> i32 { f() + g() }",
                            320,
                        ),
                    ];
                    for (text, build, script, want) in builds {
                        let o = scenario_simple(build, script, want);
                        if o.verdict == Verdict::Fail {
                            let mut f = Outcome::fail(format!("{}:macro-use-groups", o.sig.split(':').next().unwrap_or("scenario")), format!("library! {{ .. {text} }} with script `{script}`: {}", o.msg));
                            f.render = Some(text.to_string());
                            return f;
                        }
                    }
                    let mut o = Outcome::pass();
                    o.nontrivial = true;
                    o.hash = fnv(b"macro-use-groups");
                    o
                }
                _ => Outcome::discard("unknown scenario"),
            };
        }
        let empty: Vec<u8> = Vec::new();
        let b = build_case(case.first().unwrap_or(&empty), &self.excl);
        let text = self.render_only(case);
        let mut model = Model::new();
        let mut rt = Runtime::new();
        let mut o = Outcome::pass();
        o.evals = 0;
        let fail = |sig: &str, msg: String| -> Outcome {
            let mut f = Outcome::fail(sig, format!("{msg}\n{text}"));
            f.render = Some(text.clone());
            f
        };
        let mut any_err = false;
        for add in &b.adds {
            let exp = model.add(add);
            let ambiguous = exp.as_ref().err().map(|e| e == "AMBIGUOUS").unwrap_or(false);
            eprintln!("@@ctx registration");
            // construction errors (names) and add errors both count as "refused"
            let mut lib = Library::new();
            let mut real: Result<(), String> = Ok(());
            for s in add {
                match build_item(s) {
                    Ok(it) => lib.add(it),
                    Err(e) => {
                        real = Err(format!("{e}"));
                        break;
                    }
                }
            }
            if real.is_ok() {
                real = rt.add(lib).map_err(|e| format!("{e}"));
            }
            o.evals += 1;
            if ambiguous || exp.as_ref().err().map(|e| e == "EITHER").unwrap_or(false) {
                // both outcomes are acceptable, a panic is not (it would have been caught as a failure):
                // neither here nor when a script mentions one of the names the use declarations introduce
                o.classes.push(if ambiguous { "undecided-use-no-panic".into() } else { "either-outcome-no-panic".into() });
                if real.is_ok() {
                    o.classes.push("undecided-library-accepted".into());
                    fn aliases(specs: &[Spec], here: &[String], out: &mut Vec<String>) {
                        for s in specs {
                            match s {
                                Spec::Module { name, children } => {
                                    let mut h = here.to_vec();
                                    h.push(name.clone());
                                    aliases(children, &h, out);
                                }
                                Spec::Use { paths } => {
                                    for p in paths {
                                        if let Some(l) = p.last() {
                                            out.push(l.clone());
                                            if !here.is_empty() {
                                                out.push(format!("{}.{}", here.join("."), l));
                                            }
                                        }
                                    }
                                }
                                _ => {}
                            }
                        }
                    }
                    let mut names = Vec::new();
                    aliases(add, &[], &mut names);
                    names.sort();
                    names.dedup();
                    for n in names.iter().take(6) {
                        for form in [format!("fn zz_probe() {{ {n}(); }}"), format!("fn zz_probe() {{ let zz = {n}; }}"), format!("fn zz_probe(x: {n}) {{ }}"), format!("fn zz_probe() {{ {n}.zz(); }}")] {
                            eprintln!("@@ctx alias-probe");
                            // Ok or a report, both fine; a panic is caught by the worker and is a failure
                            if let Err(e) = host::compile(&rt, &form) {
                                let _ = e.len();
                            }
                            o.evals += 1;
                        }
                    }
                }
                o.nontrivial = true;
                return o;
            }
            match (&exp, &real) {
                (Ok(()), Ok(())) => {}
                (Err(_), Err(_)) => {
                    any_err = true;
                    // a refused add must leave earlier registrations usable; stop here
                    break;
                }
                (Ok(()), Err(e)) => return fail("refused-valid-library", format!("registration failed: {e}")),
                (Err(why), Ok(())) => return fail(&format!("accepted-invalid-library:{}", why.split_whitespace().take(3).collect::<Vec<_>>().join("-")), format!("registration succeeded although: {why}")),
            }
        }
        if any_err {
            o.classes.push("refused".into());
            if b.defect.is_some() {
                o.classes.push("injected-defect".into());
            }
            o.nontrivial = true;
        } else {
            // reachability: every function at its declared path with its tag
            let mut src = String::new();
            let mut expected = Vec::new();
            let arg = |shape: u8, marker: usize, model: &Model| -> Option<String> {
                // a value of the marker type comes from a shape-2 function, if one exists
                let maker = model.fns.iter().find(|(_, s, m, _)| *s == 2 && *m == marker).map(|(p, ..)| format!("{}()", p.join(".")));
                match shape {
                    0 | 2 => Some(String::new()),
                    1 => maker,
                    3 => Some("Option.None".into()),
                    4 => Some("[]".into()),
                    // the payloads tell the two type arguments apart
                    5 => Some("Result.Err(0)".into()),
                    _ => Some("Verdict.Accept(true)".into()),
                }
            };
            for (i, (p, shape, marker, tag)) in model.fns.iter().enumerate() {
                if *shape == 2 {
                    continue;
                }
                let Some(a) = arg(*shape, *marker, &model) else { continue };
                let _ = writeln!(src, "fn t{i}() -> i32 {{ {}({a}) }}", p.join("."));
                expected.push((format!("t{i}"), *tag));
            }
            // every path a `use` declaration names: scope path + alias
            {
                fn scope_paths(m: &Model, s: usize, here: &[String], out: &mut Vec<(usize, Vec<String>)>) {
                    out.push((s, here.to_vec()));
                    for (n, c) in &m.scopes[s].modules {
                        let mut h = here.to_vec();
                        h.push(n.clone());
                        scope_paths(m, *c, &h, out);
                    }
                }
                let mut sp = Vec::new();
                scope_paths(&model, 0, &[], &mut sp);
                let mut ai = 0;
                for (s, here) in &sp {
                    for (alias, (ts, tn)) in &model.scopes[*s].uses {
                        // only aliases of i32-returning nullary functions and i32 constants are called
                        let target_path: Vec<String> = sp.iter().find(|(x, _)| x == ts).map(|(_, p)| p.clone()).unwrap_or_default();
                        let mut full = target_path.clone();
                        full.push(tn.clone());
                        if let Some((_, shape, _, tag)) = model.fns.iter().find(|(p, ..)| *p == full) {
                            if *shape == 0 {
                                let mut ap = here.clone();
                                ap.push(alias.clone());
                                let _ = writeln!(src, "fn a{ai}() -> i32 {{ {}() }}", ap.join("."));
                                expected.push((format!("a{ai}"), *tag));
                                ai += 1;
                            }
                        } else if let Some((_, v)) = model.consts.iter().find(|(p, _)| *p == full) {
                            let mut ap = here.clone();
                            ap.push(alias.clone());
                            let _ = writeln!(src, "fn a{ai}() -> i32 {{ {} }}", ap.join("."));
                            expected.push((format!("a{ai}"), *v));
                            ai += 1;
                        }
                    }
                }
                if ai > 0 {
                    o.classes.push("use-alias-called".into());
                }
            }
            for (i, (p, v)) in model.consts.iter().enumerate() {
                let _ = writeln!(src, "fn k{i}() -> i32 {{ {} }}", p.join("."));
                expected.push((format!("k{i}"), *v));
            }
            for (i, (marker, n, is_method, tag)) in model.meths.iter().enumerate() {
                let (tscope, tname) = &model.types[marker];
                let _ = tscope;
                if *is_method {
                    if let Some(mk) = model.fns.iter().find(|(_, s, m, _)| *s == 2 && m == marker).map(|(p, ..)| format!("{}()", p.join("."))) {
                        let _ = writeln!(src, "fn m{i}() -> i32 {{ {mk}.{n}() }}");
                        expected.push((format!("m{i}"), *tag));
                    }
                } else {
                    // a static method is reached through the path of its type
                    let _ = tname;
                    let _ = writeln!(src, "fn m{i}() -> i32 {{ {}.{n}() }}", model.type_paths[marker].join("."));
                    expected.push((format!("m{i}"), *tag));
                }
            }
            if !src.is_empty() {
                match host::compile(&rt, &src) {
                    Err(e) => return fail("registered-item-unreachable", format!("{e}\n--- script ---\n{src}")),
                    Ok(mut pkg) => {
                        for (name, want) in &expected {
                            let f = match pkg.get_function::<fn() -> i32>(name) {
                                Ok(f) => f,
                                Err(e) => return fail("get_function", format!("{e}")),
                            };
                            let got = f.call();
                            o.evals += 1;
                            if got != *want {
                                return fail("reached-wrong-item", format!("{name} returned {got}, expected tag {want}\n--- script ---\n{src}"));
                            }
                        }
                    }
                }
            }
            // a path that was not declared must not compile
            let bogus = "fn z() -> i32 { nowhere_mod.nothing() }";
            if host::compile(&rt, bogus).is_ok() {
                return fail("undeclared-path-reachable", bogus.into());
            }
            o.classes.push("registered".into());
            let depth2 = model.fns.iter().any(|(p, ..)| p.len() >= 3);
            o.nontrivial = depth2 || !model.meths.is_empty();
        }
        o.hash = fnv(text.as_bytes());
        if render {
            o.render = Some(text);
        }
        o
    }
}

impl Prop for C18P {
    fn id(&self) -> &'static str {
        "C18"
    }
    fn rule(&self) -> String {
        "libraries built with the programmatic API (Module::new, Type::clone/copy::<Val<Mk<N>>> over 6 marker types, Function::new over closures of 7 signature shapes mentioning marker types / Option / List / Result / Verdict of them, Constant::new, Impl::new, Use::new) as random trees (depth <= 3) in random item order, registered by 1-2 add calls, optionally with one injected defect (invalid name, identifier plus trivia, use of a missing path, empty use path, function mentioning an unregistered type, impl block without functions for an unregistered type; duplicate names and doubly registered types arise from the small name pools); oracle: a registry model (five passes, scopes, name tables) predicts Ok/Err for each add call, the real calls must agree and never panic; after success a generated script calls every function, constant, method and static method by its declared path and checks the identity tag, and an undeclared path must not compile; after a registration whose outcome the statement leaves open (a use of a missing path) every name a use declaration introduces is probed from scripts in four positions: a panic is a failure. Non-trivial: a function at module depth >= 2 or an impl block is present, or the library is refused; distinct by library description".into()
    }
    fn assumptions(&self) -> Vec<String> {
        vec![
            "function signatures come from a fixed pool of closure shapes".into(),
            "a `use` whose alias equals a name declared in the same scope is discarded (not decided by the property)".into(),
        ]
    }
    fn cases(&self, tier: Tier) -> u32 {
        match tier {
            Tier::Quick => 150_000,
            Tier::Thorough => 3_000_000,
        }
    }
    fn shape(&self, _tier: Tier) -> CaseShape {
        CaseShape::streams(&[200])
    }
    fn fixed_cases(&self, _tier: Tier) -> Vec<Case> {
        // the macro route cannot be generated at run time: fixed scenarios
        vec![vec![b"#!scenario".to_vec(), b"macro-use-groups".to_vec()], vec![b"#!scenario".to_vec(), b"use-nested-path".to_vec()], vec![b"#!scenario".to_vec(), b"use-missing-item".to_vec()], vec![b"#!scenario".to_vec(), b"refused-then-registered".to_vec()], vec![b"#!scenario".to_vec(), b"use-through-alias-order".to_vec()], vec![b"#!scenario".to_vec(), b"refused-then-accepted".to_vec()]]
    }
    fn worker(&self, excl: &[String]) -> Box<dyn WorkerState> {
        Box::new(W { excl: excl.to_vec() })
    }
    fn max_discard_rate(&self) -> f64 {
        0.1
    }
}
