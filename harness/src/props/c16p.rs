//! C16, third engine: free-running real threads on lists of plain data (`u64`) that a
//! script made.
//!
//! Lists of plain data have no clone function: an element is read by copying bytes, and
//! the script-side entry points treat that as a separate path.  This engine races
//! (a) pushes that move the buffer against `get` from Rust and from scripts, and
//! (b) two ordered pushes on two lists (`a.push(y)` then `b.push(x)`) against a
//! concatenation of the two, which has to be one of the three results a linear order
//! allows.  Elements carry a magic pattern and freed memory is poisoned by the harness
//! allocator, so a stale read is visible as a value nobody ever stored.

use std::sync::Arc;
use std::sync::atomic::{AtomicBool, AtomicUsize, Ordering};

use roto::{List, NoCtx, Runtime, TypedFunc};

use crate::core::*;
use crate::host;

type L = List<u64>;

const MAGIC: u64 = 0x5A5A_0000_0000_0000;

pub struct PlainFns {
    s_make: TypedFunc<NoCtx, fn(u64) -> L>,
    s_get: TypedFunc<NoCtx, fn(L, u64) -> Option<u64>>,
    s_push: TypedFunc<NoCtx, fn(L, u64)>,
    s_plus: TypedFunc<NoCtx, fn(L, L) -> L>,
    s_concat: TypedFunc<NoCtx, fn(L, L) -> L>,
    s_len: TypedFunc<NoCtx, fn(L) -> u64>,
    s_join: TypedFunc<NoCtx, fn(List<roto::RotoString>) -> roto::RotoString>,
    s_from_chars: TypedFunc<NoCtx, fn(List<char>) -> roto::RotoString>,
    _pkg: roto::Package<NoCtx>,
    _rt: Runtime<NoCtx>,
}

fn script() -> String {
    format!(
        "fn s_make(n: u64) -> List[u64] {{
    let l: List[u64] = [];
    let i = 0u64;
    while i < n {{
        l.push({MAGIC}u64 + i);
        i = i + 1;
    }}
    l
}}
fn s_get(l: List[u64], i: u64) -> u64? {{ l.get(i) }}
fn s_push(l: List[u64], x: u64) {{ l.push(x); }}
fn s_plus(a: List[u64], b: List[u64]) -> List[u64] {{ a + b }}
fn s_concat(a: List[u64], b: List[u64]) -> List[u64] {{ a.concat(b) }}
fn s_len(l: List[u64]) -> u64 {{ l.len() }}
fn s_join(l: List[String]) -> String {{ l.join(\",\") }}
fn s_from_chars(l: List[char]) -> String {{ String.from_chars(l) }}
"
    )
}

pub fn build() -> Result<PlainFns, String> {
    let rt = host::build_runtime();
    let mut pkg = host::compile(&rt, &script())?;
    macro_rules! get {
        ($n:literal) => {
            pkg.get_function($n).map_err(|e| format!("{}: {e}", $n))?
        };
    }
    Ok(PlainFns { s_make: get!("s_make"), s_get: get!("s_get"), s_push: get!("s_push"), s_plus: get!("s_plus"), s_concat: get!("s_concat"), s_len: get!("s_len"), s_join: get!("s_join"), s_from_chars: get!("s_from_chars"), _pkg: pkg, _rt: rt })
}

#[derive(Clone, Copy, Debug, PartialEq)]
enum Scenario {
    /// pushes that move the buffer while other threads read elements
    GetDuringPush,
    /// `a.push(y); b.push(x)` on one thread, a concatenation of a and b on another
    ConcatDuringOrderedPushes,
    /// pushes on one thread, `l.concat(&l)` / `l + l` on the others: both halves are one state
    SelfConcatDuringPush,
}

#[derive(Clone, Debug)]
struct Cfg {
    scenario: Scenario,
    /// elements of the list(s) at the start
    n: usize,
    m: usize,
    /// pushes made by the pushing thread
    pushes: usize,
    push_from_script: bool,
    /// per reader: true = through the script, false = Rust API
    readers_script: Vec<bool>,
    /// element reads per reader and round
    reads: usize,
    /// 0 = a.concat(&b) from Rust, 1 = script `+`, 2 = script concat
    concat_how: u8,
    /// the second push goes to a (b first) instead
    b_first: bool,
    /// a third thread keeps taking the lock of the list that is pushed to second
    noise: bool,
    rounds: usize,
}

fn decode(ctl: &[u8]) -> Cfg {
    let mut c = Choices::new(ctl);
    let scenario = match c.below(5) {
        0 | 1 => Scenario::GetDuringPush,
        2 | 3 => Scenario::ConcatDuringOrderedPushes,
        _ => Scenario::SelfConcatDuringPush,
    };
    let n = match scenario {
        Scenario::GetDuringPush | Scenario::SelfConcatDuringPush => [4usize, 8, 16, 32][c.below(4)],
        Scenario::ConcatDuringOrderedPushes => [0usize, 0, 1, 4][c.below(4)],
    };
    let m = [3usize, 0, 4, 1][c.below(4)];
    let pushes = if c.chance(128) { n + 1 } else { 1 };
    let push_from_script = c.chance(128);
    let nr = 1 + c.below(2);
    let readers_script: Vec<bool> = (0..nr).map(|_| !c.chance(100)).collect();
    let reads = 1 + c.below(40);
    let concat_how = c.below(3) as u8;
    let b_first = c.chance(80);
    let noise = c.chance(128);
    let rounds = 6 + c.below(12);
    Cfg { scenario, n, m, pushes, push_from_script, readers_script, reads, concat_how, b_first, noise, rounds }
}

pub fn describe(ctl: &[u8]) -> String {
    let c = decode(ctl);
    match c.scenario {
        Scenario::GetDuringPush => format!(
            "plain-data stress: a script makes l = [{MAGIC:#x} + 0, .. + {}] (List[u64], len == capacity); one thread pushes {} element(s) {}; readers {:?} (true = script) read every element {} time(s) with get; {} rounds",
            c.n - 1,
            c.pushes,
            if c.push_from_script { "through a script" } else { "from Rust" },
            c.readers_script,
            c.reads,
            c.rounds
        ),
        Scenario::SelfConcatDuringPush => format!(
            "plain-data stress: a script makes l = [{MAGIC:#x} + 0, .. + {}] (List[u64]); one thread pushes {} element(s) {}; readers {:?} (true = script `l + l`, false = Rust l.concat(&l)) concatenate the list with itself {} time(s): both halves must be the same state of the list; {} rounds",
            c.n - 1,
            c.pushes,
            if c.push_from_script { "through a script" } else { "from Rust" },
            c.readers_script,
            c.reads,
            c.rounds
        ),
        Scenario::ConcatDuringOrderedPushes => format!(
            "plain-data stress: script-made lists a ({} elements) and b ({} elements); one thread pushes y to {first} and then x to {second} ({}); another thread concatenates a and b ({}); {}{} rounds",
            c.n,
            c.m,
            if c.push_from_script { "through a script" } else { "from Rust" },
            ["Rust a.concat(&b)", "script a + b", "script a.concat(b)"][c.concat_how as usize],
            if c.noise { "a third thread keeps calling len() on the list pushed to second; " } else { "" },
            c.rounds,
            first = if c.b_first { "b" } else { "a" },
            second = if c.b_first { "a" } else { "b" },
        ),
    }
}

fn gate(g: &AtomicUsize, parties: usize) {
    g.fetch_add(1, Ordering::SeqCst);
    let mut spins = 0u32;
    while g.load(Ordering::SeqCst) < parties {
        spins += 1;
        if spins % 64 == 0 {
            std::thread::yield_now();
        } else {
            std::hint::spin_loop();
        }
    }
}

/// a script-made list of exactly `n` magic elements whose buffer is full when `full` is set
fn make(fns: &PlainFns, n: usize, full: bool) -> (L, Vec<u64>) {
    let l = fns.s_make.call(n as u64);
    let mut want: Vec<u64> = (0..n as u64).map(|i| MAGIC + i).collect();
    if full {
        let mut k = n as u64;
        while l.len() < l.capacity() && k < n as u64 + 4096 {
            fns.s_push.call(l.clone(), MAGIC + k);
            want.push(MAGIC + k);
            k += 1;
        }
    }
    (l, want)
}

/// `join` and `from_chars` read the whole list: while another thread swaps elements, what they return is
/// still made of every element exactly once (the list is a permutation of the same elements at every moment)
fn whole_list_reads_during_swaps(fns: &Arc<PlainFns>) -> Result<(), String> {
    let words = ["alpha", "beta", "gamma", "delta", "epsilon"];
    let strs: List<roto::RotoString> = words.iter().map(|w| roto::RotoString::from(*w)).collect();
    let chars: List<char> = "abcde".chars().collect();
    let stop = Arc::new(AtomicBool::new(false));
    std::thread::scope(|s| {
        let (sw_s, sw_c, stop2) = (strs.clone(), chars.clone(), stop.clone());
        let swapper = s.spawn(move || {
            let mut k = 0usize;
            while !stop2.load(Ordering::Relaxed) {
                sw_s.swap(k % 5, (k + 2) % 5);
                sw_c.swap((k + 1) % 5, (k + 3) % 5);
                k += 1;
            }
        });
        let mut res = Ok(());
        for _ in 0..300 {
            let joined = fns.s_join.call(strs.clone()).to_string();
            let mut parts: Vec<&str> = joined.split(',').collect();
            parts.sort();
            if parts != ["alpha", "beta", "delta", "epsilon", "gamma"] {
                res = Err(format!("join(\",\") during swaps returned {joined:?}: not every element exactly once"));
                break;
            }
            let text = fns.s_from_chars.call(chars.clone()).to_string();
            let mut cs: Vec<char> = text.chars().collect();
            cs.sort();
            if cs != ['a', 'b', 'c', 'd', 'e'] {
                res = Err(format!("String.from_chars during swaps returned {text:?}: not every element exactly once"));
                break;
            }
        }
        stop.store(true, Ordering::Relaxed);
        let _ = swapper.join();
        res
    })
}

pub fn run(fns: &Arc<PlainFns>, ctl: &[u8], render: bool) -> Outcome {
    if ctl.first().map(|b| b % 8 == 5).unwrap_or(false) {
        if let Err(e) = whole_list_reads_during_swaps(fns) {
            return Outcome::fail("plain:whole-list-read-during-swaps", e);
        }
    }
    let cfg = decode(ctl);
    let text = describe(ctl);
    let t0 = std::time::Instant::now();
    let mut overlapped_rounds = 0usize;
    let mut fail: Option<(String, String)> = None;
    const Y: u64 = MAGIC + 0x7000;
    const X: u64 = MAGIC + 0x7001;
    for round in 0..cfg.rounds {
        let mut spans: Vec<(u128, u128)> = Vec::new();
        let mut errs: Vec<String> = Vec::new();
        match cfg.scenario {
            Scenario::GetDuringPush => {
                let (l, want0) = make(fns, cfg.n, true);
                let len0 = want0.len();
                let parties = 1 + cfg.readers_script.len();
                let g = Arc::new(AtomicUsize::new(0));
                std::thread::scope(|s| {
                    let mut hs = Vec::new();
                    {
                        let (l, g, fns, cfg) = (l.clone(), g.clone(), fns.clone(), cfg.clone());
                        hs.push(s.spawn(move || -> Result<(u128, u128), String> {
                            gate(&g, parties);
                            let st = t0.elapsed().as_nanos();
                            for k in 0..cfg.pushes as u64 {
                                if cfg.push_from_script {
                                    fns.s_push.call(l.clone(), MAGIC + 0x1000 + k);
                                } else {
                                    l.push(MAGIC + 0x1000 + k);
                                }
                            }
                            Ok((st, t0.elapsed().as_nanos()))
                        }));
                    }
                    for via in cfg.readers_script.iter().copied() {
                        let (l, g, fns, want0, reads) = (l.clone(), g.clone(), fns.clone(), want0.clone(), cfg.reads);
                        hs.push(s.spawn(move || -> Result<(u128, u128), String> {
                            gate(&g, parties);
                            let st = t0.elapsed().as_nanos();
                            for r in 0..reads {
                                for (i, w) in want0.iter().enumerate() {
                                    let got = if via { fns.s_get.call(l.clone(), i as u64) } else { l.get(i) };
                                    if got != Some(*w) {
                                        return Err(format!("read {r}: get({i}) {} returned {:x?}, the element is {w:#x} and is never changed", if via { "through the script" } else { "from Rust" }, got));
                                    }
                                }
                            }
                            Ok((st, t0.elapsed().as_nanos()))
                        }));
                    }
                    for h in hs {
                        match h.join() {
                            Ok(Ok(sp)) => spans.push(sp),
                            Ok(Err(e)) => errs.push(e),
                            Err(_) => errs.push("a thread panicked".into()),
                        }
                    }
                });
                if errs.is_empty() {
                    let mut want = want0.clone();
                    want.extend((0..cfg.pushes as u64).map(|k| MAGIC + 0x1000 + k));
                    let got = l.to_vec();
                    if got != want {
                        errs.push(format!("after the round the list holds {} elements {:x?}.., expected {} elements", got.len(), &got[..got.len().min(6)], want.len()));
                    }
                    if l.capacity() < l.len() || len0 + cfg.pushes != l.len() {
                        errs.push(format!("after the round len() = {}, capacity() = {}, expected {} elements", l.len(), l.capacity(), len0 + cfg.pushes));
                    }
                }
            }
            Scenario::SelfConcatDuringPush => {
                let (l, want0) = make(fns, cfg.n, false);
                let mut want = want0.clone();
                want.extend((0..cfg.pushes as u64).map(|k| MAGIC + 0x1000 + k));
                let parties = 1 + cfg.readers_script.len();
                let g = Arc::new(AtomicUsize::new(0));
                std::thread::scope(|s| {
                    let mut hs = Vec::new();
                    {
                        let (l, g, fns, cfg) = (l.clone(), g.clone(), fns.clone(), cfg.clone());
                        hs.push(s.spawn(move || -> Result<(u128, u128), String> {
                            gate(&g, parties);
                            let st = t0.elapsed().as_nanos();
                            for k in 0..cfg.pushes as u64 {
                                if cfg.push_from_script {
                                    fns.s_push.call(l.clone(), MAGIC + 0x1000 + k);
                                } else {
                                    l.push(MAGIC + 0x1000 + k);
                                }
                            }
                            Ok((st, t0.elapsed().as_nanos()))
                        }));
                    }
                    for via in cfg.readers_script.iter().copied() {
                        let (l, g, fns, want, reads, n0) = (l.clone(), g.clone(), fns.clone(), want.clone(), cfg.reads, want0.len());
                        hs.push(s.spawn(move || -> Result<(u128, u128), String> {
                            gate(&g, parties);
                            let st = t0.elapsed().as_nanos();
                            for r in 0..reads {
                                let v = if via { fns.s_plus.call(l.clone(), l.clone()).to_vec() } else { l.concat(&l).to_vec() };
                                let h = v.len() / 2;
                                if v.len() % 2 != 0 || v[..h] != v[h..] || h < n0 || h > want.len() || v[..h] != want[..h] {
                                    return Err(format!(
                                        "self-concatenation {r} {} has {} elements {:x?}..: not twice one state of the list ({} elements at the start, {} pushes)",
                                        if via { "through the script" } else { "from Rust" },
                                        v.len(),
                                        &v[..v.len().min(4)],
                                        n0,
                                        want.len() - n0
                                    ));
                                }
                            }
                            Ok((st, t0.elapsed().as_nanos()))
                        }));
                    }
                    for h in hs {
                        match h.join() {
                            Ok(Ok(sp)) => spans.push(sp),
                            Ok(Err(e)) => errs.push(e),
                            Err(_) => errs.push("a thread panicked".into()),
                        }
                    }
                });
                if errs.is_empty() && l.to_vec() != want {
                    errs.push(format!("after the round the list holds {} elements, expected {}", l.len(), want.len()));
                }
            }
            Scenario::ConcatDuringOrderedPushes => {
                let (a, a0) = make(fns, cfg.n, false);
                let (b, b0) = make(fns, cfg.m, false);
                let parties = 2 + cfg.noise as usize;
                let g = Arc::new(AtomicUsize::new(0));
                let done = Arc::new(AtomicBool::new(false));
                let mut result: Option<Vec<u64>> = None;
                std::thread::scope(|s| {
                    let pusher = {
                        let (a, b, g, fns, cfg) = (a.clone(), b.clone(), g.clone(), fns.clone(), cfg.clone());
                        s.spawn(move || -> (u128, u128) {
                            let (first, second) = if cfg.b_first { (b, a) } else { (a, b) };
                            gate(&g, parties);
                            let st = t0.elapsed().as_nanos();
                            if cfg.push_from_script {
                                fns.s_push.call(first, Y);
                                fns.s_push.call(second, X);
                            } else {
                                first.push(Y);
                                second.push(X);
                            }
                            (st, t0.elapsed().as_nanos())
                        })
                    };
                    let noise = if cfg.noise {
                        let (second, g, done, fns) = (if cfg.b_first { a.clone() } else { b.clone() }, g.clone(), done.clone(), fns.clone());
                        Some(s.spawn(move || {
                            gate(&g, parties);
                            let mut k = 0u64;
                            while !done.load(Ordering::Relaxed) && k < 200_000 {
                                let _ = if k % 2 == 0 { second.len() as u64 } else { fns.s_len.call(second.clone()) };
                                k += 1;
                            }
                        }))
                    } else {
                        None
                    };
                    let reader = {
                        let (a, b, g, fns, how) = (a.clone(), b.clone(), g.clone(), fns.clone(), cfg.concat_how);
                        s.spawn(move || -> ((u128, u128), Vec<u64>) {
                            gate(&g, parties);
                            let st = t0.elapsed().as_nanos();
                            let r = match how {
                                0 => a.concat(&b),
                                1 => fns.s_plus.call(a.clone(), b.clone()),
                                _ => fns.s_concat.call(a.clone(), b.clone()),
                            };
                            ((st, t0.elapsed().as_nanos()), r.to_vec())
                        })
                    };
                    match reader.join() {
                        Ok((sp, v)) => {
                            spans.push(sp);
                            result = Some(v);
                        }
                        Err(_) => errs.push("the concatenating thread panicked".into()),
                    }
                    match pusher.join() {
                        Ok(sp) => spans.push(sp),
                        Err(_) => errs.push("the pushing thread panicked".into()),
                    }
                    done.store(true, Ordering::SeqCst);
                    if let Some(h) = noise {
                        let _ = h.join();
                    }
                });
                if let (true, Some(got)) = (errs.is_empty(), result) {
                    // y goes to the first list, x to the second; x is never there without y
                    let with = |ay: bool, bx: bool| -> Vec<u64> {
                        let mut v = a0.clone();
                        if ay {
                            v.push(if cfg.b_first { X } else { Y });
                        }
                        v.extend(b0.iter().copied());
                        if bx {
                            v.push(if cfg.b_first { Y } else { X });
                        }
                        v
                    };
                    // (a got its push, b got its push) combinations a linear order allows
                    let allowed: Vec<Vec<u64>> = if cfg.b_first {
                        vec![with(false, false), with(false, true), with(true, true)]
                    } else {
                        vec![with(false, false), with(true, false), with(true, true)]
                    };
                    if !allowed.contains(&got) {
                        errs.push(format!(
                            "the concatenation is {:x?}: it holds the element pushed second but not the one pushed first (or something nobody stored); a = {:x?}, b = {:x?} before the pushes",
                            got, a0, b0
                        ));
                    }
                    if a.to_vec() != with(true, false)[..a0.len() + 1] || b.len() != b0.len() + 1 {
                        errs.push(format!("after the round a = {:x?}, b = {:x?}", a.to_vec(), b.to_vec()));
                    }
                }
            }
        }
        crate::worker::take_panic();
        if spans.iter().enumerate().any(|(i, x)| spans.iter().enumerate().any(|(j, y)| i != j && x.0 < y.1 && y.0 < x.1)) {
            overlapped_rounds += 1;
        }
        if let Some(e) = errs.first() {
            let sig = match cfg.scenario {
                Scenario::GetDuringPush => "plain:stale-or-wrong-read",
                Scenario::SelfConcatDuringPush => "plain:self-concat-not-one-state",
                Scenario::ConcatDuringOrderedPushes => "plain:not-linearizable",
            };
            fail = Some((sig.into(), format!("round {round}: {e}\n{text}")));
            break;
        }
    }
    if let Some((sig, msg)) = fail {
        let mut f = Outcome::fail(sig, msg);
        f.render = Some(text);
        return f;
    }
    let mut o = Outcome::pass();
    o.evals = (cfg.rounds * 2) as u64;
    o.nontrivial = overlapped_rounds > 0;
    o.classes.push("engine:free-running-plain-data".into());
    if overlapped_rounds > 0 {
        o.classes.push("free-running-plain:overlapped".into());
    }
    o.classes.push(format!("free-running-plain:{:?}", cfg.scenario));
    o.hash = fnv(format!("{text}{:?}", ctl).as_bytes());
    if render {
        o.render = Some(text);
    }
    o
}
