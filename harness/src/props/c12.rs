//! C12 — Compiled functions are safe and deterministic under concurrent use.
//!
//! (a) stress: generated programs called from several threads at once on shared and
//!     cloned handles while other threads compile and drop packages; every call must
//!     return what the same call returns single-threaded, the host-call log of each
//!     call must equal the single-threaded one and the tracked-value accounting
//!     must balance after all threads joined.
//! (b) API soundness probes: tiny Rust programs type-checked with rustc against the
//!     harness's libroto: safe code must not be able to share !Sync state.

use std::path::PathBuf;
use std::process::Command;
use std::sync::{Arc, Barrier};
use std::time::Instant;

use roto::{NoCtx, Runtime};

use crate::ast::*;
use crate::core::*;
use crate::host;
use crate::model;
use crate::pgen::{Gen, Profile, SCALAR_TYS};
use crate::progexec::*;
use crate::props::prog::{Kind, profile_for};

pub struct C12P;
pub static C12: C12P = C12P;

struct W {
    rt: Arc<Runtime<NoCtx>>,
    prof: Profile,
    excl: Vec<String>,
    pool: Vec<std::sync::mpsc::Sender<Job>>,
}

/// work for one pool thread: sub-cases for the built-in catalogue, run after the gate opens
struct Job {
    chunk: Vec<u8>,
    gate: Arc<std::sync::atomic::AtomicUsize>,
    parties: usize,
    reply: std::sync::mpsc::Sender<Result<(u64, bool, (u128, u128), String), (String, String)>>,
}

const POOL: usize = 4;
const SUB_LEN: usize = 20;

fn pool_thread(rx: std::sync::mpsc::Receiver<Job>, excl: Vec<String>, t0: Instant) {
    // every thread has its own package (get_function needs exclusive access); the built-in
    // functions themselves are process-wide, which is what is under test
    let mut bw = crate::props::c17::BuiltinWorker::new(crate::builtins::Mode::Semantic, &excl);
    while let Ok(job) = rx.recv() {
        use std::sync::atomic::Ordering;
        job.gate.fetch_add(1, Ordering::SeqCst);
        let mut spins = 0u32;
        while job.gate.load(Ordering::SeqCst) < job.parties {
            spins += 1;
            if spins % 64 == 0 {
                std::thread::yield_now();
            } else {
                std::hint::spin_loop();
            }
        }
        let start = t0.elapsed().as_nanos();
        let mut evals = 0u64;
        let mut nt = false;
        let mut sample = String::new();
        let mut res = Ok(());
        for (round, piece) in job.chunk.chunks(SUB_LEN).enumerate() {
            // all threads start each sub-case together: they run the same built-in (first
            // byte shared) on their own arguments at the same time
            let target = job.parties * (round + 2);
            job.gate.fetch_add(1, Ordering::SeqCst);
            let mut spins = 0u32;
            while job.gate.load(Ordering::SeqCst) < target {
                spins += 1;
                if spins % 64 == 0 {
                    std::thread::yield_now();
                } else {
                    std::hint::spin_loop();
                }
            }
            if res.is_err() {
                continue;
            }
            let o = crate::worker::guarded(|| bw.run_case(&vec![piece.to_vec()], true));
            match o.verdict {
                Verdict::Fail => {
                    res = Err((o.sig, o.msg));
                }
                _ => {
                    evals += o.evals;
                    nt |= o.nontrivial;
                    if sample.is_empty() {
                        sample = o.render.unwrap_or_default();
                    }
                }
            }
        }
        let end = t0.elapsed().as_nanos();
        let _ = job.reply.send(res.map(|_| (evals, nt, (start, end), sample)));
    }
}

/// the Roto spelling of a Rust type (for the first-use race)
trait Spell {
    fn roto() -> String;
}
macro_rules! spell {
    ($($t:ident),*) => {$( impl Spell for $t { fn roto() -> String { stringify!($t).into() } } )*};
}
spell!(u8, u16, u32, u64, i8, i16, i32, i64, f32, f64, char, bool);
impl<T: Spell> Spell for Option<T> {
    fn roto() -> String {
        format!("Option[{}]", T::roto())
    }
}
impl<T: Spell + roto::Value> Spell for roto::List<T> {
    fn roto() -> String {
        format!("List[{}]", T::roto())
    }
}

type RaceJob = fn(&Runtime<NoCtx>, &Barrier) -> Result<(), String>;

/// compile `fn id(x: T) -> T { x }`, wait for the other threads, ask for it as `fn(T) -> T`
fn race_job<T: roto::Value + Spell>(rt: &Runtime<NoCtx>, barrier: &Barrier) -> Result<(), String> {
    let ty = T::roto();
    let pkg = host::compile(rt, &format!("fn id(x: {ty}) -> {ty} {{ x }}"));
    barrier.wait();
    let mut pkg = pkg.map_err(|e| format!("{ty}: does not compile: {e}"))?;
    pkg.get_function::<fn(T) -> T>("id").map(|_| ()).map_err(|e| format!("get_function::<fn({ty}) -> {ty}>(\"id\") was refused although that is the function's signature: {e}"))
}

macro_rules! race_jobs {
    ($($b:ty),*) => {
        vec![$(
            race_job::<Option<Option<Option<$b>>>> as RaceJob,
            race_job::<Option<Option<roto::List<$b>>>>,
            race_job::<Option<roto::List<Option<$b>>>>,
            race_job::<Option<roto::List<roto::List<$b>>>>,
            race_job::<roto::List<Option<Option<$b>>>>,
            race_job::<roto::List<Option<roto::List<$b>>>>,
            race_job::<roto::List<roto::List<Option<$b>>>>,
            race_job::<roto::List<roto::List<roto::List<$b>>>>,
        )*]
    };
}

struct Probe {
    name: &'static str,
    /// must rustc reject this program?
    must_reject: bool,
    src: &'static str,
}

/// a probe with generated text
struct GenProbe {
    name: String,
    must_reject: bool,
    src: String,
}

/// (name, type, constructor, a use of `s: &T` that gives an i64, is the type Clone, is it Send + Sync)
const STATE_KINDS: &[(&str, &str, &str, &str, bool, bool)] = &[
    ("cell", "Cell<i64>", "Cell::new(1)", "{ s.set(s.get() + 1); s.get() }", true, false),
    ("refcell", "RefCell<Vec<i64>>", "RefCell::new(vec![1])", "{ s.borrow_mut().push(1); s.borrow().len() as i64 }", true, false),
    ("rc", "Rc<i64>", "Rc::new(1)", "{ let c = s.clone(); *c }", true, false),
    ("oncecell", "OnceCell<i64>", "OnceCell::new()", "{ *s.get_or_init(|| 1) }", true, false),
    ("rawptr", "*const i64", "std::ptr::null::<i64>()", "{ s.is_null() as i64 }", true, false),
    ("receiver", "std::sync::mpsc::Receiver<i64>", "std::sync::mpsc::channel::<i64>().1", "{ s.try_recv().unwrap_or(1) }", false, false),
    ("rc-refcell", "Rc<RefCell<i64>>", "Rc::new(RefCell::new(1))", "{ *s.borrow_mut() += 1; *s.borrow() }", true, false),
    ("arc-cell", "Arc<Cell<i64>>", "Arc::new(Cell::new(1))", "{ s.set(s.get() + 1); s.get() }", true, false),
    ("plain", "i64", "1i64", "{ *s }", true, true),
    ("arc", "Arc<i64>", "Arc::new(1)", "{ **s }", true, true),
    ("atomic", "Arc<AtomicI64>", "Arc::new(AtomicI64::new(1))", "{ s.fetch_add(1, Ordering::SeqCst) }", true, true),
    ("mutex", "Arc<Mutex<i64>>", "Arc::new(Mutex::new(1))", "{ let mut g = s.lock().unwrap(); *g += 1; *g }", true, true),
    ("rwlock", "Arc<RwLock<Vec<i64>>>", "Arc::new(RwLock::new(vec![1]))", "{ s.write().unwrap().push(1); s.read().unwrap().len() as i64 }", true, true),
];

const HOLDERS: &[&str] = &["library-closure", "function-new-closure", "constant-val", "constant-only", "type-only"];
const ROUTES: &[&str] = &["scope-ref", "clone-spawn", "into-func-spawn", "runtime-ref-compile", "package-moved", "arc-handle"];

const WRAP: &str = "#[derive(Clone)]\nstruct Wrap(TY);\nimpl PartialEq for Wrap { fn eq(&self, _: &Self) -> bool { true } }\n";

/// where the state lives: (items before main, statements that leave `rt` behind)
fn probe_holder(h: &str, k: &(&str, &str, &str, &str, bool, bool)) -> Option<(String, String)> {
    let (_, ty, ctor, read, clone, _) = *k;
    let wrap = WRAP.replace("TY", ty);
    Some(match h {
        "library-closure" => (
            "const SCRIPT: &str = \"fn f() -> i64 { host() }\";\n".to_string(),
            format!("    let state: {ty} = {ctor};\n    let rt = Runtime::from_lib(library! {{\n        let host = move || -> i64 {{ let s = &state; {read} }};\n    }}).unwrap();\n"),
        ),
        "function-new-closure" => (
            "const SCRIPT: &str = \"fn f() -> i64 { host() }\";\n".to_string(),
            format!("    let state: {ty} = {ctor};\n    let func = Function::new(\"host\", \"\", vec![], move || -> i64 {{ let s = &state; {read} }}, location!()).unwrap();\n    let rt = Runtime::from_lib(func).unwrap();\n"),
        ),
        _ if !clone => return None,
        "constant-val" => (
            format!("{wrap}const SCRIPT: &str = \"fn f() -> i64 {{ read(X) }}\";\n"),
            format!("    let mut lib = roto::Library::new();\n    lib.add(Type::clone::<Val<Wrap>>(\"Wrap\", \"\", location!()).unwrap().into());\n    lib.add(Constant::new(\"X\", \"\", Val(Wrap({ctor})), location!()).unwrap().into());\n    lib.add(Function::new(\"read\", \"\", vec![\"w\"], |w: Val<Wrap>| -> i64 {{ let s = &w.0.0; {read} }}, location!()).unwrap().into());\n    let rt = Runtime::from_lib(lib).unwrap();\n"),
        ),
        "constant-only" => (
            format!("{wrap}const SCRIPT: &str = \"fn f() -> i64 {{ 1 }}\";\n"),
            format!("    let c = Constant::new(\"X\", \"\", Val(Wrap({ctor})), location!()).unwrap();\n    let rt = Runtime::from_lib(c).unwrap();\n"),
        ),
        _ => (
            format!("{wrap}const SCRIPT: &str = \"fn f() -> i64 {{ 1 }}\";\n"),
            "    let t = Type::clone::<Val<Wrap>>(\"Wrap\", \"\", location!()).unwrap();\n    let rt = Runtime::from_lib(t).unwrap();\n".to_string(),
        ),
    })
}

/// how two threads get at what was compiled from `rt`
fn probe_route(r: &str, setup: &str) -> String {
    let comp = "    let mut pkg = roto::FileTree::test_file(\"p\", SCRIPT, 0).compile(&rt).unwrap();\n    let f = pkg.get_function::<fn() -> i64>(\"f\").unwrap();\n";
    let tail = match r {
        "scope-ref" => format!("{comp}    std::thread::scope(|s| {{\n        s.spawn(|| f.call());\n        s.spawn(|| f.call());\n    }});\n"),
        "clone-spawn" => format!("{comp}    let g = f.clone();\n    let t = std::thread::spawn(move || g.call());\n    f.call();\n    t.join().unwrap();\n"),
        "into-func-spawn" => format!("{comp}    let g = f.clone().into_func();\n    let t = std::thread::spawn(move || g());\n    f.call();\n    t.join().unwrap();\n"),
        "runtime-ref-compile" => "    std::thread::scope(|s| {\n        for _ in 0..2 {\n            s.spawn(|| {\n                let mut pkg = roto::FileTree::test_file(\"p\", SCRIPT, 0).compile(&rt).unwrap();\n                pkg.get_function::<fn() -> i64>(\"f\").unwrap().call()\n            });\n        }\n    });\n".to_string(),
        "package-moved" => format!("{comp}    let t = std::thread::spawn(move || {{ let mut pkg = pkg; pkg.get_function::<fn() -> i64>(\"f\").unwrap().call() }});\n    f.call();\n    t.join().unwrap();\n"),
        _ => format!("{comp}    let a = Arc::new(f);\n    let b = a.clone();\n    let t = std::thread::spawn(move || b.call());\n    a.call();\n    t.join().unwrap();\n"),
    };
    format!("{setup}{tail}")
}

/// the generated grid: every kind of state x every place the API lets a host put state x every way two
/// threads can get at compiled code (plus a Rust-side `List<Val<_>>` shared directly).  A program must be
/// rejected by rustc (for a Send / Sync reason) exactly when the state is not thread-safe.
fn generated_probes() -> &'static Vec<GenProbe> {
    static P: std::sync::OnceLock<Vec<GenProbe>> = std::sync::OnceLock::new();
    P.get_or_init(|| {
        let mut out = Vec::new();
        for k in STATE_KINDS {
            for h in HOLDERS {
                let Some((items, setup)) = probe_holder(h, k) else { continue };
                for r in ROUTES {
                    out.push(GenProbe { name: format!("{}/{h}/{r}", k.0), must_reject: !k.5, src: format!("{items}fn main() {{\n{}}}\n", probe_route(r, &setup)) });
                }
            }
            if k.4 {
                let (_, ty, ctor, read, _, _) = *k;
                let wrap = WRAP.replace("TY", ty);
                let get = format!("l.get(0).map(|w| {{ let s = &w.0.0; {read} }})");
                let head = format!("{wrap}fn main() {{\n    let l: List<Val<Wrap>> = List::new();\n    l.push(Val(Wrap({ctor})));\n");
                out.push(GenProbe { name: format!("{}/rust-list/scope-ref", k.0), must_reject: !k.5, src: format!("{head}    std::thread::scope(|s| {{\n        s.spawn(|| {get});\n        s.spawn(|| {get});\n    }});\n}}\n") });
                let get_m = get.replace("l.get", "m.get");
                out.push(GenProbe { name: format!("{}/rust-list/clone-spawn", k.0), must_reject: !k.5, src: format!("{head}    let m = l.clone();\n    let t = std::thread::spawn(move || {get_m});\n    {get};\n    t.join().unwrap();\n}}\n") });
            }
        }
        out
    })
}

fn probe_count() -> usize {
    PROBES.len() + generated_probes().len()
}

/// (name, must be rejected, text)
fn probe_at(i: usize) -> (String, bool, String) {
    let i = i % probe_count();
    if i < PROBES.len() {
        let p = &PROBES[i];
        (p.name.to_string(), p.must_reject, p.src.to_string())
    } else {
        let p = &generated_probes()[i - PROBES.len()];
        (p.name.clone(), p.must_reject, p.src.clone())
    }
}

fn probe_index(case: &Case) -> usize {
    let c = case.get(1).map(|c| c.as_slice()).unwrap_or(&[]);
    match c {
        [] => 0,
        [a] => *a as usize,
        [a, b, ..] => (*a as usize) * 256 + *b as usize,
    }
}

const PRELUDE: &str = "use roto::{Runtime, library, Function, Constant, Type, Val, List, location};\nuse std::cell::{Cell, RefCell, OnceCell};\nuse std::rc::Rc;\nuse std::sync::{Arc, Mutex, RwLock, atomic::{AtomicI64, Ordering}};\n";

const PROBES: &[Probe] = &[
    Probe {
        name: "cell-capture-library-macro-scope-threads",
        must_reject: true,
        src: "fn main() {\n    let counter = Cell::new(0i64);\n    let rt = Runtime::from_lib(library! {\n        let bump = move || -> i64 { counter.set(counter.get() + 1); counter.get() };\n    }).unwrap();\n    let mut pkg = roto::FileTree::test_file(\"p\", \"fn f() -> i64 { bump() }\", 0).compile(&rt).unwrap();\n    let f = pkg.get_function::<fn() -> i64>(\"f\").unwrap();\n    std::thread::scope(|s| {\n        s.spawn(|| f.call());\n        s.spawn(|| f.call());\n    });\n}\n",
    },
    Probe {
        name: "refcell-capture-function-new-spawn-clone",
        must_reject: true,
        src: "fn main() {\n    let state = RefCell::new(Vec::<i64>::new());\n    let func = Function::new(\"push\", \"\", vec![\"x\"], move |x: i64| -> i64 { state.borrow_mut().push(x); state.borrow().len() as i64 }, location!()).unwrap();\n    let rt = Runtime::from_lib(func).unwrap();\n    let mut pkg = roto::FileTree::test_file(\"p\", \"fn f(x: i64) -> i64 { push(x) }\", 0).compile(&rt).unwrap();\n    let f = pkg.get_function::<fn(i64) -> i64>(\"f\").unwrap();\n    let g = f.clone();\n    let t = std::thread::spawn(move || g.call(1));\n    f.call(2);\n    t.join().unwrap();\n}\n",
    },
    Probe {
        name: "rc-capture-control",
        must_reject: true,
        src: "fn main() {\n    let shared = Rc::new(5i64);\n    let _rt = Runtime::from_lib(library! {\n        let get = move || -> i64 { *shared };\n    }).unwrap();\n}\n",
    },
    Probe {
        name: "rc-inside-registered-val-type",
        must_reject: true,
        src: "#[derive(Clone, PartialEq)]\nstruct Wrap(Rc<i64>);\nfn main() {\n    let _t = roto::Type::clone::<roto::Val<Wrap>>(\"Wrap\", \"\", location!()).unwrap();\n}\n",
    },
    Probe {
        name: "cell-inside-registered-val-type",
        must_reject: true,
        src: "#[derive(Clone, PartialEq)]\nstruct Wrap(Cell<i64>);\nfn main() {\n    let _t = roto::Type::clone::<roto::Val<Wrap>>(\"Wrap\", \"\", location!()).unwrap();\n}\n",
    },
    Probe {
        name: "fnmut-closure",
        must_reject: true,
        src: "fn main() {\n    let mut total = 0u64;\n    let func = Function::new(\"add\", \"\", vec![\"x\"], move |x: u64| -> u64 { total += x; total }, location!()).unwrap();\n    let _rt = Runtime::from_lib(func).unwrap();\n}\n",
    },
    Probe {
        name: "cell-inside-constant",
        must_reject: true,
        src: "#[derive(Clone, PartialEq)]\nstruct Wrap(Cell<i64>);\nfn main() {\n    let _c = roto::Constant::new(\"X\", \"\", roto::Val(Wrap(Cell::new(1))), location!()).unwrap();\n}\n",
    },
    Probe {
        name: "send-sync-val-type-control",
        must_reject: false,
        src: "#[derive(Clone, PartialEq)]\nstruct Wrap(Arc<i64>);\nfn main() {\n    let _t = roto::Type::clone::<roto::Val<Wrap>>(\"Wrap\", \"\", location!()).unwrap();\n    let _c = roto::Constant::new(\"X\", \"\", roto::Val(Wrap(Arc::new(1))), location!()).unwrap();\n}\n",
    },
    Probe {
        name: "atomic-capture-control",
        must_reject: false,
        src: "fn main() {\n    let counter = Arc::new(AtomicI64::new(0));\n    let c = counter.clone();\n    let rt = Runtime::from_lib(library! {\n        let bump = move || -> i64 { c.fetch_add(1, Ordering::SeqCst) };\n    }).unwrap();\n    let mut pkg = roto::FileTree::test_file(\"p\", \"fn f() -> i64 { bump() }\", 0).compile(&rt).unwrap();\n    let f = pkg.get_function::<fn() -> i64>(\"f\").unwrap();\n    std::thread::scope(|s| {\n        s.spawn(|| f.call());\n        s.spawn(|| f.call());\n    });\n}\n",
    },
    Probe {
        name: "mutex-capture-control",
        must_reject: false,
        src: "fn main() {\n    let state = Arc::new(Mutex::new(0i64));\n    let s2 = state.clone();\n    let func = Function::new(\"bump\", \"\", vec![], move || -> i64 { let mut g = s2.lock().unwrap(); *g += 1; *g }, location!()).unwrap();\n    let rt = Runtime::from_lib(func).unwrap();\n    let mut pkg = roto::FileTree::test_file(\"p\", \"fn f() -> i64 { bump() }\", 0).compile(&rt).unwrap();\n    let f = pkg.get_function::<fn() -> i64>(\"f\").unwrap();\n    let g = f.clone();\n    let t = std::thread::spawn(move || g.call());\n    f.call();\n    t.join().unwrap();\n}\n",
    },
    Probe {
        name: "plain-fn-control",
        must_reject: false,
        src: "fn double(x: i64) -> i64 { 2 * x }\nfn main() {\n    let rt = Runtime::from_lib(Function::new(\"double\", \"\", vec![\"x\"], double, location!()).unwrap()).unwrap();\n    let mut pkg = roto::FileTree::test_file(\"p\", \"fn f(x: i64) -> i64 { double(x) }\", 0).compile(&rt).unwrap();\n    let f = pkg.get_function::<fn(i64) -> i64>(\"f\").unwrap();\n    std::thread::scope(|s| {\n        s.spawn(|| f.call(1));\n        s.spawn(|| f.call(2));\n    });\n}\n",
    },
];

fn newest_rlib(deps: &PathBuf, prefix: &str) -> Option<PathBuf> {
    let mut best: Option<(std::time::SystemTime, PathBuf)> = None;
    for e in std::fs::read_dir(deps).ok()? {
        let e = e.ok()?;
        let n = e.file_name().to_string_lossy().to_string();
        if n.starts_with(prefix) && n.ends_with(".rlib") {
            let t = e.metadata().ok()?.modified().ok()?;
            if best.as_ref().map(|(bt, _)| t > *bt).unwrap_or(true) {
                best = Some((t, e.path()));
            }
        }
    }
    best.map(|b| b.1)
}

fn run_probe(i: usize) -> Outcome {
    let (p_name, p_must_reject, p_src) = probe_at(i);
    struct P<'a> { name: &'a str, must_reject: bool, src: &'a str }
    let p = P { name: &p_name, must_reject: p_must_reject, src: &p_src };
    let root = crate::runner::verif_root();
    let deps = root.join("harness/target/release/deps");
    let Some(rlib) = newest_rlib(&deps, "libroto-") else {
        return Outcome::discard("libroto rlib not found");
    };
    let dir = root.join(format!("harness/target/tmp-c12/{}", std::process::id()));
    let _ = std::fs::create_dir_all(&dir);
    let file = dir.join(format!("probe_{i}.rs"));
    let src = format!("#![allow(unused)]\n{PRELUDE}{}", p.src);
    if std::fs::write(&file, &src).is_err() {
        return Outcome::discard("cannot write probe");
    }
    let out = Command::new("rustc")
        .args(["--edition", "2024", "--emit=metadata", "--crate-type", "bin", "-o"])
        .arg(dir.join(format!("probe_{i}.rmeta")))
        .arg("-L")
        .arg(format!("dependency={}", deps.display()))
        .arg("--extern")
        .arg(format!("roto={}", rlib.display()))
        .arg(&file)
        .output();
    let Ok(out) = out else { return Outcome::discard("rustc could not be started") };
    let stderr = String::from_utf8_lossy(&out.stderr).to_string();
    let accepted = out.status.success();
    let mut o = Outcome::pass();
    o.nontrivial = true;
    o.hash = fnv(p.name.as_bytes());
    o.classes.push(format!("probe:{}", p.name));
    o.render = Some(format!("// probe {} (must be {})\n{}", p.name, if p.must_reject { "rejected" } else { "accepted" }, p.src));
    if accepted && p.must_reject {
        return Outcome::fail(
            format!("unsound-api-accepted:{}", p.name),
            format!("rustc accepts a program in which two threads reach non-Sync captured state through safe code:\n{}", p.src),
        );
    }
    if !accepted && !p.must_reject {
        // an unrelated compile error (e.g. API drift) must not pass silently
        return Outcome::fail(format!("control-probe-rejected:{}", p.name), format!("rustc rejects a control program that should be accepted:\n{stderr}\n{}", p.src));
    }
    if !accepted && !(stderr.contains("cannot be shared between threads safely") || stderr.contains("cannot be sent between threads safely") || stderr.contains("only implements `FnMut`")) {
        return Outcome::fail(format!("probe-rejected-for-another-reason:{}", p.name), format!("{stderr}\n{}", p.src));
    }
    o
}

impl WorkerState for W {
    fn render_only(&mut self, case: &Case) -> String {
        if case.first().map(|c| c.as_slice()) == Some(b"#!probe") {
            return probe_at(probe_index(case)).2;
        }
        let empty: Vec<u8> = Vec::new();
        let prog = self.program(case.first().unwrap_or(&empty), case.get(1).unwrap_or(&empty));
        print_program(&prog, Parens::Minimal)
    }

    fn run(&mut self, case: &Case, render: bool) -> Outcome {
        if case.first().map(|c| c.as_slice()) == Some(b"#!probe") {
            return run_probe(probe_index(case));
        }
        if case.get(2).and_then(|c| c.first()).map(|b| b % 4 == 3).unwrap_or(false) {
            return self.builtins_under_threads(case, render);
        }
        if case.get(2).and_then(|c| c.first()).map(|b| b % 8 == 2).unwrap_or(false) {
            return self.compile_storm(case, render);
        }
        if case.get(2).and_then(|c| c.first()).map(|b| b % 8 == 6).unwrap_or(false) {
            return self.constants_hammer(case, render);
        }
        let empty: Vec<u8> = Vec::new();
        let prog = self.program(case.first().unwrap_or(&empty), case.get(1).unwrap_or(&empty));
        // measured before compiling: tracked values held by script constants live as long as the package
        let (live0, tz0) = host::live_count();
        let (src, compiled) = compile_program(&self.rt, &prog, Parens::Minimal);
        let (pkg, mainf) = match compiled {
            Ok(x) => x,
            Err(e) => return Outcome::discard(format!("generated program rejected by the compiler:\n{e}\n--- source ---\n{src}")),
        };
        let main = &prog.funcs[0];
        let ctl = case.get(2).unwrap_or(&empty);
        let mut c = Choices::new(ctl);
        let n_threads = 2 + c.below(7);
        let n_calls = 50 + c.below(150);
        let n_compilers = c.below(3);
        // input vectors and single-threaded baseline (trapping inputs are left out by the model)
        let mut inputs: Vec<(Vec<u64>, (u64, u64), String, Vec<String>)> = Vec::new();
        for i in 0..4 {
            let chunk = case.get(3 + i).unwrap_or(&empty);
            let words = decode_inputs(chunk, 8);
            let inp = words[..6].to_vec();
            let args = (words[6], words[7]);
            let margs = if main.params.is_empty() { vec![] } else { main_args(&main.ret, args.0, args.1) };
            let mut it = model::Interp::new(&prog, inp.clone(), 200_000);
            match it.call_fn(0, margs) {
                Ok(_) | Err(model::Stop::Return(_)) => {}
                _ => continue,
            }
            host::reset(inp.clone());
            let v = call_main(&mainf, args.0, args.1);
            let log: Vec<String> = host::take_log().iter().map(model::show_ev).collect();
            inputs.push((inp, args, model::show(&v), log));
        }
        if inputs.is_empty() {
            // nothing can be called: counts as a trivial case
            let mut o = Outcome::pass();
            o.evals = 0;
            o.classes.push("all-inputs-trap".into());
            return o;
        }
        let inputs = Arc::new(inputs);
        let barrier = Arc::new(Barrier::new(n_threads + n_compilers));
        let t0 = Instant::now();
        // one case in four: the threads call a closure made with `into_func`, and the package and
        // every handle are gone before the first call
        let as_closure = c.chance(64);
        // (whether such a closure is Send + Sync is what the rustc probes decide; here it is shared
        // whatever its auto traits say, so that this engine also builds against a tree where it is not)
        struct Shared(Box<dyn Fn(u64, u64) -> model::V>);
        unsafe impl Send for Shared {}
        unsafe impl Sync for Shared {}
        let closure: Option<Arc<Shared>> = if as_closure { Some(Arc::new(Shared(crate::progexec::main_closure(mainf.clone())))) } else { None };
        let (mut pkg, mut mainf) = (Some(pkg), Some(mainf));
        if as_closure {
            let (p, m) = (pkg.take(), mainf.take());
            let dropper = std::thread::spawn(move || {
                drop(m);
                drop(p);
            });
            let _ = dropper.join();
        }
        let mut handles = Vec::new();
        for t in 0..n_threads {
            let f = mainf.clone();
            let g = closure.clone();
            let inputs = inputs.clone();
            let barrier = barrier.clone();
            handles.push(std::thread::spawn(move || -> Result<(u128, u128), String> {
                barrier.wait();
                let start = t0.elapsed().as_nanos();
                for k in 0..n_calls {
                    let (inp, args, want, want_log) = &inputs[(k + t) % inputs.len()];
                    host::reset_local(inp.clone());
                    let got = match (&f, &g) {
                        (_, Some(g)) => model::show(&(g.0)(args.0, args.1)),
                        (Some(f), None) => model::show(&call_main(f, args.0, args.1)),
                        (None, None) => unreachable!(),
                    };
                    let log: Vec<String> = host::take_log().iter().map(model::show_ev).collect();
                    if &got != want {
                        return Err(format!("thread {t}, call {k}: returned {got} but the same call returns {want} single-threaded"));
                    }
                    if &log != want_log {
                        return Err(format!("thread {t}, call {k}: host-call log differs from the single-threaded one ({} vs {} events)", log.len(), want_log.len()));
                    }
                }
                Ok((start, t0.elapsed().as_nanos()))
            }));
        }
        let mut compilers = Vec::new();
        for _ in 0..n_compilers {
            let rt = self.rt.clone();
            let src = src.clone();
            let barrier = barrier.clone();
            let ret = main.ret.clone();
            let with_args = !main.params.is_empty();
            compilers.push(std::thread::spawn(move || -> Result<(), String> {
                barrier.wait();
                for _ in 0..6 {
                    let mut p = host::compile(&rt, &src)?;
                    let f = get_main(&mut p, &ret, with_args)?;
                    drop(p);
                    drop(f);
                }
                Ok(())
            }));
        }
        let mut spans = Vec::new();
        let mut err: Option<String> = None;
        for h in handles {
            match h.join() {
                Ok(Ok(s)) => spans.push(s),
                Ok(Err(e)) => err = Some(e),
                Err(_) => err = Some("a calling thread panicked".into()),
            }
        }
        for h in compilers {
            match h.join() {
                Ok(Ok(())) => {}
                Ok(Err(e)) => err = Some(format!("a concurrently compiling thread failed: {e}")),
                Err(_) => err = Some("a compiling thread panicked".into()),
            }
        }
        crate::worker::take_panic();
        if let Some(e) = err {
            let mut f = Outcome::fail("concurrent-call-differs", format!("{e}\n{n_threads} threads x {n_calls} calls, {n_compilers} compiling threads\n--- source ---\n{src}"));
            f.render = Some(src);
            return f;
        }
        drop(closure);
        drop(mainf);
        drop(pkg);
        let (live1, tz1) = host::live_count();
        let anomalies = host::anomalies();
        if !anomalies.is_empty() {
            return Outcome::fail(format!("ownership:{}", crate::props::prog::anomaly_kind(&anomalies[0])), format!("{anomalies:?}\n{src}"));
        }
        if live1 != live0 || tz1 != tz0 {
            return Outcome::fail("ownership:unbalanced-after-join", format!("tracked values before {live0}/{tz0}, after all threads joined {live1}/{tz1}\n{src}"));
        }
        let overlapped = spans.iter().enumerate().any(|(i, a)| spans.iter().enumerate().any(|(j, b)| i != j && a.0 < b.1 && b.0 < a.1));
        let mut o = Outcome::pass();
        o.evals = (n_threads * n_calls) as u64;
        let allocates_or_calls_host = inputs.iter().any(|(_, _, _, l)| !l.is_empty()) || src.contains("String") || src.contains("List[");
        o.nontrivial = overlapped && allocates_or_calls_host;
        if overlapped {
            o.classes.push("threads-overlapped".into());
        }
        if n_compilers > 0 {
            o.classes.push("concurrent-compilation".into());
        }
        o.classes.push(format!("threads:{n_threads}"));
        o.hash = fnv(src.as_bytes());
        if render {
            o.render = Some(format!("{src}\n// {n_threads} threads x {n_calls} calls, {n_compilers} compiling threads"));
        }
        o
    }
}

impl W {
    /// (e) many calls from several threads of functions that only read script constants of
    /// reference-counted and aggregate types: every call copies (clones) from storage that all
    /// threads share
    fn constants_hammer(&mut self, case: &Case, render: bool) -> Outcome {
        const SRC: &str = "record Conf {\n    name: String,\n    n: u64,\n    tags: List[String],\n}\nconst GREETING: String = \"hello, \";\nconst NAMES: List[String] = [\"a\", \"bb\", \"ccc\"];\nconst CONF: Conf = Conf { name: \"conf\", n: 7, tags: [\"x\", \"y\"] };\nrecord Stats {\n    sum: u64,\n    count: u64,\n    low: u8,\n}\nconst EMPTY: Stats = Stats { sum: 0, count: 0, low: 3 };\nfn m(x: u64) -> u64 {\n    let s = EMPTY;\n    s.sum = s.sum + x;\n    s.count = s.count + 1;\n    s.sum * 1000 + s.count * 10 + EMPTY.count\n}\nfn f(name: String) -> String {\n    GREETING + name\n}\nfn g(i: u64) -> String {\n    match NAMES.get(i) {\n        Some(s) => s,\n        None => \"none\",\n    }\n}\nfn h(x: u64) -> u64 {\n    let c = CONF;\n    let d = c;\n    if d.name == \"conf\" && d.tags == [\"x\", \"y\"] { d.n + x } else { 0 }\n}\nconst BUF: StringBuf = StringBuf.new();\nfn p(c: char) -> u64 {\n    BUF.push_char(c);\n    BUF.as_string().bytes().len()\n}\nfn plen() -> u64 {\n    BUF.as_string().bytes().len()\n}\nconst SA: StringBuf = StringBuf.new();\nconst SB: StringBuf = StringBuf.new();\nfn sb_ab() -> bool {\n    SA == SB\n}\nfn sb_ba() -> bool {\n    SB == SA\n}\nfn sb_probe() -> u64 {\n    SB.as_string().bytes().len() + SA.as_string().bytes().len()\n}\nconst TEXT: String = \"a\u{f1}b\u{65e5}c\u{1d11e}defghij\\nsecond line \u{e9}\\nthird\";\nfn ch(i: u64) -> char? {\n    TEXT.chars().get(i)\n}\nfn sl(i: u64, j: u64) -> String? {\n    TEXT.chars().slice(i, j)\n}\nfn ln(i: u64) -> String? {\n    TEXT.lines().get(i)\n}\n";
        const TEXT: &str = "a\u{f1}b\u{65e5}c\u{1d11e}defghij\nsecond line \u{e9}\nthird";
        let empty: Vec<u8> = Vec::new();
        let ctl = case.get(2).unwrap_or(&empty);
        let mut c = Choices::new(ctl.get(1..).unwrap_or(&[]));
        let n_threads = 3 + c.below(6);
        let calls = 5_000 + c.below(8) * 5_000;
        let mut pkg = match host::compile(&self.rt, SRC) {
            Ok(p) => p,
            Err(e) => return Outcome::discard(format!("constants script rejected: {e}")),
        };
        let f = pkg.get_function::<fn(roto::RotoString) -> roto::RotoString>("f").expect("f");
        let g = pkg.get_function::<fn(u64) -> roto::RotoString>("g").expect("g");
        let h = pkg.get_function::<fn(u64) -> u64>("h").expect("h");
        let m = pkg.get_function::<fn(u64) -> u64>("m").expect("m");
        let p = pkg.get_function::<fn(char) -> u64>("p").expect("p");
        let plen = pkg.get_function::<fn() -> u64>("plen").expect("plen");
        let sb_ab = pkg.get_function::<fn() -> bool>("sb_ab").expect("sb_ab");
        let sb_ba = pkg.get_function::<fn() -> bool>("sb_ba").expect("sb_ba");
        let sb_probe = pkg.get_function::<fn() -> u64>("sb_probe").expect("sb_probe");
        let ch = pkg.get_function::<fn(u64) -> Option<char>>("ch").expect("ch");
        let sl = pkg.get_function::<fn(u64, u64) -> Option<roto::RotoString>>("sl").expect("sl");
        let ln = pkg.get_function::<fn(u64) -> Option<roto::RotoString>>("ln").expect("ln");
        let barrier = Arc::new(Barrier::new(n_threads));
        let mut hs = Vec::new();
        for t in 0..n_threads {
            let (f, g, h, m, p, barrier) = (f.clone(), g.clone(), h.clone(), m.clone(), p.clone(), barrier.clone());
            let (sb_ab, sb_ba, sb_probe) = (sb_ab.clone(), sb_ba.clone(), sb_probe.clone());
            let (ch, sl, ln) = (ch.clone(), sl.clone(), ln.clone());
            hs.push(std::thread::spawn(move || -> Result<(), String> {
                barrier.wait();
                let (mut own_pushes, mut last_len) = (0u64, 0u64);
                let n_chars = TEXT.chars().count();
                for i in 0..calls {
                    if i % 16 == 7 {
                        // views of one String constant (one shared payload) indexed by all threads at once, each
                        // at its own positions
                        let k = (i / 16 * (t + 1) + t * 5) % (n_chars + 2);
                        let got = ch.call(k as u64);
                        let want = TEXT.chars().nth(k);
                        if got != want {
                            return Err(format!("thread {t}, call {i}: TEXT.chars().get({k}) returned {got:?}, expected {want:?}"));
                        }
                        let j = (k + 1 + t % 3).min(n_chars);
                        if k <= j {
                            let got = sl.call(k as u64, j as u64).map(|s| s.to_string());
                            let want: Option<String> = if j <= n_chars && k <= j { Some(TEXT.chars().skip(k).take(j - k).collect()) } else { None };
                            if got != want {
                                return Err(format!("thread {t}, call {i}: TEXT.chars().slice({k}, {j}) returned {got:?}, expected {want:?}"));
                            }
                        }
                        let l = (i / 16 + t) % 4;
                        let got = ln.call(l as u64).map(|s| s.to_string());
                        let want = TEXT.lines().nth(l).map(|s| s.to_string());
                        if got != want {
                            return Err(format!("thread {t}, call {i}: TEXT.lines().get({l}) returned {got:?}, expected {want:?}"));
                        }
                        continue;
                    }
                    if i % 8 == 5 {
                        // a constant that is shared mutable state (StringBuf): every push of every
                        // thread must arrive, and a thread sees at least its own pushes
                        let got = p.call('x');
                        own_pushes += 1;
                        if got < own_pushes || got <= last_len {
                            return Err(format!("thread {t}, call {i}: after its push number {own_pushes} the shared StringBuf constant has length {got} (the call before saw {last_len})"));
                        }
                        last_len = got;
                        continue;
                    }
                    if i % 8 == 1 {
                        // two StringBuf constants that nobody changes, compared in both operand orders
                        // by different threads: always equal (and the comparison must come back)
                        let same = if t % 2 == 0 { sb_ab.call() } else { sb_ba.call() };
                        if !same {
                            return Err(format!("thread {t}, call {i}: two empty StringBuf constants compared unequal ({})", if t % 2 == 0 { "SA == SB" } else { "SB == SA" }));
                        }
                        continue;
                    }
                    if i % 8 == 3 {
                        let n = sb_probe.call();
                        if n != 0 {
                            return Err(format!("thread {t}, call {i}: two StringBuf constants that are never pushed to hold {n} bytes"));
                        }
                        continue;
                    }
                    match i % 4 {
                        3 => {
                            // a copy of a plain-data constant is modified: the constant must not change
                            let x = (i % 1000) as u64;
                            let got = m.call(x);
                            if got != x * 1000 + 10 {
                                return Err(format!("thread {t}, call {i}: m({x}) returned {got}, expected {}", x * 1000 + 10));
                            }
                        }
                        0 => {
                            let name = format!("t{t}-{i}");
                            let got = f.call(roto::RotoString::from(name.as_str())).to_string();
                            if got != format!("hello, {name}") {
                                return Err(format!("thread {t}, call {i}: f({name:?}) returned {got:?}"));
                            }
                        }
                        1 => {
                            let k = (i / 4) as u64 % 4;
                            let got = g.call(k).to_string();
                            let want = ["a", "bb", "ccc", "none"][k as usize];
                            if got != want {
                                return Err(format!("thread {t}, call {i}: g({k}) returned {got:?}, expected {want:?}"));
                            }
                        }
                        _ => {
                            let got = h.call(i as u64);
                            if got != 7 + i as u64 {
                                return Err(format!("thread {t}, call {i}: h({i}) returned {got}, expected {}", 7 + i as u64));
                            }
                        }
                    }
                }
                Ok(())
            }));
        }
        let mut err = None;
        for hnd in hs {
            match hnd.join() {
                Ok(Ok(())) => {}
                Ok(Err(e)) => err = Some(e),
                Err(_) => err = Some("a thread panicked".to_string()),
            }
        }
        crate::worker::take_panic();
        let text = format!("constants hammer: {n_threads} threads x {calls} calls of functions that read String / List / record constants\n{SRC}");
        if let Some(e) = err {
            return Outcome::fail("constants-hammer:wrong-result", format!("{e}\n{text}"));
        }
        let pushes = (n_threads * (0..calls).filter(|i| i % 8 == 5).count()) as u64;
        if plen.call() != pushes {
            return Outcome::fail("constants-hammer:lost-update", format!("{pushes} characters were pushed to the shared StringBuf constant, it holds {}\n{text}", plen.call()));
        }
        // once more single-threaded: the constants must be what they were
        if f.call(roto::RotoString::from("z")).to_string() != "hello, z" || g.call(1).to_string() != "bb" || h.call(1) != 8 {
            return Outcome::fail("constants-hammer:constant-changed", format!("after the threads finished the constants no longer have their values\n{text}"));
        }
        let mut o = Outcome::pass();
        o.evals = (n_threads * calls) as u64;
        o.nontrivial = true;
        o.classes.push("constants-hammer".into());
        o.hash = fnv(format!("{n_threads}x{calls}").as_bytes()) ^ fnv(&case.concat());
        if render {
            o.render = Some(text);
        }
        o
    }

    /// (d) many threads compile, call and drop packages of one runtime whose registered closures
    /// and constants hold drop-tracked values: results must be right, nothing may be released
    /// while the runtime is alive and everything exactly once after it was dropped
    /// Once per worker process (the types below are used nowhere else in this process): in twelve rounds
    /// eight threads ask for a function at the same moment, each under a Rust type (three layers of Option /
    /// List around a scalar) that this process has never handed to roto before.  Every request names the
    /// true signature and must succeed.
    fn first_use_race() -> Result<(), String> {
        static DONE: std::sync::atomic::AtomicBool = std::sync::atomic::AtomicBool::new(false);
        if DONE.swap(true, std::sync::atomic::Ordering::SeqCst) {
            return Ok(());
        }
        let jobs: Vec<RaceJob> = race_jobs!(u8, u16, u32, u64, i8, i16, i32, i64, f32, f64, char, bool);
        let barrier = Arc::new(Barrier::new(8));
        let jobs = Arc::new(jobs);
        let mut hs = Vec::new();
        for t in 0..8usize {
            let (barrier, jobs) = (barrier.clone(), jobs.clone());
            hs.push(std::thread::spawn(move || -> Result<(), String> {
                let rt = Runtime::new();
                let mut res = Ok(());
                for job in jobs.iter().skip(t).step_by(8) {
                    // a failing job still went through the barrier, so the threads stay in step
                    if let Err(e) = job(&rt, &barrier) {
                        res = Err(format!("thread {t}: {e}"));
                    }
                }
                res
            }));
        }
        let mut res = Ok(());
        for h in hs {
            match h.join() {
                Ok(Ok(())) => {}
                Ok(Err(e)) => res = Err(e),
                Err(_) => res = Err("a thread asking for a function panicked".to_string()),
            }
        }
        res
    }

    fn compile_storm(&mut self, case: &Case, render: bool) -> Outcome {
        if let Err(e) = Self::first_use_race() {
            return Outcome::fail("refused-true-signature:first-use-on-several-threads", e);
        }
        use crate::props::c11;
        let empty: Vec<u8> = Vec::new();
        let ctl = case.get(2).unwrap_or(&empty);
        let mut c = Choices::new(ctl.get(1..).unwrap_or(&[]));
        let n_threads = 3 + c.below(6);
        let cycles = 10 + c.below(40);
        let k = 40 + c.below(20) as i32;
        host::reset(vec![]);
        let base = c11::live_by_tag();
        let base_tz = host::live_count().1;
        let rt = Arc::new(c11::build_runtime(k));
        let barrier = Arc::new(Barrier::new(n_threads));
        let mut hs = Vec::new();
        for t in 0..n_threads {
            let (rt, barrier) = (rt.clone(), barrier.clone());
            hs.push(std::thread::spawn(move || -> Result<(), String> {
                barrier.wait();
                let mut kept: Vec<roto::TypedFunc<NoCtx, fn(i32) -> i32>> = Vec::new();
                for i in 0..cycles {
                    let v = 1 + ((t + i) % 3) as i32;
                    let mut pkg = c11::compile_version(&rt, v)?;
                    let f = pkg.get_function::<fn(i32) -> i32>("f").map_err(|e| format!("{e}"))?;
                    let g = f.clone();
                    drop(pkg);
                    let x = (i as i32) - 7;
                    let want = x.wrapping_mul(v).wrapping_add(300 + v).wrapping_add(100 + k).wrapping_add(200 + k).wrapping_sub(100);
                    let got = g.call(x);
                    if got != want {
                        return Err(format!("thread {t}, cycle {i}: f({x}) of version {v} returned {got}, expected {want}"));
                    }
                    drop(f);
                    if i % 5 == 0 {
                        kept.push(g);
                        if kept.len() > 3 {
                            kept.remove(0);
                        }
                    }
                }
                Ok(())
            }));
        }
        let mut err = None;
        for h in hs {
            match h.join() {
                Ok(Ok(())) => {}
                Ok(Err(e)) => err = Some(e),
                Err(_) => err = Some("a thread panicked".to_string()),
            }
        }
        crate::worker::take_panic();
        let text = format!("compile storm: {n_threads} threads x {cycles} cycles of compile / get_function / clone / drop package / call / drop handle on one runtime (k = {k})");
        if let Some(e) = err {
            return Outcome::fail("compile-storm:wrong-result", format!("{e}\n{text}"));
        }
        // the runtime is still alive: its constant and captured values must be too
        let now = c11::live_by_tag();
        for tag in [100 + k, 200 + k, 500 + k, 600 + k, 400 + k] {
            let n = now.get(&tag).copied().unwrap_or(0).saturating_sub(base.get(&tag).copied().unwrap_or(0));
            if n != 1 {
                return Outcome::fail("compile-storm:released-too-early", format!("{n} values with tag {tag} are alive while the runtime still is (expected 1)\n{text}"));
            }
        }
        drop(rt);
        let end = c11::live_by_tag();
        if end != base || host::live_count().1 != base_tz {
            let extra: Vec<_> = end.iter().filter(|(t, n)| base.get(t).copied().unwrap_or(0) != **n).collect();
            return Outcome::fail("compile-storm:not-released", format!("after dropping the runtime and every package and handle these tags are still alive: {extra:?} (zero-sized: {})\n{text}", host::live_count().1 - base_tz));
        }
        let anomalies = host::anomalies();
        if !anomalies.is_empty() {
            return Outcome::fail(format!("compile-storm:{}", crate::props::prog::anomaly_kind(&anomalies[0])), format!("{anomalies:?}\n{text}"));
        }
        let mut o = Outcome::pass();
        o.evals = (n_threads * cycles) as u64;
        o.nontrivial = true;
        o.classes.push("compile-storm".into());
        o.hash = fnv(text.as_bytes()) ^ fnv(&case.concat());
        if render {
            o.render = Some(text);
        }
        o
    }

    /// (c) the built-in catalogue of C17 called from several threads at once, every call
    /// compared with the documented meaning (which does not depend on other threads)
    fn builtins_under_threads(&mut self, case: &Case, render: bool) -> Outcome {
        if self.pool.is_empty() {
            let t0 = Instant::now();
            for _ in 0..POOL {
                let (tx, rx) = std::sync::mpsc::channel::<Job>();
                let excl = self.excl.clone();
                std::thread::Builder::new().stack_size(64 << 20).spawn(move || pool_thread(rx, excl, t0)).expect("pool thread");
                self.pool.push(tx);
            }
        }
        let empty: Vec<u8> = Vec::new();
        let n_threads = 2 + case.get(2).and_then(|c| c.get(1)).map(|b| (*b as usize * 3) >> 8).unwrap_or(0);
        let gate = Arc::new(std::sync::atomic::AtomicUsize::new(0));
        let (rtx, rrx) = std::sync::mpsc::channel();
        // every thread runs the same sequence of built-ins (first byte of each sub-case is
        // shared) on its own arguments (the rest of the sub-case differs per thread), or,
        // in one case out of three, on identical arguments
        let same = case.get(2).and_then(|c| c.get(2)).map(|b| *b < 85).unwrap_or(false);
        let base = case.first().unwrap_or(&empty).clone();
        let other = case.get(1).unwrap_or(&empty).clone();
        for t in 0..n_threads {
            let mut chunk = base.clone();
            if !same && t > 0 {
                for (i, b) in chunk.iter_mut().enumerate() {
                    if i % SUB_LEN != 0 {
                        let o = other.get((i + t * 37) % other.len().max(1)).copied().unwrap_or(0);
                        *b = b.wrapping_add(o).wrapping_add((t as u8).wrapping_mul(29));
                    }
                }
            }
            let job = Job { chunk, gate: gate.clone(), parties: n_threads, reply: rtx.clone() };
            if self.pool[t].send(job).is_err() {
                return Outcome::fail("crash:pool-thread-died", "a pool thread died in an earlier case".to_string());
            }
        }
        drop(rtx);
        let mut spans = Vec::new();
        let mut evals = 0;
        let mut nt = false;
        let mut sample = String::new();
        let mut fail: Option<(String, String)> = None;
        for _ in 0..n_threads {
            match rrx.recv_timeout(std::time::Duration::from_secs(100)) {
                Ok(Ok((e, n, sp, s))) => {
                    evals += e;
                    nt |= n;
                    spans.push(sp);
                    if sample.is_empty() {
                        sample = s;
                    }
                }
                Ok(Err(f)) => fail = Some(f),
                Err(_) => return Outcome::fail("crash:pool-thread-died", "a pool thread did not answer".to_string()),
            }
        }
        if let Some((sig, msg)) = fail {
            let mut f = Outcome::fail(format!("concurrent-builtin:{sig}"), format!("called from {n_threads} threads at once:\n{msg}"));
            f.render = Some(msg);
            return f;
        }
        let overlapped = spans.iter().enumerate().any(|(i, a)| spans.iter().enumerate().any(|(j, b)| i != j && a.0 < b.1 && b.0 < a.1));
        let mut o = Outcome::pass();
        o.evals = evals;
        o.nontrivial = overlapped && nt;
        o.classes.push("built-ins-under-threads".into());
        if overlapped {
            o.classes.push("threads-overlapped".into());
        }
        o.hash = fnv(&case.concat());
        if render {
            o.render = Some(format!("built-in catalogue from {n_threads} threads ({} argument streams); first call: {sample}", if same { "identical" } else { "different" }));
        }
        o
    }

    fn program(&self, s0: &[u8], s1: &[u8]) -> Program {
        let mut rets: Vec<Ty> = SCALAR_TYS.to_vec();
        rets.push(Ty::Unit);
        rets.push(Ty::Str);
        Gen::new(s0, s1, self.prof.clone()).program(&rets)
    }
}

impl Prop for C12P {
    fn id(&self) -> &'static str {
        "C12"
    }
    fn rule(&self) -> String {
        "(a) stress: generated programs of the ownership profile (strings, lists, records, tracked host values, host calls); 2-8 threads released by a barrier make 50-200 calls each on clones of one handle with rotating input vectors while 0-2 further threads compile the same script, get the function and drop package and handle; oracle: every call returns the single-threaded result and produces the single-threaded host-call log, tracked values balance after all threads joined, no crash (worker isolation). Non-trivial: at least two calling threads overlapped in time (start/end stamps) and the function allocates or calls a host function. (c) one case in four: the built-in catalogue of C17 (strings, views, lists incl. join, numbers, addresses) called from 2-4 pool threads at once, each with its own package, identical or different argument streams, every call compared with the documented meaning; (e) one case in eight: 3-8 threads x 5 000-40 000 calls of functions that only read String / List / record script constants (every call clones from storage all threads share); (d) one case in eight: 3-8 threads x 10-50 cycles of compile / get_function / clone / drop package / call / drop handle on one runtime whose registered closures and constants hold drop-tracked values: results right, nothing released while the runtime lives, everything released exactly once afterwards; (b) rustc probes type-checked against the harness's libroto: eleven hand-written ones and a generated grid of 396 small embedding programs = 13 kinds of host state (Cell, RefCell, Rc, OnceCell, raw pointer, mpsc Receiver, Rc<RefCell>, Arc<Cell> must be rejected for a Send / Sync reason; i64, Arc, Arc<Atomic>, Arc<Mutex>, Arc<RwLock> must be accepted) x 5 places the API lets a host keep state (closure registered with library!, closure registered with Function::new, value of a registered constant read by scripts, constant alone, registered Val type alone) x 6 ways for two threads to reach compiled code (scoped threads on &handle, cloned handle moved to a thread, into_func closure moved to a thread, two threads compiling on &Runtime, package moved to a thread while a handle stays, Arc<handle>), plus a Rust-side List<Val<_>> shared by reference and by clone; distinct by program text / probe".into()
    }
    fn assumptions(&self) -> Vec<String> {
        vec![
            "the harness does not own the schedule of JIT code or of the global registry / interner: part (a) samples the interleavings the OS produces and would miss a race with a narrow window; it catches state shared between calls".into(),
            "rustc is available offline and the harness's libroto rlib is in harness/target/release/deps".into(),
        ]
    }
    fn cases(&self, tier: Tier) -> u32 {
        match tier {
            Tier::Quick => 4_000,
            Tier::Thorough => 150_000,
        }
    }
    fn shape(&self, _tier: Tier) -> CaseShape {
        CaseShape::streams(&[500, 200, 8, 72, 72, 72, 72])
    }
    fn fixed_cases(&self, _tier: Tier) -> Vec<Case> {
        (0..probe_count()).map(|i| if i < 256 { vec![b"#!probe".to_vec(), vec![i as u8]] } else { vec![b"#!probe".to_vec(), vec![(i / 256) as u8, (i % 256) as u8]] }).collect()
    }
    fn worker(&self, excl: &[String]) -> Box<dyn WorkerState> {
        let mut prof = profile_for(Kind::C03, excl);
        prof.budget = 160;
        Box::new(W { rt: Arc::new(host::build_runtime()), prof, excl: excl.to_vec(), pool: Vec::new() })
    }
    fn timeout_ms(&self) -> u64 {
        120_000
    }
}
