//! C06 — Compilation is total: every input yields a package or a report.

use std::fmt::Write as _;

use roto::{FileSpec, FileTree, NoCtx, Runtime, SourceFile};

use crate::ast::*;
use crate::core::*;
use crate::host;
use crate::pgen::{Gen, SCALAR_TYS};

pub struct C06P;
pub static C06: C06P = C06P;

const MAX_DEPTH: usize = 48;

pub const TOKENS: &[&str] = &[
    "accept", "const", "dep", "else", "enum", "filter", "filtermap", "for", "fn", "if", "import", "in", "let", "match", "pkg",
    "record", "reject", "return", "std", "super", "test", "while", "true", "false", "(", ")", "{", "}", "[", "]", ",", ";", ":",
    ".", "?", "!", "=", "==", "!=", "<", "<=", ">", ">=", "+", "-", "*", "/", "%", "+=", "-=", "*=", "/=", "%=", "&&", "||",
    "->", "=>", "--", "/*", "*/", "//", "#", "#!", "_", "&", "|", "@", "$", "'", "\"", "f\"", "\\", "0", "1", "10u8", "300u8",
    "0xff", "0x", "1_000", "1.5", "10.", "1e5", "5E-5", "1.5f32", "2f64", "9999999999999999999", "1e999", "'a'", "'\\n'", "'\\u{1F600}'",
    "'ab'", "\"str\"", "\"é日本\"", "\"\\x41\\u{e9}\"", "\"unterminated", "f\"a{x}b\"", "f\"{{}}\"", "f\"{1}{2}}}\"", "f\"é{x}\"", "f\"{",
    "1.1.1.1", "::1", "2001:db8::1", "1.1.1.1/8", "::/200", "AS1234", "AS99999999999", "x", "y", "foo", "Foo", "main", "é", "Москва",
    "東京", "_x", "x1", "i32", "u8", "u64", "f64", "bool", "String", "char", "List", "Option", "Some", "None", "Result", "Ok", "Err",
    "Verdict", "Prefix", "IpAddr", "Asn", "print", "to_string", "len", "push", "get", "T", "A", "B", "\u{a0}", "\u{feff}", "\t", "\n",
    "\r\n", "😀", "\u{0301}", "\0",
    // lexical and literal errors directly next to multi-byte characters: a location that is
    // off by one byte ends inside a code point
    "\"\\qé\"", "\"é\\q\"", "f\"\\qé\"", "f\"é\\q{x}é\"", "f\"{x}\\qé\"", "'\\qé'", "'é\\q'", "\"\\u{110000}é\"", "\"\\x4é\"", "\"\\u{é}\"",
    "1u7é", "1é", "0xé", "1.5f33é", "1e5é", "AS1é", "1.1.1.é", "300u8é", "é300u8", "é\"", "é'", "'é", "\"é", "f\"é{", "f\"é{é", "f\"{é}é\"",
    "é(", ")é", "é.é", "é:é", "é?", "!é", "é!", "#é", "@é", "$é", "&é", "|é", "é|", "é&", "\\é", "é\\",
];

fn depth_ok(tok: &str, depth: &mut usize) -> bool {
    match tok {
        "(" | "{" | "[" => {
            if *depth >= MAX_DEPTH {
                return false;
            }
            *depth += 1;
            true
        }
        ")" | "}" | "]" => {
            *depth = depth.saturating_sub(1);
            true
        }
        _ => true,
    }
}

/// (v) type declarations referring to each other in every way the type grammar allows
/// (directly, through options, lists, anonymous records and type arguments of other
/// generic declarations, with matching and mismatching arities), plus functions using them
fn decl_graph(c: &mut Choices) -> String {
    let n = 1 + c.below(5);
    let names = ["A", "B", "C", "D", "E"];
    let arity: Vec<usize> = (0..n).map(|_| if c.chance(110) { 1 + c.below(2) } else { 0 }).collect();
    fn ty(c: &mut Choices, depth: u32, n: usize, names: &[&str], arity: &[usize], own_params: usize) -> String {
        let k = if depth == 0 { c.below(4) } else { c.below(12) };
        match k {
            0 => ["u8", "i32", "String", "bool", "u64", "()"][c.below(6)].to_string(),
            1 | 2 if own_params > 0 => ["T", "U"][c.below(own_params)].to_string(),
            3 | 4 | 5 | 6 => {
                let d = c.below(n);
                let want = if c.chance(20) { c.below(3) } else { arity[d] };
                if want == 0 {
                    names[d].to_string()
                } else {
                    let args: Vec<String> = (0..want).map(|_| ty(c, depth.saturating_sub(1), n, names, arity, own_params)).collect();
                    format!("{}[{}]", names[d], args.join(", "))
                }
            }
            7 | 8 if depth > 0 => format!("{}?", ty(c, depth - 1, n, names, arity, own_params)),
            9 if depth > 0 => format!("List[{}]", ty(c, depth - 1, n, names, arity, own_params)),
            10 if depth > 0 => format!("{{ a: {}, b: {} }}", ty(c, depth - 1, n, names, arity, own_params), ty(c, depth - 1, n, names, arity, own_params)),
            11 if depth > 0 => format!("Result[{}, {}]", ty(c, depth - 1, n, names, arity, own_params), ty(c, depth - 1, n, names, arity, own_params)),
            _ => ["u8", "i32", "String"][c.below(3)].to_string(),
        }
    }
    let mut s = String::new();
    for d in 0..n {
        let params = match arity[d] {
            0 => String::new(),
            1 => "[T]".to_string(),
            _ => "[T, U]".to_string(),
        };
        if c.chance(128) {
            let nf = 1 + c.below(3);
            let fields: Vec<String> = (0..nf).map(|f| format!("f{f}: {}", ty(c, 2, n, &names, &arity, arity[d]))).collect();
            let _ = writeln!(s, "record {}{} {{ {} }}", names[d], params, fields.join(", "));
        } else {
            let nv = 1 + c.below(3);
            let vs: Vec<String> = (0..nv)
                .map(|v| {
                    let nf = c.below(3);
                    if nf == 0 {
                        format!("V{d}{v}")
                    } else {
                        let ts: Vec<String> = (0..nf).map(|_| ty(c, 2, n, &names, &arity, arity[d])).collect();
                        format!("V{d}{v}({})", ts.join(", "))
                    }
                })
                .collect();
            let _ = writeln!(s, "enum {}{} {{ {} }}", names[d], params, vs.join(", "));
        }
    }
    let nfn = 1 + c.below(3);
    for f in 0..nfn {
        let t = ty(c, 2, n, &names, &arity, 0);
        match c.below(4) {
            0 => {
                let _ = writeln!(s, "fn g{f}(x: {t}) -> bool {{ true }}");
            }
            1 => {
                let _ = writeln!(s, "fn g{f}(x: {t}) -> {t} {{ x }}");
            }
            2 => {
                let _ = writeln!(s, "fn g{f}(x: {t}) -> bool {{ x == x }}");
            }
            _ => {
                let _ = writeln!(s, "fn g{f}(x: List[{t}]) -> {t}? {{ x.get(0) }}");
            }
        }
    }
    s
}

/// (vi) import statements: valid and invalid paths, groups, duplicates and clashes, at
/// the top level and inside function bodies, followed by uses of the imported names
fn import_soup(c: &mut Choices) -> String {
    const PATHS: [&str; 28] = [
        "Option.Some", "Option.None", "Option.Nome", "Option", "Result.Ok", "Result.Err", "Result.Okay", "Verdict.Accept", "Verdict.Reject",
        "pkg.f", "pkg.g", "pkg.m1.f", "pkg.m1", "pkg.m2.h", "super.f", "super.super.f", "m1.f", "m1", "std.x", "dep.y", "String", "List",
        "u32", "zz", "pkg", "pkg.E.A", "pkg.E", "E.B",
    ];
    let item = |c: &mut Choices| -> String {
        if c.chance(60) {
            let base = ["Option", "Result", "pkg", "pkg.m1", "pkg.E", "Verdict"][c.below(6)];
            let n = 1 + c.below(3);
            let leaves = ["Some", "None", "Nome", "Ok", "Err", "f", "g", "h", "A", "B", "Accept", "zz"];
            let parts: Vec<&str> = (0..n).map(|_| leaves[c.below(leaves.len())]).collect();
            format!("import {base}.{{{}}};", parts.join(", "))
        } else {
            format!("import {};", PATHS[c.below(PATHS.len())])
        }
    };
    let mut s = String::new();
    let n_top = c.below(4);
    for _ in 0..n_top {
        let _ = writeln!(s, "{}", item(c));
    }
    let _ = writeln!(s, "enum E {{ A(i32), B }}");
    let _ = writeln!(s, "fn f() -> i32 {{ 1 }}");
    let _ = writeln!(s, "fn g(x: i32) -> i32 {{ x }}");
    let n_fn = 1 + c.below(3);
    for k in 0..n_fn {
        let _ = writeln!(s, "fn u{k}(x: i32) -> i32? {{");
        let n_in = c.below(3);
        for _ in 0..n_in {
            let _ = writeln!(s, "    {}", item(c));
        }
        if c.chance(100) {
            let _ = writeln!(s, "    if x > 0 {{
        {}
        let y = f();
    }} else {{
        let z = g(x);
    }}", item(c));
        }
        let body = ["Some(x)", "None", "Option.Some(f())", "Some(g(x))", "match A(x) { A(v) => Some(v), B => None }", "Ok(x)?", "Some(h())"][c.below(7)];
        let _ = writeln!(s, "    {body}
}}");
    }
    s
}

/// Append a multi-byte letter to every generated name (v1, x2, m3, f0, R1, E2, V0x1, K3, p0, ...)
/// so that every location the compiler cites starts or ends next to a multi-byte character.
/// put a blank, a line break, a tab or a comment in front of about a third of the punctuation
/// characters (positions picked by a generator seeded from the choice stream)
fn respace(src: &str, seed: u16) -> String {
    let mut x = (seed as u32).wrapping_mul(2654435761).wrapping_add(12345) | 1;
    let mut next = move || {
        x ^= x << 13;
        x ^= x >> 17;
        x ^= x << 5;
        x
    };
    let mut out = String::with_capacity(src.len() + src.len() / 4);
    for ch in src.chars() {
        if "?.,;:()[]{}".contains(ch) && next() % 3 == 0 {
            out.push_str(match next() % 5 {
                0 => " ",
                1 => "\n",
                2 => "\t",
                3 => " // c\n",
                _ => "  ",
            });
        }
        out.push(ch);
    }
    out
}

fn unicodeify(src: &str) -> String {
    let mut out = String::with_capacity(src.len() + 64);
    let cs: Vec<char> = src.chars().collect();
    let mut i = 0;
    let mut in_str = false;
    while i < cs.len() {
        let ch = cs[i];
        if ch == '"' {
            in_str = !in_str;
            out.push(ch);
            i += 1;
            continue;
        }
        if !in_str && (ch.is_ascii_alphabetic() || ch == '_') && (i == 0 || !(cs[i - 1].is_alphanumeric() || cs[i - 1] == '_')) {
            let mut j = i;
            while j < cs.len() && (cs[j].is_ascii_alphanumeric() || cs[j] == '_') {
                j += 1;
            }
            let word: String = cs[i..j].iter().collect();
            out.push_str(&word);
            // generated names: one or two letters followed by digits (and an optional x<digits> part)
            let letters = word.chars().take_while(|c| c.is_ascii_alphabetic()).count();
            let rest: String = word.chars().skip(letters).collect();
            let generated = (1..=2).contains(&letters)
                && !rest.is_empty()
                && rest.chars().all(|c| c.is_ascii_digit() || c == 'x')
                && !matches!(word.as_str(), "i8" | "i16" | "i32" | "i64" | "u8" | "u16" | "u32" | "u64" | "f32" | "f64")
                && !(j < cs.len() && cs[j] == '.' && word.chars().all(|c| c.is_ascii_digit()));
            // not for literal suffixes (digits directly before the word)
            let after_digit = i > 0 && cs[i - 1].is_ascii_digit();
            if generated && !after_digit {
                out.push('é');
            }
            i = j;
            continue;
        }
        out.push(ch);
        i += 1;
    }
    out
}

pub fn declares_enum_without_variants(text: &str) -> bool {
    // comments may stand anywhere between the tokens
    let stripped: String = text.lines().map(|l| l.split("//").next().unwrap_or("")).collect::<Vec<_>>().join("\n");
    let mut rest = stripped.as_str();
    while let Some(i) = rest.find("enum ") {
        rest = &rest[i + 5..];
        if let Some(j) = rest.find('{') {
            let head = &rest[..j];
            if !head.contains(';') && !head.contains('}') && rest[j + 1..].trim_start().starts_with('}') {
                return true;
            }
        }
    }
    false
}

/// (viii) long chains of binary operators (20-64 operands), nested to the left, to the right or flat,
/// over operands of one kind or of clashing kinds: the checker has special cases for `+` (strings,
/// lists) and `/` (prefixes) in front of the arithmetic ones, and whatever it does per operator it
/// does along the whole chain.
fn operator_chain(c: &mut Choices) -> String {
    let n = 20 + c.below(45);
    let pools: [&[&str]; 6] = [&["1", "2", "x", "30"], &["1.5", "y", "0.25"], &["\"a\"", "s", "\"\""], &["[1]", "l", "[]"], &["1.2.3.4", "ip"], &["1", "\"a\"", "true", "x", "s"]];
    let pool = pools[c.below(pools.len())];
    let ops: &[&str] = match c.below(5) {
        0 => &["+"],
        1 => &["/"],
        2 => &["+", "-", "*", "/"],
        3 => &["+", "/"],
        _ => &["-", "*", "%"],
    };
    let shape = c.below(3);
    let mut e = pool[c.below(pool.len())].to_string();
    for _ in 1..n {
        let o = ops[c.below(ops.len())];
        let t = pool[c.below(pool.len())];
        e = match shape {
            0 => format!("{e} {o} {t}"),
            1 => format!("{t} {o} ({e})"),
            _ => format!("({e}) {o} {t}"),
        };
    }
    let ann = ["", ": i32", ": f64", ": String", ": List[i32]", ": Prefix", ": u8"][c.below(7)];
    format!("fn zz_chain(x: i32, y: f64, s: String, l: List[i32], ip: IpAddr) {{\n    let v{ann} = {e};\n}}\n")
}

/// (vii) duplicate declarations and self-referential inference: shapes that are errors (or
/// harmless) by the language rules and historically sit next to unwraps in the checker
fn knots_and_duplicates(c: &mut Choices) -> String {
    let mut s = String::new();
    let n = 1 + c.below(4);
    for k in 0..n {
        match c.below(20) {
            18 | 19 => {
                // script types named like built-in ones, used where the built-in one has a special role
                let name = ["Option", "Result", "Verdict", "List", "String", "Prefix", "bool", "u8"][c.below(8)];
                let decl = match c.below(3) {
                    0 => format!("enum {name}[T] {{ Nothing, Just(T) }}"),
                    1 => format!("record {name} {{ v: u32 }}"),
                    _ => format!("enum {name} {{ A, B(u32) }}"),
                };
                let usage = match c.below(6) {
                    0 => format!("fn fs{k}(x: u32?) -> {name}[u32] {{ let y = x?; {name}.Just(y) }}"),
                    1 => format!("fn fs{k}(x: u32?) -> {name} {{ let y = x?; {name} {{ v: y }} }}"),
                    2 => format!("filtermap fs{k}(x: u32) {{ if x > 1 {{ accept {name}.B(x) }} reject }}"),
                    3 => format!("fn fs{k}(x: {name}) -> u32 {{ match x {{ Some(v) => v, None => 0 }} }}"),
                    4 => format!("fn fs{k}() -> {name} {{ [1, 2] }}\nfn gs{k}() -> String {{ f\"{{fs{k}()}}\" }}"),
                    _ => format!("fn fs{k}(x: {name}[u8]) -> u8 {{ for y in x {{ return y; }} 0 }}"),
                };
                let _ = writeln!(s, "{decl}\n{usage}");
            }
            16 | 17 => {
                // types without values (an enum without variants, alone or inside other types) in
                // places where a value is stored; the code that would make one never returns
                let _ = writeln!(s, "enum Ev{k} {{}}\nfn fv{k}(n: i32) -> Ev{k} {{ fv{k}(n) }}");
                match c.below(6) {
                    0 => {
                        let _ = writeln!(s, "record Rv{k} {{ e: Ev{k}, s: String }}\nfn gv{k}(n: i32) -> i32 {{ if n > 0 {{ let r = Rv{k} {{ e: fv{k}(n), s: \"a\" }}; 1 }} else {{ 0 }} }}");
                    }
                    1 => {
                        let _ = writeln!(s, "record Rv{k} {{ s: String, e: Ev{k}, t: u8 }}\nfn gv{k}(n: i32) -> u8 {{ if n > 0 {{ let r = Rv{k} {{ t: 1, e: fv{k}(n), s: \"a\" }}; r.t }} else {{ 0 }} }}");
                    }
                    2 => {
                        let _ = writeln!(s, "fn gv{k}(n: i32) -> i32 {{ if n > 0 {{ let r = {{ a: 1, e: fv{k}(n) }}; r.a }} else {{ 0 }} }}");
                    }
                    3 => {
                        let _ = writeln!(s, "enum Wv{k} {{ A(Ev{k}, String), B(String) }}\nfn gv{k}(n: i32) -> Wv{k} {{ if n > 0 {{ Wv{k}.A(fv{k}(n), \"x\") }} else {{ Wv{k}.B(\"y\") }} }}\nfn hv{k}() -> bool {{ gv{k}(0) == gv{k}(0) }}");
                    }
                    4 => {
                        let _ = writeln!(s, "const Kv{k}: Option[Ev{k}] = Option.None;\nfn gv{k}() -> i32 {{ match Kv{k} {{ Some(e) => 1, None => 0 }} }}");
                    }
                    _ => {
                        let _ = writeln!(s, "fn gv{k}(n: i32) -> i32 {{ if n > 0 {{ let l = [fv{k}(n)]; let o = Option.Some(fv{k}(n)); 1 }} else {{ 0 }} }}");
                    }
                }
            }
            14 | 15 => {
                // very many variants / fields / arms / parameters: whatever is stored in a byte
                // somewhere runs out between 255 and 257
                let n = [127usize, 128, 129, 255, 256, 257, 300][c.below(7)];
                match c.below(4) {
                    0 => {
                        let vs: Vec<String> = (0..n).map(|i| format!("W{i}")).collect();
                        let arms: Vec<String> = (0..n).map(|i| format!("W{i} => {i}")).collect();
                        let _ = writeln!(s, "enum Eb{k} {{ {} }}\nfn fb{k}(e: Eb{k}) -> i32 {{ match e {{ {} }} }}\nfn gb{k}() -> i32 {{ fb{k}(Eb{k}.W{}) + fb{k}(Eb{k}.W0) }}", vs.join(", "), arms.join(", "), n - 1);
                    }
                    1 => {
                        let vs: Vec<String> = (0..n).map(|i| format!("W{i}(u8)")).collect();
                        let _ = writeln!(s, "enum Ep{k} {{ {} }}\nfn fp{k}(e: Ep{k}) -> u8 {{ match e {{ W{}(x) => x, _ => 0 }} }}\nfn gp{k}() -> bool {{ Ep{k}.W{}(1) == Ep{k}.W0(1) }}", vs.join(", "), n - 1, n - 1);
                    }
                    2 => {
                        let fs: Vec<String> = (0..n).map(|i| format!("w{i}: u8")).collect();
                        let vs: Vec<String> = (0..n).map(|i| format!("w{i}: {}", i % 200)).collect();
                        let _ = writeln!(s, "record Rb{k} {{ {} }}\nfn rb{k}() -> u8 {{ let r = Rb{k} {{ {} }}; r.w{} }}", fs.join(", "), vs.join(", "), n - 1);
                    }
                    _ => {
                        let ps: Vec<String> = (0..n).map(|i| format!("p{i}: u8")).collect();
                        let args: Vec<String> = (0..n).map(|i| format!("{}", i % 200)).collect();
                        let _ = writeln!(s, "fn pb{k}({}) -> u8 {{ p{} }}\nfn qb{k}() -> u8 {{ pb{k}({}) }}", ps.join(", "), n - 1, args.join(", "));
                    }
                }
            }
            0 => {
                let _ = writeln!(s, "enum Ed{k} {{ A, A }}");
            }
            1 => {
                let _ = writeln!(s, "enum Ee{k} {{ A(i32), B, A(bool) }}");
            }
            2 => {
                let _ = writeln!(s, "record Rd{k} {{ a: i32, a: i32 }}");
            }
            3 => {
                let _ = writeln!(s, "record Rg{k}[T, T] {{ a: T }}");
            }
            4 => {
                let _ = writeln!(s, "fn fd{k}(a: i32, a: i32) -> i32 {{ a }}");
            }
            5 => {
                let _ = writeln!(s, "fn same() -> i32 {{ 1 }}\nfn same() -> i32 {{ 2 }}");
            }
            6 => {
                let _ = writeln!(s, "const KD: i32 = 1;\nconst KD: i32 = 2;");
            }
            7 => {
                let _ = writeln!(s, "record Same{k} {{ a: i32 }}\nenum Same{k} {{ A }}");
            }
            8 => {
                let _ = writeln!(s, "fn Same{k}() -> i32 {{ 1 }}\nrecord Same{k} {{ a: i32 }}");
            }
            9 => {
                let _ = writeln!(s, "test t{k} {{ accept }}\ntest t{k} {{ reject }}");
            }
            10 => {
                let _ = writeln!(s, "enum Opt{k} {{ Some(i32), None }}\nfn fo{k}() -> Opt{k} {{ Opt{k}.None }}");
            }
            _ => {
                // self-referential inference knots
                let init = ["[]", "Option.None", "{ a: [] }", "[[]]", "{ a: Option.None }", "0"][c.below(6)];
                let wrap = |c: &mut Choices, x: &str| -> String {
                    match c.below(8) {
                        0 => format!("{{ a: {x} }}"),
                        1 => format!("[{x}]"),
                        2 => format!("Option.Some({x})"),
                        3 => format!("{{ a: [{x}] }}"),
                        4 => format!("[{{ a: {x} }}]"),
                        5 => format!("{{ a: {x}, b: {x} }}"),
                        6 => format!("Result.Ok({x})"),
                        _ => x.to_string(),
                    }
                };
                let _ = writeln!(s, "fn fk{k}() {{");
                let _ = writeln!(s, "    let x = {init};");
                let m = 1 + c.below(3);
                for _ in 0..m {
                    let w = wrap(c, "x");
                    match c.below(6) {
                        0 => {
                            let _ = writeln!(s, "    x.push({w});");
                        }
                        1 => {
                            let _ = writeln!(s, "    x = {w};");
                        }
                        2 => {
                            let _ = writeln!(s, "    x.a = {w};");
                        }
                        3 => {
                            let _ = writeln!(s, "    let y = {w};\n    x = y;\n    y = x;");
                        }
                        4 => {
                            let _ = writeln!(s, "    if x == {w} {{ }}");
                        }
                        _ => {
                            let _ = writeln!(s, "    x.a.push({w});");
                        }
                    }
                }
                let _ = writeln!(s, "}}");
            }
        }
    }
    s
}

/// (i) random token soup
fn token_soup(c: &mut Choices) -> String {
    let n = c.below(60);
    let mut s = String::new();
    let mut depth = 0;
    for _ in 0..n {
        let t = TOKENS[c.below(TOKENS.len())];
        if !depth_ok(t, &mut depth) {
            continue;
        }
        s.push_str(t);
        if c.chance(200) {
            s.push(' ');
        }
    }
    s
}

/// split a source text into rough tokens (words, numbers, strings, single punctuation)
fn rough_tokens(src: &str) -> Vec<String> {
    let mut out = Vec::new();
    let mut cur = String::new();
    for ch in src.chars() {
        if ch.is_alphanumeric() || ch == '_' {
            cur.push(ch);
        } else {
            if !cur.is_empty() {
                out.push(std::mem::take(&mut cur));
            }
            out.push(ch.to_string());
        }
    }
    if !cur.is_empty() {
        out.push(cur);
    }
    out
}

/// (ii) a valid generated program with 1-3 token / character level mutations
fn mutated_program(c: &mut Choices, s0: &[u8], s1: &[u8]) -> String {
    let mut prof = crate::props::prog::profile_for(crate::props::prog::Kind::C02, &[]);
    prof.budget = 90;
    prof.max_depth = 4;
    let mut rets: Vec<Ty> = SCALAR_TYS.to_vec();
    rets.push(Ty::Unit);
    rets.push(Ty::Str);
    let prog = Gen::new(s0, s1, prof).program(&rets);
    let src = print_program(&prog, Parens::Minimal);
    let mut toks = rough_tokens(&src);
    let n_mut = 1 + c.below(3);
    for _ in 0..n_mut {
        if toks.is_empty() {
            break;
        }
        let i = c.below(toks.len());
        match c.below(8) {
            0 => {
                toks.remove(i);
            }
            1 => {
                let t = toks[i].clone();
                toks.insert(i, t);
            }
            2 => {
                if i + 1 < toks.len() {
                    toks.swap(i, i + 1);
                }
            }
            3 | 4 => {
                let t = TOKENS[c.below(TOKENS.len())];
                toks.insert(i, t.to_string());
            }
            5 => {
                toks.truncate(i);
            }
            6 => {
                // replace an ASCII letter by a multi-byte one
                let t = &toks[i];
                let repl: String = t.chars().map(|ch| if ch.is_ascii_alphabetic() && (ch as u32) % 3 == 0 { 'é' } else { ch }).collect();
                toks[i] = repl;
            }
            _ => {
                let t = TOKENS[c.below(TOKENS.len())];
                toks[i] = t.to_string();
            }
        }
    }
    let mut s: String = toks.concat();
    // keep the nesting bound of the property statement
    let mut depth = 0usize;
    let mut maxd = 0usize;
    for ch in s.chars() {
        match ch {
            '(' | '{' | '[' => {
                depth += 1;
                maxd = maxd.max(depth);
            }
            ')' | '}' | ']' => depth = depth.saturating_sub(1),
            _ => {}
        }
    }
    if maxd > 64 {
        s.truncate(s.char_indices().nth(200).map(|(i, _)| i).unwrap_or(s.len()));
    }
    s
}

struct W {
    rt: Runtime<NoCtx>,
    excl: Vec<String>,
}

pub fn build_tree(files: &[(String, String)]) -> FileTree {
    // files[0] is the root (pkg); the others are children of the root
    let mk = |name: &str, module: &str, contents: &str| SourceFile {
        name: name.to_string(),
        module_name: module.to_string(),
        contents: contents.to_string(),
        location_offset: 0,
        children: Vec::new(),
    };
    if files.len() == 1 {
        return FileTree::test_file("pkg.roto", &files[0].1, 0);
    }
    let root = mk("pkg.roto", "pkg", &files[0].1);
    let children: Vec<FileSpec> =
        files[1..].iter().map(|(n, c)| FileSpec::File(mk(&format!("{n}.roto"), n, c))).collect();
    FileTree::file_spec(FileSpec::Directory(root, children))
}

/// The totality oracle for one file tree.  Panics are caught by the caller (`guarded`).
pub fn check_total(rt: &Runtime<NoCtx>, files: &[(String, String)]) -> Result<&'static str, (String, String)> {
    let tree = build_tree(files);
    match tree.compile(rt) {
        Ok(_pkg) => Ok("compiles"),
        Err(report) => {
            let mut a = String::new();
            if report.write(&mut a, true).is_err() {
                return Err(("report:write-colour-failed".into(), "RotoReport::write(_, true) returned an error".into()));
            }
            let mut b = String::new();
            if report.write(&mut b, false).is_err() {
                return Err(("report:write-plain-failed".into(), "RotoReport::write(_, false) returned an error".into()));
            }
            for loc in report.verif_locations() {
                let Some(f) = report.files.get(loc.file) else {
                    return Err(("report:location-file-out-of-range".into(), format!("{loc:?} but the report has {} files", report.files.len())));
                };
                let text = &f.contents;
                if !(loc.start <= loc.end && loc.end <= text.len()) {
                    return Err((
                        "report:location-out-of-range".into(),
                        format!("{loc:?} but file {} has {} bytes\n{b}", f.name, text.len()),
                    ));
                }
                if !text.is_char_boundary(loc.start) || !text.is_char_boundary(loc.end) {
                    return Err(("report:location-not-on-char-boundary".into(), format!("{loc:?} in file {}\n{b}", f.name)));
                }
            }
            if b.starts_with("Error: Parse error") {
                Ok("parse-error")
            } else if b.starts_with("Error: Type error") {
                Ok("type-error")
            } else {
                Ok("other-error")
            }
        }
    }
}

impl W {
    fn files_of(&self, case: &Case) -> Vec<(String, String)> {
        if case.first().map(|c| c.as_slice()) == Some(b"#!files") {
            // literal case: ["#!files", name, contents, name, contents, ...]
            let mut out = Vec::new();
            let mut i = 1;
            while i + 1 < case.len() {
                out.push((String::from_utf8_lossy(&case[i]).to_string(), String::from_utf8_lossy(&case[i + 1]).to_string()));
                i += 2;
            }
            return out;
        }
        let empty: Vec<u8> = Vec::new();
        let ctl = case.first().unwrap_or(&empty);
        let mut c = Choices::new(ctl);
        let n_files = if c.chance(40) { 2 + c.below(2) } else { 1 };
        let mut files = Vec::new();
        for fi in 0..n_files {
            let kind = c.below(18);
            let uni = c.chance(100);
            let text = if kind < 3 {
                token_soup(&mut c)
            } else if kind == 12 || kind == 13 {
                decl_graph(&mut c)
            } else if kind == 17 {
                operator_chain(&mut c)
            } else if kind == 14 {
                import_soup(&mut c)
            } else if kind == 15 || kind == 16 {
                knots_and_duplicates(&mut c)
            } else if kind == 7 || kind == 8 {
                // (iii') a well-typed generated program with one type-breaking edit (C07's catalogue)
                let s0 = case.get(1 + 2 * fi).unwrap_or(&empty);
                let s1 = case.get(2 + 2 * fi).unwrap_or(&empty);
                let mut prof = crate::props::prog::profile_for(crate::props::prog::Kind::C02, &self.excl);
                prof.budget = 100;
                let mut rets: Vec<Ty> = SCALAR_TYS.to_vec();
                rets.push(Ty::Unit);
                let prog = Gen::new(s0, s1, prof).program(&rets);
                let k = c.below(crate::mutate::N_KINDS);
                match crate::mutate::apply(&prog, k, &mut c) {
                    Some((m, _)) => print_program(&m, Parens::Minimal),
                    None => print_program(&prog, Parens::Minimal),
                }
            } else if kind < 7 {
                // (iii) syntactically valid, mostly ill-typed
                let s0 = case.get(1 + 2 * fi).unwrap_or(&empty);
                crate::untyped::print_untyped(&crate::untyped::UGen::new(s0).program())
            } else {
                let s0 = case.get(1 + 2 * fi).unwrap_or(&empty);
                let s1 = case.get(2 + 2 * fi).unwrap_or(&empty);
                mutated_program(&mut c, s0, s1)
            };
            // generated names get a multi-byte tail in four cases out of ten
            let text = if uni && kind >= 3 { unicodeify(&text) } else { text };
            // white space, line breaks and comments in front of punctuation (postfix `?`, `.`,
            // brackets, separators) in one case out of four
            let text = if kind >= 3 && c.chance(64) { respace(&text, c.u16()) } else { text };
            let name = if fi == 0 { "pkg".to_string() } else { format!("m{fi}") };
            files.push((name, text));
        }
        // errors whose labels lie in two files: an item of the root named like a child module,
        // placed behind padding so that its offsets exceed the child's length
        if files.len() > 1 && c.chance(70) {
            let child = files[1 + c.below(files.len() - 1)].0.clone();
            let pad = "x".repeat(c.below(3) * 700 + 40);
            let decl = match c.below(5) {
                0 => format!("fn {child}() {{ }}"),
                1 => format!("record {child} {{ a: i32 }}"),
                2 => format!("const {child}: i32 = 1;"),
                3 => format!("enum {child} {{ A }}"),
                _ => format!("import {child}.zz_missing; import {child}.{child};"),
            };
            let root = &mut files[0].1;
            if c.chance(128) {
                *root = format!("// é{pad}\n{decl}\n{root}");
            } else {
                root.push_str(&format!("\n// é{pad}\n{decl}\n"));
            }
        }
        let _ = &self.excl;
        files
    }
}

impl WorkerState for W {
    fn render_only(&mut self, case: &Case) -> String {
        self.files_of(case).iter().map(|(n, t)| format!("=== {n}.roto ===\n{t}\n")).collect()
    }

    fn run(&mut self, case: &Case, render: bool) -> Outcome {
        let files = self.files_of(case);
        let total: usize = files.iter().map(|(_, t)| t.len()).sum();
        if total > 16 * 1024 {
            return Outcome::discard("input larger than 16 KiB");
        }
        eprintln!("@@ctx compile");
        let mut o = Outcome::pass();
        // known finding C06-F18 is identified by its input: a panic on a text that declares an enum
        // without variants gets a tag of its own, every other panic keeps the plain signature
        let tagged = files.iter().any(|(_, t)| declares_enum_without_variants(t));
        let result = match std::panic::catch_unwind(std::panic::AssertUnwindSafe(|| check_total(&self.rt, &files))) {
            Ok(r) => r,
            Err(payload) => {
                if !tagged {
                    std::panic::resume_unwind(payload);
                }
                let (loc, msg) = crate::worker::take_panic().unwrap_or(("?".into(), "?".into()));
                Err((format!("panic:{}:{}:input-declares-an-enum-without-variants", crate::worker::short_loc(&loc), crate::worker::skeleton(&msg)), format!("panic at {loc}: {msg}")))
            }
        };
        match result {
            Ok(class) => {
                o.classes.push(format!("outcome:{class}"));
                o.nontrivial = class != "parse-error" || total > 20;
                if files.len() > 1 {
                    o.classes.push("multi-file".into());
                }
            }
            Err((sig, msg)) => {
                let mut f = Outcome::fail(sig, msg);
                f.render = Some(self.render_only(case));
                return f;
            }
        }
        let r = self.render_only(case);
        o.hash = fnv(r.as_bytes());
        if render {
            o.render = Some(r);
        }
        o
    }
}

impl Prop for C06P {
    fn id(&self) -> &'static str {
        "C06"
    }
    fn rule(&self) -> String {
        "source texts from ten generators, four cases in ten with a multi-byte letter appended to every generated name so that cited locations border on multi-byte characters (random token sequences over the full token alphabet incl. non-ASCII, malformed and unterminated literals; valid generated programs with 1-3 token/character-level mutations; syntactically valid but mostly ill-typed programs; well-typed programs with one type-breaking edit; graphs of 1-5 record/enum declarations referring to themselves and each other directly and through options, lists, anonymous records, Result and type arguments with matching and mismatching arity; import statements with valid and invalid paths, groups, duplicates and clashes at top level and inside bodies; operator chains of 20-64 operands; declarations with 127-300 variants, fields or parameters; types without values in records, constants and lists; script types named like built-in ones; duplicate declarations of every kind and self-referential inference knots such as `let x = []; x.push({ a: x })`), as single files and as 2-3 module trees (sometimes with a root item named like a child module, so that one error is labelled in two files), bracket nesting <= 64; oracle: FileTree::compile returns a package or a report, the report renders with and without colour, every cited location lies in its file on char boundaries; any panic/abort/stack overflow is a violation. Non-trivial: the input gets past the parser or is longer than 20 bytes; distinct by text".into()
    }
    fn assumptions(&self) -> Vec<String> {
        vec![
            "hangs are observed by a watchdog and reported as inconclusive, not as violations".into(),
            "inputs above 16 KiB or deeper than 64 brackets are not explored (the property is stated within a bounded nesting depth)".into(),
            "cited locations come from hook RotoReport::verif_locations (cfg roto_verif)".into(),
        ]
    }
    fn cases(&self, tier: Tier) -> u32 {
        match tier {
            Tier::Quick => 150_000,
            Tier::Thorough => 3_000_000,
        }
    }
    fn shape(&self, _tier: Tier) -> CaseShape {
        CaseShape::streams(&[200, 400, 150, 400, 150, 400, 150])
    }
    fn worker(&self, excl: &[String]) -> Box<dyn WorkerState> {
        Box::new(W { rt: host::build_runtime(), excl: excl.to_vec() })
    }
}
